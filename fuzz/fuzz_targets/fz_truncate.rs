#![no_main]
//! libFuzzer target for C03: the semantic oracle is vcheck::checks::c03::fuzz_one (the same
//! function `./check C03 --replay` uses); known findings are tolerated so the campaign continues.
use libfuzzer_sys::fuzz_target;

fuzz_target!(|data: &[u8]| {
    vcheck::core::fuzz_target_entry("C03", vcheck::checks::c03::fuzz_one, data);
});
