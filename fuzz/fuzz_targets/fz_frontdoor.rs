#![no_main]
//! libFuzzer target for C11: the semantic oracle is vcheck::checks::c11::fuzz_one (the same
//! function `./check C11 --replay` uses); known findings are tolerated so the campaign continues.
use libfuzzer_sys::fuzz_target;

fuzz_target!(|data: &[u8]| {
    vcheck::core::fuzz_target_entry("C11", vcheck::checks::c11::fuzz_one, data);
});
