#![no_main]
//! libFuzzer target for C20 (robustness clause): the semantic oracle is
//! vcheck::checks::c20::fuzz_one (the same function `./check C20 --replay` uses); known findings
//! are tolerated so the campaign continues.
use libfuzzer_sys::fuzz_target;

fuzz_target!(|data: &[u8]| {
    vcheck::core::fuzz_target_entry("C20", vcheck::checks::c20::fuzz_one, data);
});
