#![no_main]
//! libFuzzer target for C02: the semantic oracle is vcheck::checks::c02::fuzz_one (the same
//! function `./check C02 --replay` uses); known findings are tolerated so the campaign continues.
use libfuzzer_sys::fuzz_target;

fuzz_target!(|data: &[u8]| {
    vcheck::core::fuzz_target_entry("C02", vcheck::checks::c02::fuzz_one, data);
});
