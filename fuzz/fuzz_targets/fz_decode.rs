#![no_main]
//! libFuzzer target for C01: the semantic oracle is vcheck::checks::c01::fuzz_one (the same
//! function `./check C01 --replay` uses); known findings are tolerated so the campaign continues.
use libfuzzer_sys::fuzz_target;

fuzz_target!(|data: &[u8]| {
    vcheck::core::fuzz_target_entry("C01", vcheck::checks::c01::fuzz_one, data);
});
