#!/bin/bash
# tools/mutcheck.sh <patch.diff | -> <ID> [<ID>...]  — run checks against a scratch worktree of
# /repo carrying a mutation (never touches /repo itself). "-" = no patch (sanity run).
# Scratch lives in /root/work/mut; remove with: tools/mutcheck.sh --clean
set -u
M=${MUTDIR:-/root/work/mut}
if [ "${1:-}" = "--clean" ]; then
    git -C /repo worktree remove --force $M/repo 2>/dev/null
    rm -rf $M
    exit 0
fi
PATCH="$1"; shift
mkdir -p $M/vdir
if [ ! -d $M/repo ]; then
    git -C /repo worktree add --detach $M/repo HEAD >/dev/null 2>&1 || exit 2
fi
git -C $M/repo reset -q --hard 2>/dev/null   # a failed --3way attempt leaves an unmerged index behind
git -C $M/repo checkout -q --detach "$(git -C /repo rev-parse HEAD)" || exit 2
git -C $M/repo reset -q --hard ; git -C $M/repo clean -fdq
if [ "$PATCH" != "-" ]; then
    git -C $M/repo apply "$PATCH" 2>/dev/null || git -C $M/repo apply -C1 "$PATCH" 2>/dev/null || git -C $M/repo apply --3way "$PATCH" 2>/dev/null || { echo "patch does not apply"; git -C $M/repo reset -q --hard; exit 2; }
fi
if [ "${MUT_COMMITTED:-0}" = "1" ]; then
    # the harness as committed (a working tree that is being edited may not compile)
    rm -rf $M/harness.new && mkdir -p $M/harness.new && git -C /verif archive HEAD harness | tar -x -C $M/harness.new && rsync -a --delete --exclude target $M/harness.new/harness/ $M/harness/ && rm -rf $M/harness.new
else
    rsync -a --delete --exclude target /verif/harness/ $M/harness/
fi
sed -i "s#/repo/crates/#$M/repo/crates/#g" $M/harness/Cargo.toml
sed -i "s#target-dir = .*#target-dir = \"$M/target\"#" $M/harness/.cargo/config.toml
cp /verif/known_findings.json $M/vdir/
rm -rf $M/vdir/replays; mkdir -p $M/vdir/replays
# committed regression replays take part as well
for d in /verif/replays/*/; do id=$(basename $d); mkdir -p $M/vdir/replays/$id; cp $d*.json $M/vdir/replays/$id/ 2>/dev/null; done
rm -f $M/target/release/vcheck   # never run a binary left over from another patch
( cd $M/harness && cargo build --release --offline 2>&1 | grep -E "^error" -A12 | head -40 )
[ -x $M/target/release/vcheck ] || { echo "build failed"; exit 2; }
rc=0
for id in "$@"; do
    VERIF_DIR=$M/vdir $M/target/release/vcheck "$id" --no-evidence 2>&1 | grep -E "VIOLATION|sig=|KNOWN-FINDING|tier=" | cut -c1-300
    r=${PIPESTATUS[0]}
    [ $r -ne 0 ] && rc=$r
done
git -C $M/repo reset -q --hard ; git -C $M/repo clean -fdq
exit $rc
