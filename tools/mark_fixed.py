#!/usr/bin/env python3
"""mark_fixed.py PROPERTY SIGNATURE COMMIT — turn a known finding into a fixed one."""
import json, sys
prop, sig, commit = sys.argv[1:4]
p = '/verif/known_findings.json'
k = json.load(open(p))
n = 0
for f in k['findings']:
    if f['property'] == prop and f['signature'] == sig:
        f['status'] = 'fixed'
        f['commit'] = commit
        what = f.get('what', '')
        f['line'] = f"fixed: property={prop} {commit} {what[:300]}"
        n += 1
json.dump(k, open(p, 'w'), indent=1)
print(f"{prop} {sig}: {n} entries marked fixed by {commit}")
