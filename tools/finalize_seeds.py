#!/usr/bin/env python3
"""finalize_seeds.py — complete seeded/<name>/meta.json from the seeding agent's notes.md and the
latest redetect.json, and print the markdown table used in DESIGN.md §12.8 (also written to
seeded/INDEX.md).

meta.json then says on its own: which property, which clause breaks, what the change needs to
manifest, what was run here (confirmation + check) and with which result.
"""
import glob, json, os, re

ROOT = "/verif/seeded"

# seeds the first version of a check missed, and what was strengthened because of it
MISSED = {
    "C01-b": "C01 had no generator family for OPT option payloads: new `opt-options` and `pointer-graph` source families",
    "C07-b": "C07 tampering never changed a record's class: new operation `AddRecordOtherClass` (class CH copy of a genuine RR)",
    "C08-b": "the deviation was swallowed by a known-finding signature that was too wide: `nsec-server-proof-lacks-closest-encloser-wildcard-cover` now only matches names two or more labels below the closest encloser",
    "C09-a": "foreign NSEC3 records came from unrelated zones only: `foreign_zone()` now also builds child, grandchild and parent zones of the SOA owner",
    "C11-b": "EDNS was only generated on QUERY requests: `Req::Update`/`Req::OtherOp` now carry an optional OPT (version 0..2, DO, payload sizes)",
    "C12-a": "the harness cleared the empty RRset objects of a known finding after every message: they are now carried into later messages in half of the histories and prerequisites on them must still read 'no such RRset'",
    "C18-b": "liveness was asserted only when every faulty server fails fast: servers whose TCP connect hangs are now admitted at the cost of connect_timeout (single caller)",
    "C20-a": "the zone-file printer always separated comments from fields by white space: new layout feature `GluedComment`",
    # round 2 (letters c, d)
    "C06-c": "C06 changed the class of members but never added a record of another class beside them: new edit `RecAddClass` (CH/HS/254/255, fresh RDATA or a copy of a member)",
    "C06-d": "the validator was always built with default cache settings: scenarios now also configure `positive/negative_validation_ttl(lo..=hi)` with lo > 0",
    "C07-c": "every case met a fresh validator and no fault duplicated a record: new fault `AddRecordTwice`, and half of the faults on the top-level response now meet a validator whose validation cache was warmed with the genuine responses",
    "C07-d": "the order of records inside an RRset was never disturbed: new fault `Reverse` (order carries no meaning, the verdict must not change)",
    "C08-d": "soundness was judged on direct `verify_nsec` calls, whose input is assumed to be authenticated: new end-to-end sub-property `sound_forged_expansion_e2e` presents the wildcard owner's genuine NSEC + RRSIG under an expanded owner name to the real `DnssecDnsHandle`",
    "C09-d": "limits were only varied on direct `verify_nsec3` calls, the end-to-end sub-property ran with the defaults: new sub-property `iteration_limits_e2e` configures `nsec3_iteration_limits` just below / at the zone's iteration count on the real `DnssecDnsHandle`",
    "C11-d": "no query name began with an asterisk label, and the rcode of queries whose answer the check cannot predict was unconstrained: such names are generated now and an ordinary IN query inside a configured zone must not be REFUSED",
    "C12-c": "the oracle accepted both outcomes for an SOA add exactly 2^31 from the zone serial (RFC 1982: undefined); a replacement cannot leave the serial advanced, so only 'ignored' is accepted now",
    "C13-d": "handlers were always built with `SqliteZoneHandler::new`: new sub-property `configured_from_files` builds them with `try_from_config` (zone file, key files, journal), half of the cases after a restart from the journal",
    "C15-d": "the client sub-property only served direct answers with `preserve_intermediates = false`: alias answers (CNAME chain + target in one response) and both settings are generated now",
    "C17-d": "the scripted socket implemented the futures-io traits directly, so hickory's tokio adapter (`runtime.rs: iocompat::AsyncIoTokioAsStd`) was never in the path: a third of the cases now reach the socket through tokio's I/O traits and that adapter",
    "C18-c": "every caller of a shared lookup ran to completion: in 40 % of the de-duplication cases a second identical caller now joins and drops its lookup in flight, and a third one starting afterwards must still share the first exchange",
    "C19-c": "resolutions were strictly sequential: every third query is now resolved twice concurrently on the same recursor and both results are judged",
    "C20-d": "escaped dots were generated in the middle of a label only: labels now also begin or end with one (a relative name written `j\\.` ends in a dot character without being absolute)",
    # round 3 (letters e, f)
    "C12-e": "prerequisite sections had at most three independently generated RRs: one later message in five now carries value-dependent prerequisites for every RR of one or two RRsets the zone holds at that moment, in sequence, alternating, nested or reversed (all true by construction)",
    "C12-f": "every generated type had a code below 256: a private-use type (65280) joined the universe",
    "C14-e": "no case wrote more than a few dozen rows at once: 1 initial dump in 31 now has more than 1000 records",
    "C14-f": "every owner name of the initial zone lay inside the zone: a quarter of the initial zones now hold out-of-zone glue, as the zone-file loader accepts",
    "C06-f": "every generated key-signing key had flags 257: 15 % of the chains now carry the REVOKE bit on the key-signing key consistently (DNSKEY RRset, key tag, DS, signatures), which RFC 5011 2.1 forbids as a trust path",
    "C09-e": "owner and query names reached the validator in one letter case only: each verdict is recomputed with the case of the SOA owner and of the query name flipped and must not change (also added to C08)",
    "C11-e": "an OPT or TSIG record was only ever placed in the additional section: requests with one in the answer or authority section are generated and counted as malformed bodies (FORMERR)",
    "C13-f": "the client side was exercised through the stream multiplexer only: new sub-property `client_udp_replies` sends signed requests through the real `UdpClientStream::with_signer` on the simulated runtime against sequences of 1-3 reply datagrams (genuine or edited)",
    "C05-e": "no generated type had an embedded name that stays unfolded apart from the singleton NSEC: SVCB/HTTPS RRsets joined the generator, and injected case variants of NSEC/SVCB/HTTPS members are distinct RRs that must all be signed",
    "C16-e": "a reply's question section was the asked question, a foreign one, an extra unasked one or a case-flipped one, never the asked question twice in two spellings: kind `ExactAndFlipped` (either order) joined the datagram alphabet",
    "C20-e": "no generated name came near the 255-octet limit: 1 name in 23 is now padded to exactly 255 (or 254, 252) octets below its origin, so that its relative spelling completes to the boundary",
    "C20-f": "$INCLUDE was only fed to the robustness sub-property: new sub-property `include_layout` moves runs of lines into included files (nested, with and without final newline, with $ORIGIN switches inside) and compares the loaded records; it had been written an hour before this seed arrived and had already exposed a genuine defect (origin leak, fixed in 659f378), but the committed check at the seed's arrival did not have it",
    # round 4 (letters g, h)
    "C02-g": "every message object was freshly built: messages with EDNS are now also encoded from an object that carried an extended response code before (OPT data still holds its upper bits) and must decode like the fresh object",
    "C03-h": "every zone record of the server sub-property could be encoded: 1 zone in 12 now holds a TXT record with a 300-octet string, which the constructors accept and the encoder refuses, so that the server's SERVFAIL fallback is reached (no octets may follow its header)",
    "C04-h": "no generated label began with the ACE prefix and an unparseable Display output was tolerated: `xn--` labels (mostly invalid punycode, two valid) joined the host-name alphabet and the displayed name must parse back to an equal name; this exposed a defect of the unchanged tree, recorded as a known finding",
    "C05-h": "ANAME, the one other type hickory models whose embedded name stays unfolded, was not in the generator: ANAME RRsets (with injected case variants as distinct RRs) joined it",
    "C09-h": "the end-to-end limits sub-property always passed both limits with soft <= hard: two more modes hand the builder only a hard limit (below the default soft limit) or a hard limit below the soft one",
    "C13-h": "every generated request had all header flags clear, as hickory's update builders leave them: RD, CD and AD are now set on 2 requests in 5 before signing, so a reply header that is MACed differently from what is sent fails the completeness clause",
    "C08-h": "the forged end-to-end responses only renamed an NSEC; new sub-property `sound_stripped_proof_e2e` hands the validator the server's honest wildcard-expanded answer (asked for directly or reached through an in-zone CNAME) with every NSEC and its RRSIG removed: the expanded RRset must not come back Secure",
    "C10-h": "the denial clause was checked by presence of NSEC3 records only: a NODATA answer for an existing name (also an empty non-terminal) from an NSEC3 zone must now carry the NSEC3 RR whose owner hash matches the query name (hash recomputed from the record's own parameters)",
    "C11-g": "a record with a wrong RDLENGTH counted as 'RDATA not vetted' (FORMERR allowed, not required): class-IN A/AAAA records whose RDLENGTH is not 4/16 in a non-UPDATE request are generated in every section and count as malformed bodies",
    "C11-h": "C11 only used the in-process front door, which has no TCP read loop: the `TimeoutStream` wrapper sub-property of C17 (now with a consumer that is busy between reads) is registered under C11 as `tcp_read_loop_idle_wrapper`",
    "C15-g": "of the two readings of L the weaker one was asserted; the statement's own wording ('per-type clamped stored TTL') settles it: L is now the smallest *stored* TTL, clamped to the query type's bounds (DESIGN 12.5)",
    "C15-h": "negative errors always carried the query they were stored under: 1 in 5 now carries a query of another type, or comes from a reply without question section; the cache key decides the bounds",
    "C17-g": "the scripted socket recorded flushes but nothing looked at them: an idle stream must have flushed every octet it handed to the socket (a buffering transport sends on flush only)",
    "C17-h": "the consumer of the idle-timeout wrapper always polled at once: it may now be busy for 1-400 ms between two reads while the next item is already there, which is not a silence of the peer",
    "C18-g": "only a *joining* caller gave up in flight: in 1 de-duplication case in 6 the only caller now drops its lookup and the name is asked again; the later lookup must fare exactly as when the abandoned lookup had been for another name",
    "C19-h": "injected out-of-bailiwick records were A, NS, CNAME and TXT only: an NSEC record at a victim name (a 'denial proof' of somebody else's zone) joined the injection kinds",
    "C19-e": "aliases came as chains and loops only: 1 simulated internet in 13 now has an alias tree (2-3 CNAME records per owner, 4-5 levels) and the number of its names looked up per client query is held against the recursor's cap of 64",
    # round 5 (letter i)
    "C04-i": "no case wrote more than six names into one encoder, so the per-message budgets of the name compressor (64 stored candidates, 120 names written with compression) were never used up: new sub-property `wire_many_names` writes 40-320 related names (fresh leading labels, letter case chosen per name) into one encoder and reads each back at its offset",
    "C13-i": "transfer requests always asked for AXFR and always met a SqliteZoneHandler: new enumerated sub-property `transfer_questions_all_handlers` sends AXFR and IXFR questions (with and without the client's SOA) unsigned, validly signed, wrongly keyed and stale to an InMemoryZoneHandler and to a SqliteZoneHandler under Deny / AllowSigned / AllowAll through the catalog; two or more answer RRs only where the policy admits the transfer",
    # round 6 (letter j)
    "C04-j": "C04 only wrote bare names and owner names; a name inside RDATA goes through a per-type choice of name encoding: new sub-property `wire_rdata_names` writes NS, CNAME, PTR, MX, SOA, SRV, NAPTR and ANAME records the ordinary way at some message offset (alone or after an equal record) and compares owner and RDATA names octet for octet",
    "C12-j": "apart from the private-use code every generated type was one of A, TXT, NS, CNAME, SOA: DS (type 43; ordinary data to RFC 2136, and RFC 4035 2.5 admits only RRSIG, NSEC and KEY beside a CNAME) joined the type universe of initial zones, prerequisites and updates",
    "C08-j": "forged answers held one RRset; the validator's choice among *several* wildcard RRSIGs in one answer section was never exercised: new sub-property `sound_replayed_expansion_e2e` re-owns the genuine RRset + RRSIG of a wildcard `*.X` to a query name below X whose true answer for that type is negative, beside (before or after) the honest expansion of the closer wildcard for another type and with every NSEC of the chain in the authority section; accepted cases are attributed to the two recorded validator defects only where the zone has no wildcard between X and the query name (resp. the name lies below a `*` node)",
    "C14-j": "every generated update RR was one the live server either applies or refuses before it writes: 1 history in 16 now has a message ending with a class-ANY, TTL-0 RR of type NULL that carries RDATA, which the prescan lets through; the journal written while handling it must remain recoverable",
    "C15-j": "the TtlConfig always came out of its serde form, where a type occurs once: 2 histories in 5 now build it from the default bounds plus `with_query_type_ttl_bounds` per type, half of them giving every type other bounds first and the real ones afterwards (the rustdoc says 'Override')",
}

# seeds that stopped violating their property because of a later `fix:` commit in /repo
NEUTRALISED = {
    "C08-f": "missed by C08 when it arrived (no sampled positive answer had a CNAME target with fewer labels than the alias). Looking into it exposed the validator defect behind it: any positive answer that carries superfluous denial records was rejected (fixed in e539ca2, found independently by C09 `positive_e2e`). With that fix the validator accepts the changed server's response, so the change no longer violates C08; the server-side behaviour it introduces (NSEC attached to a plain positive answer) is reported by C10 as `positive-answer-carries-nsec`, an assertion added for this seed (seeded/C08-f/mutcheck-C10.log)",
}


def section(text, pattern):
    """body of the first '## ' section whose heading matches pattern"""
    m = re.search(r"^##\s+[^\n]*(?:%s)[^\n]*\n(.*?)(?=^##\s|\Z)" % pattern, text, re.M | re.S | re.I)
    return m.group(1).strip() if m else ""


def first_sig(lines):
    for l in lines:
        m = re.search(r"sig=([^\s]+)", l)
        if m:
            return m.group(1)
    return ""


rows = []
for d in sorted(glob.glob(ROOT + "/*/")):
    name = os.path.basename(d[:-1])
    mp = d + "meta.json"
    if not os.path.exists(mp):
        continue
    meta = json.load(open(mp))
    notes = open(d + "notes.md", errors="replace").read() if os.path.exists(d + "notes.md") else ""
    title = notes.splitlines()[0].lstrip("# ").strip() if notes else name
    meta["title"] = title
    meta["clause_broken"] = section(notes, r"clause")
    meta["needs_to_manifest"] = section(notes, r"needed")
    meta["breaks"] = "property %s — clause and mechanism in `clause_broken`; full text in notes.md (written by the independent seeding agent, which saw only the property text and a private worktree)" % meta.get("property", name[:3])
    det_lines = meta.get("detection")
    if isinstance(det_lines, str):
        try:
            det_lines = eval(det_lines, {"__builtins__": {}})
        except Exception:
            det_lines = [det_lines]
        meta["detection"] = det_lines
    rp = d + "redetect.json"
    if os.path.exists(rp):
        r = json.load(open(rp))
        meta["redetected_at_final_head"] = r
    if name in MISSED:
        meta["missed_by_first_version_of_check"] = True
        meta["check_strengthened"] = MISSED[name]
    json.dump(meta, open(mp, "w"), indent=1)
    final = meta.get("redetected_at_final_head") or {}
    lines = final.get("lines") or meta.get("detection") or []
    sig = first_sig(lines)
    detected = final.get("detected", meta.get("detected"))
    needs = re.sub(r"\s+", " ", meta["needs_to_manifest"])
    needs = needs[:230] + ("…" if len(needs) > 230 else "")
    short = re.sub(r"^C\d\d[^—–:-]*[—–:-]+\s*", "", title)
    caught = ("`%s`" % sig) if detected and sig else ("detected" if detected else "**NOT DETECTED**")
    if name in MISSED:
        caught = "**missed at first** → " + MISSED[name] + " → " + caught
    if name in NEUTRALISED:
        meta["no_longer_a_violation_at_final_head"] = NEUTRALISED[name]
        json.dump(meta, open(mp, "w"), indent=1)
        caught = "no longer a violation at the final HEAD: " + NEUTRALISED[name]
    rows.append("| %s %s | %s | %s |" % (name, short.replace("|", "\\|"), needs.replace("|", "\\|"), caught.replace("|", "\\|")))

names = [os.path.basename(d[:-1]) for d in sorted(glob.glob(ROOT + "/*/")) if os.path.exists(d + "meta.json")]
rounds = [("1", "ab"), ("2", "cd"), ("3", "ef"), ("4", "gh"), ("5", "i"), ("6", "j")]
parts, missed_parts = [], []
for rn, letters in rounds:
    r = [n for n in names if n[-1] in letters]
    if not r:
        continue
    parts.append("round %s: %d, letters %s" % (rn, len(r), "/".join(letters)))
    m = [n for n in r if n in MISSED]
    missed_parts.append("%d in round %s (%s)" % (len(m), rn, ", ".join(m) or "none"))
neutral = [n for n in names if n in NEUTRALISED]
not_detected = sum(1 for r in rows if "NOT DETECTED" in r)
summary = (
    "Totals: %d seeded changes (%s). Missed by the check as it stood when the seed arrived: %s; every one of them led "
    "to a stronger generator, a tighter oracle, a narrower known-finding signature or (C08-f) to a genuine defect being found; "
    "%s of the %d are caught by the checks as committed (last column)%s.\n\n"
    % (len(names), "; ".join(parts), ", ".join(missed_parts),
       ("all" if not_detected == 0 and not neutral else str(len(names) - not_detected - len(neutral))), len(names),
       ("" if not neutral else "; %s no longer violate%s the property at the final HEAD because of a later fix" % (", ".join(neutral), "s" if len(neutral) == 1 else "")))
)
table = summary + "| seed | what it needs to manifest (seeding agent's words, shortened) | caught by |\n|---|---|---|\n" + "\n".join(rows)
open(ROOT + "/INDEX.md", "w").write("# Independently seeded changes\n\n" + table + "\n")
print(table)
