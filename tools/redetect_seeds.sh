#!/bin/bash
export MUT_COMMITTED=1   # judge with the committed harness, not a working tree in mid-edit
# tools/redetect_seeds.sh [<seed-dir-name>...] — re-run the quick check(s) of every stored seeded
# change against the *current* /repo HEAD in a scratch worktree (MUTDIR, default /root/work/mut3)
# and record the outcome in seeded/<name>/redetect.json. /repo itself is never touched.
export MUTDIR=${MUTDIR:-/root/work/mut3}
cd /verif || exit 2
HEAD=$(git -C /repo rev-parse --short HEAD)
names=("$@"); [ ${#names[@]} -eq 0 ] && names=($(ls seeded))
mkdir -p $MUTDIR
for n in "${names[@]}"; do
    d=seeded/$n; [ -f $d/patch.diff ] || continue
    id=${n%%-*}
    tools/mutcheck.sh /verif/$d/patch.diff $id > $MUTDIR/redetect.out 2>&1; rc=$?
    python3 - "$d" "$HEAD" "$rc" "$MUTDIR/redetect.out" <<'PY'
import json, sys, re
d, head, rc, outp = sys.argv[1], sys.argv[2], int(sys.argv[3]), sys.argv[4]
lines = [l.rstrip()[:400] for l in open(outp, errors="replace") if re.search(r"VIOLATION|sig=|patch does not apply|build failed|^error", l)][:4]
det = rc == 1 and any("VIOLATION" in l for l in lines)
json.dump({"repo_head": head, "mutcheck_rc": rc, "detected": det, "lines": lines}, open(d + "/redetect.json", "w"), indent=1)
print(d, "rc=%d" % rc, "detected" if det else "NOT-DETECTED" if rc == 0 else "ERROR")
PY
done
