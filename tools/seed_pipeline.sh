#!/bin/bash
export MUT_COMMITTED=1   # judge with the committed harness, not a working tree in mid-edit
# seed_pipeline.sh <PROP> <x> <src-dir> <demo-file-name> <demo-dest-rel> "<demo cmd>"
# confirm (demo both ways + full suite) + run the property's quick check against the patch,
# then record everything under /verif/seeded/<PROP>-<x>/
set -u
PROP="$1"; X="$2"; SRC="$3"; DEMO="$4"; DEST="$5"; CMD="$6"
OUT=/verif/seeded/$PROP-$X
mkdir -p $OUT
cp $SRC/patch.diff $OUT/patch.diff
cp $SRC/$DEMO $OUT/$DEMO
[ -f $SRC/notes.md ] && cp $SRC/notes.md $OUT/notes.md
RAW=$(/verif/tools/confirm_seed.sh $PROP-$X $OUT/patch.diff $OUT/$DEMO "$DEST" "$CMD" --full 2>&1)
CONF=$(echo "$RAW" | grep "^SEED-RESULT" | sed 's/^SEED-RESULT //')
REGR=$(echo "$RAW" | grep "suite-regression" | tr '\n' ';')
timeout 1800 /verif/tools/mutcheck.sh $OUT/patch.diff $PROP > $OUT/.mutcheck.out 2>&1
MRC=$?
DET=$(grep -v "^proptest\|KNOWN" $OUT/.mutcheck.out)
grep -v '^KNOWN' $OUT/.mutcheck.out | cut -c1-600 | head -40 > $OUT/mutcheck.log; rm -f $OUT/.mutcheck.out
python3 - "$PROP" "$X" "$DEST" "$CMD" "$CONF" "$OUT" "$REGR" "$MRC" <<PY
import json,sys,subprocess
prop,x,dest,cmd,conf,out,regr,mrc=sys.argv[1:9]
det='''$DET'''
try: c=json.loads(conf)
except Exception: c={"raw":conf}
viol=[l.strip() for l in det.splitlines() if l.startswith('VIOLATION') or l.strip().startswith('sub=')]
meta={
 "property":prop,"seed":f"{prop}-{x}",
 "breaks":"see notes.md (written by the independent seeding agent, which saw only the property text)",
 "demonstration":{"file":dest.split('/')[-1],"place_at":dest,"command":cmd},
 "confirmed_by_builder":c,
 "repo_head_when_confirmed":subprocess.run(['git','-C','/repo','rev-parse','--short','HEAD'],capture_output=True,text=True).stdout.strip(),
 "check_run":f"tools/mutcheck.sh seeded/{prop}-{x}/patch.diff {prop}  (quick tier, VERIF_SEED=0, scratch worktree)",
 "suite_tests_not_passing_with_patch":regr,
 "mutcheck_exit":int(mrc),
 "detected":bool(viol) and int(mrc)==1,
 "detection":[v[:400] for v in viol[:6]],
}
json.dump(meta,open(out+'/meta.json','w'),indent=1)
print(f"{prop}-{x}: applies={c.get('applies')} demo clean/patched rc={c.get('demo_rc_without_patch')}/{c.get('demo_rc_with_patch')} suite-regressions={c.get('suite_stable_tests_not_passing_with_patch')} detected={bool(viol) and int(mrc)==1} mutcheck-exit={mrc} {regr}")
PY
