#!/usr/bin/env python3
"""Regenerates /verif/MANIFEST.json from the table below (one entry per claimed property)."""
import json, subprocess, sys

HOOK_COMMITS = subprocess.run(
    ["git", "-C", "/repo", "log", "--format=%H %s", "--grep=^verif hook:"],
    capture_output=True, text=True).stdout.strip().splitlines()

# id -> (level category, technique, level text, level_note, design_ref)
CLAIMED = {
    "C04": ("exploration",
            "property-based testing (proptest) against an RFC 4034 reference order/equality model + exhaustive small-scope pair enumeration",
            "Generated names, related pairs/triples, pools, wire contexts and constructor programs are checked against an independent canonical-order / case-folded-equality model, a wire round trip at arbitrary offsets with and without compression, a text round trip for host-style names, and the 255/63 limits after every constructor step. Sampling, not proof: it reports how many distinct non-trivial cases stood behind the verdict.",
            "Trusts the harness's reference model (refm/canon.rs, ~60 lines from RFC 4034 §6.1) and proptest's generators; text clause limited to the alphabet the statement names.",
            "DESIGN.md §7 C04"),
    "C17": ("exploration",
            "property-based testing (proptest) + exhaustive small-scope enumeration of chunk compositions against a framing reference model",
            "The real TcpStream is polled by hand over a scripted socket: generated read chunkings with would-block steps, close positions and write-acceptance scripts; for every short stream (framed length ≤10 quick / ≤13 thorough) ALL compositions into read chunks × ALL close positions and ALL compositions into write acceptances are enumerated. Oracle: yielded items = the complete messages before the close, then clean end / error / idle; octets accepted by the socket = len_be16‖body concatenation.",
            "Trusts the scripted socket model (wakes immediately after would-block; silent peer = Pending without wake). Zero-length frames and Ok(0) writes are outside the stated domain.",
            "DESIGN.md §7 C17"),
}

NOT_YET = {}

def main():
    props = [json.loads(l) for l in open("/verif/properties.jsonl")]
    checks, na = [], []
    for p in props:
        pid = p["id"]
        if pid in CLAIMED:
            cat, tech, text, note, ref = CLAIMED[pid]
            checks.append({
                "property_id": pid,
                "quick_cmd": f"./check {pid} --tier quick",
                "thorough_cmd": f"./check {pid} --tier thorough",
                "evidence_file": f"/verif/evidence/{pid}.json",
                "replay_cmd_template": f"./check {pid} --replay {{path}}",
                "engine": "vcheck",
                "level_claimed": {"category": cat, "text": text, "design_ref": ref},
                "level_note": note,
                "technique": tech,
            })
        else:
            na.append({"property_id": pid,
                       "reason": NOT_YET.get(pid, "check not built yet in this revision of /verif (planned per DESIGN.md §7; the technique applies)")})
    m = {
        "version": 1,
        "setup_cmd": "cd /verif/harness && CARGO_NET_OFFLINE=true cargo build --release --offline",
        "hooks": {
            "guard": "cargo feature `verif-hooks` on hickory-proto, hickory-net and hickory-server (default off)",
            "enable": "the harness depends on /repo/crates/* by path with features = [\"verif-hooks\", …]; every ./check run rebuilds them from /repo's working tree",
            "baseline_off_cmd": "/verif/tools/baseline_off.sh",
            "source_commits": [l.split()[0] for l in HOOK_COMMITS],
            "add_only": True,
        },
        "engines": [
            {"name": "vcheck", "path": "/verif/harness", "serves_properties": sorted(CLAIMED),
             "kind_free_text": "Rust binary: sharded proptest runner + small-scope enumerator + reference models + simulated runtime; one subcommand per property"},
        ],
        "checks": checks,
        "not_applicable": na,
        "notes": "All checks: VERIF_SEED selects the PRNG stream; exit 0 held / 1 VIOLATION / 2 inconclusive. Known findings: /verif/known_findings.json.",
    }
    json.dump(m, open("/verif/MANIFEST.json", "w"), indent=1)
    print("claimed:", len(checks), "not claimed:", len(na))

main()
