#!/usr/bin/env python3
"""Regenerates /verif/MANIFEST.json from the table below (one entry per claimed property)."""
import json, subprocess, sys

HOOK_COMMITS = subprocess.run(
    ["git", "-C", "/repo", "log", "--format=%H %s", "--grep=^verif hook:"],
    capture_output=True, text=True).stdout.strip().splitlines()

# id -> (level category, technique, level text, level_note, design_ref)
CLAIMED = {
    "C01": ("exploration",
            "property-based testing (proptest): generated + mutated + adversarial-by-construction byte strings into every decode entry point; oracle = no panic, name-length walker, deterministic work bound (hook counter), wall watchdog for non-termination",
            "Every entry point that accepts network bytes is driven with valid model encodings, byte mutations of them, adversarial families built to reach the deep regions (8,190-hop pointer chains referenced by thousands of names, 127-label names, counts of 65,535, names at 253..256 octets, RDLENGTH games) and random bodies up to 65,535 octets. A panic, a decoded name over 255/63, more than 128*|b|+1024 name-decoding steps, or a call that runs over 20 s is a violation. Sampling, not proof.",
            "Trusts the hook counter (one increment per iteration of the name-decoding loop) as the measure of work; allocation size is not examined. One known finding (quadratic work on long pointer chains) is excluded by signature and reported as KNOWN-FINDING.",
            "DESIGN.md §7 C01"),
    "C02": ("exploration",
            "property-based testing (proptest) against an independent wire model: constructor-built messages and model-encoded packets round-tripped, compared by a deep comparison and RR-by-RR against the model's own RDATA octets via an independent packet splitter",
            "Model messages covering every RDATA variant hickory has a codec for are (A) assembled through hickory's public constructors, encoded, decoded and compared field by field incl. TTL, class and exact label case, and the emitted packet is cut into RRs by the harness's own splitter and compared with the model's own encoding; (B) encoded by the harness's own encoder (three compression modes), decoded, re-encoded, re-decoded; (C) byte-mutated and, where still accepted, required to re-encode to an equal message with byte-identical RDATA for non-compressible types.",
            "Trusts the harness's wire model (refm/wire_ref.rs, written from the RFC text). Documented normalisations: zero-octet RDATA = Update0; messages over 65,535 uncompressed octets out of domain; non-compressible RDATA that arrived with a compression pointer compared after decompression only.",
            "DESIGN.md §7 C02"),
    "C03": ("exploration",
            "property-based testing (proptest): limits constructed at record boundaries and inside names/fixed fields/RDATA/OPT/TSIG; oracle = length bound, full consumption by the decoder and by an independent splitter, deep-equal prefix per section, TC iff dropped; server clause through the real front door",
            "Model messages are encoded with BinEncoder::set_max_size(L) for limits placed where truncation logic can go wrong; the result must fail or be ≤ L, decode with no octet left over (also per the harness's own splitter), have sections that are deep-equal prefixes of the original, intact-or-dropped OPT/TSIG, and TC' = TC ∨ dropped. Server: zones whose RRsets overflow × advertised payload × UDP/TCP through VerifFrontDoor → Catalog → ResponseHandle: length ≤ max(512, advertised) / 65,535, decodes completely, ID/question echoed, TC iff answers dropped.",
            "Sections are compared at hickory's Message level (OPT and TSIG are separate fields). One defect found here (trailing octets after truncation) was repaired by a fix: commit in /repo; its replays are regression cases.",
            "DESIGN.md §7 C03"),
    "C04": ("exploration",
            "property-based testing (proptest) against an RFC 4034 reference order/equality model + exhaustive small-scope pair enumeration",
            "Generated names, related pairs/triples, pools, wire contexts and constructor programs are checked against an independent canonical-order / case-folded-equality model, a wire round trip at arbitrary offsets with and without compression (single names, 40-320 names in one message so that the encoder's per-message compression budgets run out, and names inside the RDATA of NS/CNAME/PTR/MX/SOA/SRV/NAPTR/ANAME records), a text round trip for host-style names, and the 255/63 limits after every constructor step. Sampling, not proof: it reports how many distinct non-trivial cases stood behind the verdict.",
            "Trusts the harness's reference model (refm/canon.rs, ~60 lines from RFC 4034 §6.1) and proptest's generators; text clause limited to the alphabet the statement names. Two known findings (Display of a valid-punycode label beside a non-STD3 label, and of a valid-punycode label with a non-LDH ASCII character inside) are excluded by signature.",
            "DESIGN.md §7 C04"),
    "C05": ("exploration",
            "property-based testing (proptest) + exhaustive order enumeration: hickory's TBS octets compared byte for byte with an independent RFC 4034 §6 / RFC 4035 §5.3.2 encoder; cross-signer differential with ring (third party signs → hickory verifies; hickory signs → third party verifies)",
            "Generated RRsets of 22 RDATA kinds (arbitrary order, duplicates, mixed-case owners and RDATA names, wildcard owners with reduced Labels, TTL ≠ OrigTTL, wrapped windows) × RRSIG parameter tuples: TBS::from_input must equal the reference signed data byte for byte; ring signs the reference octets and hickory must accept (and reject a one-bit control); hickory signs and ring must verify over the reference octets, for ED25519, ECDSA P-256/P-384, RSASHA256/512; fixed openssl vectors for RSASHA1 variants; every member order of 5 fixed sets.",
            "Trusts refm/tbs_ref.rs + refm/dnssec_wire.rs (own canonical encoders) and ring. Three known findings (sort not canonical, duplicates kept, RFC 4034-listed types hickory does not model) are diagnosed by exact octet equality against an alternative model and excluded by signature.",
            "DESIGN.md §7 C05"),
    "C06": ("exploration",
            "property-based testing (proptest) + exhaustive bit/clock sweep: single-field and single-bit mutations of records, RRSIG and DNSKEY × clock values around the window (incl. u32 wrap) × validate/advance/re-validate histories on one validator, against a stateless reference validator",
            "A scripted upstream serves harness-encoded, ring-signed responses to the real DnssecDnsHandle (trust anchor = zone key) under the virtual clock (wall and monotonic in lock step). Soundness: Secure ⇒ the reference (RFC 4035 §5.3.1-3, RFC 1982) says Secure at that instant, at every step of a history incl. cache hits; completeness for the genuine response inside the window; Secure TTL ≤ min(original TTL, expiration − now). Every answer-section bit and every clock within 3 s of the window edges / ±2^31 points are swept for fixed scenarios.",
            "Trusts refm/val_ref.rs and ring. Three known findings (cached verdict outlives the signature window; cached TTL exceeds remaining lifetime; panic on RRSIG-covering-DNSKEY without a DNSKEY RR) are excluded by signature.",
            "DESIGN.md §7 C06"),
    "C07": ("fault_enumeration",
            "fault enumeration + property-based testing (proptest): for generated signed hierarchies every single tampering (position × operator) of every upstream response is enumerated, double faults sampled; oracle = validity predicate over the outcome against the genuine zone data and an own chain-status model",
            "Generated hierarchies root → t. → l.t. (signed NSEC/NSEC3 or not, 1-3 keys, key-tag collisions, DS covering a subset of keys, unsigned islands) are served by hickory's own authoritative code through a scripted upstream to the real DnssecDnsHandle under the virtual clock. For every scenario every (response of the fault-free trace, section, record, operator ∈ 17 tampering operators) is applied; double faults (uniform, constructive, forged chain link, follow-up) are sampled. Secure ⇒ genuine zone data; a record of a model-Secure zone is never Insecure; under faults on a Secure chain the outcome is error/Bogus or the genuine outcome; fault-free completeness; through a real Catalog: AD ⇒ Secure genuine answer, Bogus ∧ CD=0 ⇒ SERVFAIL.",
            "Honest data comes from hickory's own signer (TBS correctness is C05's). Ed25519 only; small hierarchies. Seven known findings (one signature per root cause in the validator) are excluded; any other deviation is a VIOLATION.",
            "DESIGN.md §7 C07"),
    "C08": ("exploration",
            "small-scope enumeration + property-based testing (proptest): zones × queries × claims × every subset of the genuine NSEC chain into the validator's decision procedure; soundness judged by a semantic truth model of the zone, completeness against the proofs hickory's own server attaches (direct and end-to-end)",
            "Every depth-2 zone over a small universe (quick ≤3 owners, thorough ≤4, larger sliced; depth 3 sampled) with ENTs, wildcards, delegations and DS is rendered into the harness's zone model, which yields the truth about every query and the genuine RFC 4035 NSEC chain. For every (zone, query, claim ∈ NXDOMAIN/NODATA/wildcard answer, SOA present/absent) and every non-empty subset of the chain, verify_nsec == Secure ⇒ the claim is true in the zone. Completeness: hickory's own signed InMemoryZoneHandler behind Catalog must attach NSECs that verify_nsec (and, sampled, the real DnssecDnsHandle) accepts; hickory's chain must equal the reference chain. Three forged end-to-end sub-properties hand the real DnssecDnsHandle (a) the NSEC of a wildcard owner renamed to a name below it, (b) the server's honest wildcard-expanded answer, direct or behind an in-zone CNAME, with every NSEC removed, and (c) the genuine RRset + RRSIG of a wildcard re-owned to a name below it whose true answer is negative, beside the honest expansion of a closer wildcard and with the whole NSEC chain attached: none may validate.",
            "Trusts refm/zonemodel.rs (truth predicate from RFC 1034 §4.3.2 / RFC 4592, not a re-reading of RFC 4035 §5.4). Thirteen known findings (ten in the NSEC validator/server, three authoritative-lookup ones shared with C10) are classified separately from the oracle and excluded by signature.",
            "DESIGN.md §7 C08"),
    "C09": ("exploration",
            "small-scope enumeration + property-based testing (proptest): zones × salts/iterations/opt-out × queries × claims × every subset/mixture of NSEC3 records into the validator's decision procedure; semantic truth model, iteration-limit and foreign-record clauses, completeness against hickory's own server",
            "As C08 with NSEC3 rings built from RFC 5155 §7.1 (own SHA-1 hashing checked against RFC 5155 Appendix A at start): salts {∅,1,8 octets}, iterations {0,1,5,=soft,>soft,>hard}, opt-out on/off. verify_nsec3 == Secure ⇒ claim true in the zone; iterations > soft ⇒ never Secure, > hard ⇒ Bogus; records of another zone or parameter set mixed in ⇒ never Secure on their strength; hickory's ring equals the reference ring; the server's own proofs are accepted directly and end-to-end.",
            "Trusts refm/zonemodel.rs. Thirteen known findings (ten in the NSEC3 validator/server, three shared with C10) excluded by signature; a foreign-record case counts only when the genuine records alone are not accepted.",
            "DESIGN.md §7 C09"),
    "C10": ("exploration",
            "property-based testing (proptest) + exhaustive RFC 4592 example sweep: generated zones × queries through the real Catalog, differential against an independent RFC 1034 §4.3.2 / RFC 4592 reference model",
            "Generated zones over a small universe (hosts, ENTs, wildcards at several depths, CNAME chains/loops, delegations with/without glue and DS, occluded data; unsigned / NSEC / NSEC3±opt-out) are rendered into hickory's InMemoryZoneHandler and, independently, into the harness's reference model; every query name in and around the zone × 9 qtypes × DO goes in as bytes through Request::from_bytes → Catalog::handle_request → ResponseHandle and the response is read by the harness's own wire reader. Compared: rcode, AA, answer set incl. in-zone CNAME chain and synthesised owners, no data from below a cut, referral shape, SOA on negatives, NXDOMAIN vs NODATA (ENT), RRSIG/denial presence with DO, no NSEC/NSEC3 beside a plain positive answer, and for NODATA from an NSEC3 zone the NSEC3 RR whose owner hash (recomputed from the record's parameters) matches the query name.",
            "Trusts refm/auth_ref.rs (self-checked against the outcomes RFC 4592 §2.2.1 lists). Ten known findings (three are the RFC 4592 gaps upstream #[ignore]s) are excluded by signature; every query is judged and any deviation outside those signatures is a VIOLATION. Additional-section contents, record order and TTLs of synthesised records are not asserted.",
            "DESIGN.md §7 C10"),
    "C11": ("exploration",
            "property-based testing (proptest): generated catalogs × ACLs × request byte strings (valid, mutated, hostile, random) through the real front door; oracle = decision table from the statement (response count, ID/question echo, rcode ∈ allowed set, longest-suffix zone marker, probe query after every hostile request); thorough tier adds a coverage-guided libFuzzer campaign (fz_frontdoor) whose target applies the same oracle to the request octets",
            "Catalogs with nested/sibling/root zones and chained handlers, allow/deny sets with nested v4/v6 prefixes, UDP/TCP; requests drawn from valid queries, every opcode, EDNS versions, QR=1, runts, QDCOUNT 0/2, garbage, byte mutations and random bytes go through VerifFrontDoor::handle. Responses sent must be 0 for runts/responses and exactly 1 otherwise with QR=1, the request's ID and (when it parsed) question; rcode within the set of codes whose condition holds; TXT marker = longest-suffix origin; no panic; a fixed probe still answered afterwards. OPT/TSIG outside the additional section and class-IN A/AAAA records with an impossible RDLENGTH (non-UPDATE) count as malformed bodies. The server's TCP read-loop wrapper (TimeoutStream) is driven on a paused clock with a consumer that is busy between reads: a request that has arrived is delivered however long the previous one took.",
            "Trusts refm/frontdoor_ref.rs (ACL model from the access.rs rustdoc). Where the statement fixes no precedence between gates the oracle accepts the set.",
            "DESIGN.md §7 C11"),
    "C12": ("exploration",
            "model-based property testing (proptest): histories of UPDATE messages applied through the real path and in lock step to an RFC 2136 reference interpreter; invariants over the zone after every message",
            "Histories of 1..6 UPDATE messages whose prerequisite and update RRs cover every row of RFC 2136 tables 3.2.4 / 3.4.2.6 over a small universe (out-of-zone names, apex SOA/NS, serials near 2^31 and 2^32−1) go as TSIG-signed bytes through Request::from_bytes → ZoneHandler::update (journal attached), and in a high-volume mode through verify_prerequisites / pre_scan / update_records. After every message: accepted ⇔ model accepts; rejected ⇒ zone unchanged; accepted ⇒ content equals the model's; one SOA, ≥1 apex NS, no CNAME beside other data, name existence agrees; serial advanced (RFC 1982) ⇔ content changed.",
            "Trusts refm/update_ref.rs (where RFC text and pseudocode disagree every allowed outcome is accepted, recorded as branch:* classes). Nine known findings (one per root cause) are attributed by re-running the model with exactly that deviating rule and excluded by signature; the history continues behind them.",
            "DESIGN.md §7 C12"),
    "C13": ("exploration",
            "property-based testing (proptest) + exhaustive sweeps (every bit of 12 base requests, every MAC length): mutated signed requests through the real front door against an independent RFC 8945 MAC/time reference",
            "UPDATE and AXFR requests signed by hickory's client side go through VerifFrontDoor → Catalog → SqliteZoneHandler under the virtual clock: 5 request kinds × 8 key sets × 3 HMAC algorithms × clock positions around the fudge window × 12 mutation families (bit flips, byte sets, count edits, TSIG field re-encodings, MAC truncation to every length, TSIG removed/duplicated/not last). Soundness: zone changed or zone data in the reply ⇒ the harness's own RFC 8945 digest over the received octets verifies at full length with a configured key and |now−time| ≤ fudge. Completeness: the unmodified request takes effect, its reply verifies with the client verifier, and every single-bit flip of the reply is rejected. A further sub-property builds the handler the way the server binary does (SqliteZoneHandler::try_from_config: zone file, TSIG key files, journal), half of the cases after a restart that recovers the zone from the journal, and judges with the same oracle. Client side: signed requests leave through the real DnsMultiplexer::with_signer and through the real UdpClientStream::with_signer (simulated runtime, reply = sequence of 1-3 datagrams); the server's reply comes back unmodified or edited (bit flip, byte set, TSIG removed, re-signed with another secret / request MAC, trailing octets): whatever the caller receives as Ok must carry the RFC 8945 5.3 response MAC, and the unmodified reply must arrive. An enumerated sub-property sends AXFR and IXFR questions (unsigned, validly signed, wrongly keyed, stale) to the in-memory and the sqlite handler under every transfer policy through the catalog: a transfer only where the policy admits it.",
            "Trusts refm/tsig_ref.rs and ring's HMAC. Header ID, TSIG class/TTL, key-name case and octets after the last counted record are not covered by the MAC by design and modelled as such. The four findings of the first runs are repaired in /repo; none is open.",
            "DESIGN.md §7 C13"),
    "C14": ("fault_enumeration",
            "crash-point enumeration: for generated update histories on an on-disk journal every durable journal state (row count after each SQLite commit, observed through update/commit hooks) is a stop point (exhaustive per history); recovery compared with whole-message boundary states; second-level stops sampled",
            "C12 histories run on a SqliteZoneHandler with a journal file; SQLite update/commit hooks on the journal's connection record, for every commit, the row count it makes durable and the serial visible in memory at that moment. For every such row count k the journal is copied, cut to k rows and the zone restarted on it through SqliteZoneHandler::try_from_config (the server binary's path): recovery must succeed, the recovered zone must equal a whole-message boundary state not older than the last acknowledged message, its serial must not be below any serial visible before the stop, and the remaining history must continue identically. Stops inside the initial dump are their own class; a second stop during the continuation is enumerated for a sample. Some histories hold one UPDATE of 501-900 records, some a message ending with an RR the prescan lets through although it carries RDATA in class ANY.",
            "A stop tears between SQLite commits, which are observed, not assumed (atomicity of one commit is trusted). Boundary states are snapshots of the running server (C12 decides separately that they are the RFC states). Findings (no transaction around the dump / around a message's rows: both repaired in /repo; empty journal accepted; SOA row in its own commit: known) are attributed by stop position; failures at boundaries stay VIOLATIONs.",
            "DESIGN.md §7 C14"),
    "C15": ("exploration",
            "property-based testing (proptest): insert/get/clear histories with explicit instants under the virtual clock against a pure TTL-cache reference model",
            "Histories of ≤30 (thorough 40) operations over 3 queries with nanosecond times (steps of 0 / sub-second / seconds / jumps to the model's expiry ±{0,1 ns,0.5 s,1 s}) × TtlConfig built through its serde form (default / per-type, min>ttl, max<ttl, min=max, 0). Every hit must be the most recent cacheable insert, within its lifetime L, with every TTL = per-type clamped − ⌊elapsed⌋ floored at 0 and non-increasing; transient errors never come back. The hit ratio on certainly-live entries is measured (100 % in quick) so the check cannot go vacuous. clear/clear_query and the alias path (CNAME chain and target in one upstream response, preserve_intermediates on/off) are exercised through CachingClient::lookup over a scripted upstream: the entry must not be served after the smallest TTL of the chain. recursor_expiry carries the clauses to the recursor (which shares the cache): a query is resolved twice on an honest simulated internet with a pause of 0 s..3 h in virtual time; what the second resolution returns without any upstream datagram must have counted down by the pause, nothing after its TTL (3600 s), no negative answer after its negative TTL (300 s). The TtlConfig is deserialised as a whole or assembled by builder calls (per-type bounds set once, or set and then overridden).",
            "Trusts refm/cache_ref.rs. L is read over the stored (per-type clamped) TTLs, as the statement's second clause words it; the reading over upstream TTLs is computed and counted only. None is always acceptable (eviction).",
            "DESIGN.md §7 C15"),
    "C16": ("exploration",
            "schedule enumeration + property-based testing (proptest) on a simulated runtime: every arrival order of ≤4 forged/genuine datagrams enumerated, longer schedules and multiplexer op histories sampled; oracle = validity predicate on which datagram may complete a query + ID-routing model",
            "The real UdpClientStream runs on the harness's discrete-event runtime; every datagram is built from the bytes hickory actually sent. All sequences of ≤4 datagrams over 9 forged/genuine kinds (sampled schedules use 15, among them the asked question repeated in another letter case) × 0x20 on/off are enumerated; longer schedules (≤3 transmissions, ≤10 datagrams each) are sampled. Ok ⇒ byte-identical to a delivered datagram from the queried addr:port with the wire ID and asked questions (case-exact under 0x20), among the first three read on its socket; otherwise error/timeout. The real DnsMultiplexer is polled by hand over a scripted stream: in-flight IDs pairwise distinct, responses routed by ID only, unknown IDs dropped, close/error fails every pending request, timeouts reported.",
            "The harness owns the schedule (delivery orders, not thread interleavings). Malformed datagrams from the right source may be skipped or end the query in an error (statement is silent).",
            "DESIGN.md §7 C16"),
    "C17": ("exploration",
            "property-based testing (proptest) + exhaustive small-scope enumeration of chunk compositions against a framing reference model",
            "The real TcpStream is polled by hand over a scripted socket: generated read chunkings with would-block steps, close positions and write-acceptance scripts; for every short stream (framed length ≤10 quick / ≤13 thorough) ALL compositions into read chunks × ALL close positions and ALL compositions into write acceptances are enumerated. Oracle: yielded items = the complete messages before the close, then clean end / error / idle; octets accepted by the socket = len_be16‖body concatenation, all of them flushed once the stream is idle. The server-side TimeoutStream wrapper passes items unchanged and turns only a silence of the peer longer than the timeout into an error (busy consumer included).",
            "Trusts the scripted socket model (wakes immediately after would-block; silent peer = Pending without wake). Zero-length frames and Ok(0) writes are outside the stated domain.",
            "DESIGN.md §7 C17"),
    "C18": ("exploration",
            "property-based testing (proptest) over fault assignments on a simulated network in virtual time; oracle = validity of the returned answer, liveness where ordering cannot matter, exact virtual-time deadline, exchange-count comparison for de-duplication",
            "The real NameServerPool::from_config runs on the discrete-event runtime against 1..4 scripted servers (answer, trusted/untrusted NXDOMAIN, TC-on-UDP with full/refused/reset/hanging TCP, silent, io errors, resets, Busy×n) × ordering strategy × num_concurrent_reqs × protocols × 1..5 callers. Ok ⇒ an answer some server's behaviour can produce, never a truncated UDP body; fast-failing faults + ≥1 healthy server ⇒ Ok; completion time ≤ timeout in virtual time; k identical concurrent callers cause the same exchanges as one and get equal results; a later lookup causes a new exchange; a caller that gives up in flight (a joiner, or the only caller) leaves nothing behind that changes later identical lookups.",
            "Liveness is asserted only where the pool's server ordering cannot matter. Two known findings (deadline overrun by the attempt in flight; 'receiver was canceled' treated as fatal) are excluded by signature and reported as KNOWN-FINDING; a larger overrun stays a VIOLATION.",
            "DESIGN.md §7 C18"),
    "C19": ("exploration",
            "property-based testing (proptest) on a simulated internet in virtual time: generated delegation graphs with hostile servers, differential against an own authoritative-server model; oracle = truth set of returnable records, provenance of contacted addresses, structural query bound",
            "The real Recursor runs on the discrete-event runtime (deterministic OS randomness per case) against generated internets (root + ≤3 levels, in/out-of-zone NS names, glue or not, lame/dead servers, self-referential and mutually glueless delegations, NS and CNAME loops) whose hostile servers append out-of-bailiwick records with a poison marker in any section. Returned records ⊆ model truth set; no poison in answers, follow-ups or negative-answer authorities; every contacted address was learnt from an in-bailiwick source and passes the server filter; no returned address in a denied net; datagrams per resolve ≤ a structural bound; alias hops ≤ recursion limit; CachingClient ≤ 9 upstream queries on any alias graph.",
            "Trusts refm/authsim.rs. The query bound detects explosive recursion, not off-by-one. Two known findings (out-of-zone record in negative-answer authority; NS address taken from an unrelated answer record) are excluded by signature.",
            "DESIGN.md §7 C19"),
    "C20": ("exploration",
            "property-based testing (proptest): record sets rendered by an independent RFC 1035 §5 master-file printer with per-line random layout, parsed by hickory and compared with the denoted records; mutated/garbage texts for robustness under a CPU-time watchdog; thorough tier adds a coverage-guided libFuzzer campaign (fz_zonefile) on the robustness clause",
            "Record sets of 22 parser-supported types are printed with randomised layout (absolute/relative/@/inherited owners, TTL explicit/$TTL/previous, class present/absent, $ORIGIN switches, comments, blank lines, parenthesised continuation, quoted/unquoted strings, escaped dots/quotes/backslashes, tabs, CRLF, missing final newline, long runs) and must load to exactly the denoted (owner, class, type, TTL, RDATA) set; names padded to exactly 255 octets are included. include_layout moves runs of lines into $INCLUDEd files (one level or nested, relative/absolute path, $ORIGIN switches inside, with/without final newline) written to a scratch directory and demands the same record set (RFC 1035 5.1: the parent's origin is unaffected); a self-including file must be refused. Garbage (mutated renderings, token soup, unbalanced quotes/parens, huge numbers, $INCLUDE, random bytes) must give Ok or Err, never a panic or a spin.",
            "Trusts refm/zonefile_printer.rs. A failing case is attributed to a layout feature only if the clean rendering loads correctly and the feature alone still breaks it; the known findings are excluded by such signatures, everything else is a VIOLATION.",
            "DESIGN.md §7 C20"),
}

NOT_YET = {}

def main():
    props = [json.loads(l) for l in open("/verif/properties.jsonl")]
    checks, na = [], []
    for p in props:
        pid = p["id"]
        if pid in CLAIMED:
            cat, tech, text, note, ref = CLAIMED[pid]
            checks.append({
                "property_id": pid,
                "quick_cmd": f"./check {pid} --tier quick",
                "thorough_cmd": f"./check {pid} --tier thorough",
                "evidence_file": f"/verif/evidence/{pid}.json",
                "replay_cmd_template": f"./check {pid} --replay {{path}}",
                "engine": "vcheck",
                "level_claimed": {"category": cat, "text": text, "design_ref": ref},
                "level_note": note,
                "technique": tech,
            })
        else:
            na.append({"property_id": pid,
                       "reason": NOT_YET.get(pid, "check not built yet in this revision of /verif (planned per DESIGN.md §7; the technique applies)")})
    m = {
        "version": 1,
        "setup_cmd": "cd /verif/harness && CARGO_NET_OFFLINE=true cargo build --release --offline",
        "hooks": {
            "guard": "cargo feature `verif-hooks` on hickory-proto, hickory-net and hickory-server (default off)",
            "enable": "the harness depends on /repo/crates/* by path with features = [\"verif-hooks\", …]; every ./check run rebuilds them from /repo's working tree",
            "baseline_off_cmd": "/verif/tools/baseline_off.sh",
            "source_commits": [l.split()[0] for l in HOOK_COMMITS],
            "add_only": True,
        },
        "engines": [
            {"name": "vcheck", "path": "/verif/harness", "serves_properties": sorted(CLAIMED),
             "kind_free_text": "Rust binary: sharded proptest runner + small-scope enumerator + reference models + simulated runtime; one subcommand per property"},
        ],
        "checks": checks,
        "not_applicable": na,
        "notes": "All checks: VERIF_SEED selects the PRNG stream; exit 0 held / 1 VIOLATION / 2 inconclusive. Known findings: /verif/known_findings.json.",
    }
    json.dump(m, open("/verif/MANIFEST.json", "w"), indent=1)
    print("claimed:", len(checks), "not claimed:", len(na))

main()
