#!/usr/bin/env python3
"""update_design.py — regenerate the generated parts of DESIGN.md (§12.6 tables, §12.8 table) in place.
Generated text sits between <!-- GEN:name --> and <!-- /GEN:name --> markers."""
import re, subprocess
p = '/verif/DESIGN.md'
s = open(p).read()
def gen(cmd):
    return subprocess.run(cmd, capture_output=True, text=True, check=True).stdout.strip()
parts = {
    'findings': gen(['python3', '/verif/tools/gen_findings_md.py']),
    'seeds': gen(['python3', '/verif/tools/finalize_seeds.py']),
}
for name, body in parts.items():
    pat = re.compile(r'(<!-- GEN:%s -->\n).*?(\n<!-- /GEN:%s -->)' % (name, name), re.S)
    assert pat.search(s), name
    s = pat.sub(lambda m: m.group(1) + body + m.group(2), s)
open(p, 'w').write(s)
print("DESIGN.md regenerated parts:", ", ".join(parts))
