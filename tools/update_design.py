#!/usr/bin/env python3
"""update_design.py — regenerate the generated parts of DESIGN.md (§12.6 tables, §12.8 table) in place.
Generated text sits between <!-- GEN:name --> and <!-- /GEN:name --> markers."""
import re, subprocess
p = '/verif/DESIGN.md'
s = open(p).read()
def gen(cmd):
    return subprocess.run(cmd, capture_output=True, text=True, check=True).stdout.strip()
def sizes():
    import json, glob
    rows = ["| prop | sub-properties (evaluations each) | quick evaluations | distinct non-trivial | wall (this run) |", "|---|---|---|---|---|"]
    for f in sorted(glob.glob('/verif/evidence/C*.json')):
        e = json.load(open(f))
        c = e['coverage']
        subs = ", ".join("%s (%s%s)" % (x['sub'], f"{x['evaluations']:,}".replace(',', ' '), ", exhaustive" if x.get('exhaustive') else "") for x in c.get('per_sub', []))
        rows.append("| %s | %s | %s | %s | %.0f s |" % (e['property_id'], subs, f"{c['evaluations']:,}".replace(',', ' '), f"{c['distinct_nontrivial']:,}".replace(',', ' '), e.get('wall_s', 0)))
    return "\n".join(rows)

parts = {
    'sizes': sizes(),
    'findings': gen(['python3', '/verif/tools/gen_findings_md.py']),
    'seeds': gen(['python3', '/verif/tools/finalize_seeds.py']),
}
for name, body in parts.items():
    pat = re.compile(r'(<!-- GEN:%s -->\n).*?(\n<!-- /GEN:%s -->)' % (name, name), re.S)
    assert pat.search(s), name
    s = pat.sub(lambda m: m.group(1) + body + m.group(2), s)
open(p, 'w').write(s)
print("DESIGN.md regenerated parts:", ", ".join(parts))
