#!/bin/bash
# featsuite.sh <repo-dir> <out-file>: run the workspace tests with the feature set the harness uses
cd "$1" || exit 2
export CARGO_NET_OFFLINE=true
cargo nextest run -p hickory-proto -p hickory-net -p hickory-resolver -p hickory-server --no-fail-fast --test-threads 8 --offline \
  --features hickory-proto/dnssec-ring,hickory-proto/serde,hickory-proto/access-control,hickory-net/dnssec-ring,hickory-resolver/dnssec-ring,hickory-resolver/recursor,hickory-server/dnssec-ring,hickory-server/sqlite,hickory-server/recursor,hickory-server/resolver \
  > "$2.log" 2>&1
grep -E "^\s+(FAIL|SIGABRT|SIGSEGV|TIMEOUT) \[" "$2.log" | sed -E 's/^\s+[A-Z]+ \[[^]]*\] \(\s*[0-9]+\/[0-9]+\) //' | sort -u > "$2"
grep -E "Summary" "$2.log" | tail -1
cargo nextest run -p hickory-integration --no-fail-fast --offline --features dnssec-ring,sqlite > "$2.integ.log" 2>&1
grep -E "^\s+(FAIL|SIGABRT|SIGSEGV|TIMEOUT) \[" "$2.integ.log" | sed -E 's/^\s+[A-Z]+ \[[^]]*\] \(\s*[0-9]+\/[0-9]+\) //' | sort -u >> "$2"
grep -E "Summary" "$2.integ.log" | tail -1
