#!/bin/bash
# Runs the repository's own test suite with the verif-hooks feature OFF (the default) and
# compares the outcome with the stable baseline in /root/.vp/BASELINE.json.
# exit 0 iff every stable-pass test of the baseline passed.
set -u
export CARGO_NET_OFFLINE=true
OUT="$(mktemp -d)"
cd /repo || exit 2
if command -v cargo-nextest >/dev/null 2>&1; then
    cargo nextest run --workspace --no-fail-fast --test-threads 8 --offline >"$OUT/log" 2>&1
else
    cargo test --workspace --no-fail-fast --offline >"$OUT/log" 2>&1
fi
python3 - "$OUT/log" <<'PY'
import json, re, sys
log = open(sys.argv[1], errors="replace").read()
base = json.load(open("/root/.vp/BASELINE.json"))
stable = set(base["stable_pass"])
passed, failed = set(), set()
for m in re.finditer(r"^\s*(PASS|FAIL|SIGSEGV|SIGABRT|TIMEOUT|LEAK)\s+\[[^\]]*\]\s+(?:\(\s*\d+/\d+\)\s+)?(\S+)\s+(\S+)\s*$", log, re.M):
    st, binid, test = m.groups()
    name = f"{binid}::{test}"
    (passed if st in ("PASS", "LEAK") else failed).add(name)
if not passed and not failed:
    # cargo test fallback: "test path::name ... ok"
    for m in re.finditer(r"^test (\S+) \.\.\. (ok|FAILED)", log, re.M):
        (passed if m.group(2) == "ok" else failed).add(m.group(1))
    missing = [s for s in stable if not any(s.endswith(p) for p in passed)]
else:
    missing = sorted(s for s in stable if s not in passed)
print(f"baseline stable={len(stable)} passed_now={len(passed)} failed_now={len(failed)} stable_not_passing={len(missing)}")
for m in missing[:40]:
    print("  NOT PASSING:", m)
sys.exit(1 if missing else 0)
PY
rc=$?
rm -rf "$OUT"
exit $rc
