#!/usr/bin/env python3
"""gen_findings_md.py — markdown for DESIGN.md §12.6 from known_findings.json and /repo's fix commits."""
import json, subprocess, collections
k = json.load(open('/verif/known_findings.json'))['findings']
log = subprocess.run(['git', '-C', '/repo', 'log', '--reverse', '--format=%h %s', '0f3cca1..HEAD'], capture_output=True, text=True).stdout.splitlines()
fixes = [(l.split()[0], l.split(' ', 1)[1]) for l in log if l.split(' ', 1)[1].startswith('fix:')]
by_commit = collections.defaultdict(list)
for e in k:
    if e['status'] == 'fixed':
        by_commit[e.get('commit', '')[:7]].append(e)
print("**Fixed (%d `fix:` commits in /repo, oldest first)**\n" % len(fixes))
print("| commit | property: signature(s) | what the commit repairs |")
print("|---|---|---|")
for h, subj in fixes:
    es = by_commit.get(h[:7], [])
    partial = {'1641145': "C10: `cname-chase-puts-delegation-ns-into-answer` (the part for QTYPEs other than NS/ANY; the signature stays known for the rest)"}
    sigs = "; ".join("%s: `%s`" % (e['property'], e['signature']) for e in es) or partial.get(h[:7], "(no signature)")
    print("| %s | %s | %s |" % (h, sigs, subj[5:].strip()))
orphans = [e for e in k if e['status'] == 'fixed' and e.get('commit', '')[:7] not in {h[:7] for h, _ in fixes}]
for e in orphans:
    print("| %s (?) | %s: `%s` | |" % (e.get('commit'), e['property'], e['signature']))
print("\n**Known, not repaired (%d signatures)**\n" % sum(1 for e in k if e['status'] == 'known'))
byp = collections.defaultdict(list)
for e in k:
    if e['status'] == 'known':
        byp[e['property']].append(e)
for p in sorted(byp):
    print("* **%s**" % p)
    for e in byp[p]:
        w = e['what'].replace('\n', ' ')
        print("  * `%s` — %s" % (e['signature'], w[:260] + ('…' if len(w) > 260 else '')))
