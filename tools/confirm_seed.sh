#!/bin/bash
# confirm_seed.sh <seed-name> <patch.diff> <demo-file> <demo-dest-relative-to-repo> "<demo command>" [--full]
# Confirms a seeded change in a scratch worktree of /repo (never /repo itself):
#   demo passes without the patch, patch applies and compiles, demo fails with the patch,
#   and (with --full) the repository's own test suite has no new failure with the patch.
# Prints a JSON summary line starting with SEED-RESULT.
set -u
NAME="$1"; PATCH="$2"; DEMO="$3"; DEST="$4"; CMD="$5"; FULL="${6:-}"
S=${SEEDWT:-/root/work/seedwt}   # one scratch worktree per lane when several confirmations run side by side
export CARGO_NET_OFFLINE=true CARGO_TARGET_DIR=$S/target
if [ ! -d $S/repo ]; then mkdir -p $S; git -C /repo worktree add --detach $S/repo HEAD >/dev/null 2>&1 || exit 2; fi
cd $S/repo || exit 2
git checkout -q --detach "$(git -C /repo rev-parse HEAD)"; git checkout -q -- .; git clean -fdq -e target
mkdir -p "$(dirname "$DEST")"; cp "$DEMO" "$DEST"
bash -c "$CMD" >$S/demo_clean.log 2>&1; rc_clean=$?
if ! git apply --check "$PATCH" 2>$S/apply.log; then
    # try with reduced context (the tree has moved by fix: commits since the patch was written)
    if ! git apply -C1 --check "$PATCH" 2>>$S/apply.log; then echo "SEED-RESULT {\"seed\":\"$NAME\",\"applies\":false}"; cat $S/apply.log; rm -f "$DEST"; exit 1; fi
    git apply -C1 "$PATCH"
else
    git apply "$PATCH"
fi
bash -c "$CMD" >$S/demo_patched.log 2>&1; rc_patched=$?
new_fail=-1
if [ "$FULL" = "--full" ]; then
    rm -f "$DEST"
    cargo nextest run --workspace --no-fail-fast --test-threads 8 --offline >$S/suite.log 2>&1
    new_fail=$(python3 - $S/suite.log <<'PY'
import json,re,sys
log=open(sys.argv[1],errors='replace').read()
base=json.load(open('/root/.vp/BASELINE.json'))
stable=set(base['stable_pass'])
passed=set()
for m in re.finditer(r"^\s*(PASS|LEAK)\s+\[[^\]]*\]\s+(?:\(\s*\d+/\d+\)\s+)?(\S+)\s+(\S+)\s*$",log,re.M):
    passed.add(f"{m.group(2)}::{m.group(3)}")
missing=sorted(s for s in stable if s not in passed)
print(len(missing))
for m in missing[:10]: print("  suite-regression:",m,file=sys.stderr)
PY
)
    # the same with the feature set the harness uses (dnssec, sqlite, recursor): failing tests must be
    # within the known network-dependent set
    if [ "${SKIP_FEATSUITE:-0}" != "1" ]; then
    /verif/tools/featsuite.sh $S/repo $S/feat.txt >/dev/null 2>&1
    feat_new=$(sort -u $S/feat.txt | comm -23 - /verif/tools/featsuite-expected-failures.txt | wc -l)
    sort -u $S/feat.txt | comm -23 - /verif/tools/featsuite-expected-failures.txt | head -5 | sed 's/^/  feature-suite-regression: /' >&2
    new_fail=$((new_fail + feat_new))
    fi
fi
git checkout -q -- .; git clean -fdq -e target
echo "SEED-RESULT {\"seed\":\"$NAME\",\"applies\":true,\"demo_rc_without_patch\":$rc_clean,\"demo_rc_with_patch\":$rc_patched,\"suite_stable_tests_not_passing_with_patch\":$new_fail}"
