#!/usr/bin/env python3
"""mkpatch.py OUT.diff FILE OLD NEW [FILE OLD NEW ...] — build a patch against /repo HEAD in the
scratch worktree /root/work/mut/repo (never touches /repo's working tree)."""
import subprocess, sys
M = "/root/work/mut/repo"
subprocess.run(["bash", "-c", f"[ -d {M} ] || git -C /repo worktree add --detach {M} HEAD"], check=True, capture_output=True)
subprocess.run(["git", "-C", M, "checkout", "-q", "--detach", subprocess.run(["git","-C","/repo","rev-parse","HEAD"],capture_output=True,text=True).stdout.strip()], check=True)
subprocess.run(["git", "-C", M, "checkout", "-q", "--", "."], check=True)
out = sys.argv[1]
args = sys.argv[2:]
for i in range(0, len(args), 3):
    f, old, new = args[i:i+3]
    p = f"{M}/{f}"
    s = open(p).read()
    if s.count(old) < 1:
        sys.exit(f"pattern not found in {f}: {old!r}")
    s = s.replace(old, new, 1)
    open(p, "w").write(s)
d = subprocess.run(["git", "-C", M, "diff"], capture_output=True, text=True).stdout
open(out, "w").write(d)
subprocess.run(["git", "-C", M, "checkout", "-q", "--", "."], check=True)
print(f"{out}: {len(d.splitlines())} lines")
