//! C17 — Stream framing is independent of how the bytes are chunked.
//!
//! `TcpStream::from_stream` over a scripted `DnsTcpStream`, polled by hand with a counting
//! waker (no runtime): inbound bytes arrive in generated chunks with would-block steps and an
//! optional close position; outbound writes are accepted in generated sizes (vectored or not).
//! Oracle `framing_ref`: the items yielded are exactly the complete messages before the close
//! position, then a clean end / an error / nothing; the octets accepted by the socket are the
//! concatenation of `len_be16 ‖ body` of the sent messages.

use std::future::Future;
use std::io;
use std::net::SocketAddr;
use std::pin::Pin;
use std::sync::atomic::{AtomicU64, Ordering};
use std::sync::{Arc, Mutex};
use std::task::{Context, Poll, Wake, Waker};

use futures_util::io::{AsyncRead, AsyncWrite, IoSlice};
use futures_util::stream::Stream;
use hickory_net::runtime::DnsTcpStream;
use hickory_net::tcp::TcpStream;
use hickory_net::xfer::DnsStreamHandle;
use hickory_proto::op::SerialMessage;
use proptest::collection::vec;
use proptest::prelude::*;
use serde::{Deserialize, Serialize};

use crate::core::{enumerate, CaseResult, Check, Env, Rec};
use crate::sim::SimTime;

#[derive(Clone, Debug, Serialize, Deserialize, PartialEq, Eq)]
enum Close {
    /// the peer never closes: after the last message reads would block forever
    Never,
    /// EOF exactly after `k` complete messages
    AfterMsg(usize),
    /// EOF after `k` complete messages plus `n` octets (n ≥ 1, strictly inside the frame)
    Inside(usize, usize),
    /// connection reset (io error) after k complete messages plus n octets (n ≥ 0)
    Reset(usize, usize),
}

#[derive(Clone, Debug, Serialize, Deserialize)]
struct Case {
    /// lengths and fill seeds of the inbound messages (bodies are derived, see `body`)
    inbound: Vec<(u16, u8)>,
    /// per poll_read call: 0 = would block (wakes immediately), n = deliver at most n octets; cyclic
    read_chunks: Vec<u16>,
    close: Close,
    outbound: Vec<(u16, u8)>,
    /// per poll_write(_vectored) call: 0 = would block, n = accept at most n octets; cyclic
    write_accepts: Vec<u16>,
    /// the socket implements poll_write_vectored natively (accepting across both slices)
    vectored: bool,
    /// outbound message i is handed to the sender before poll number send_at[i] (sorted)
    send_at: Vec<u8>,
    /// the socket is a tokio-style stream (tokio::io traits, no native vectored write) reached
    /// through hickory's `iocompat::AsyncIoTokioAsStd` adapter, as every tokio transport is
    #[serde(default)]
    via_tokio: bool,
}

fn body(len: u16, seed: u8) -> Vec<u8> {
    // recognisable, position-dependent content so that merged / shifted / duplicated octets show
    (0..len as usize)
        .map(|i| (seed as usize).wrapping_mul(31).wrapping_add(i.wrapping_mul(7)).wrapping_add(i >> 8) as u8)
        .collect()
}

fn frame(len: u16, seed: u8) -> Vec<u8> {
    let mut f = len.to_be_bytes().to_vec();
    f.extend(body(len, seed));
    f
}

struct Sock {
    inbound: Vec<u8>,
    rpos: usize,
    eof: bool,
    reset_at: Option<usize>,
    read_chunks: Vec<u16>,
    ri: usize,
    written: Vec<u8>,
    write_accepts: Vec<u16>,
    wi: usize,
    vectored: bool,
    reads: u64,
    writes: u64,
    min_vectored_accept: Option<usize>,
    flushed_upto: usize,
    /// more octets than all framed outbound messages contain must never be written
    write_limit: usize,
    overflow: bool,
}

#[derive(Clone)]
struct ScriptTcp(Arc<Mutex<Sock>>);

impl DnsTcpStream for ScriptTcp {
    type Time = SimTime;
}

impl AsyncRead for ScriptTcp {
    fn poll_read(self: Pin<&mut Self>, cx: &mut Context<'_>, buf: &mut [u8]) -> Poll<io::Result<usize>> {
        let mut s = self.0.lock().unwrap();
        s.reads += 1;
        if let Some(r) = s.reset_at {
            if s.rpos >= r {
                return Poll::Ready(Err(io::Error::new(io::ErrorKind::ConnectionReset, "scripted reset")));
            }
        }
        if s.rpos >= s.inbound.len() {
            if s.eof {
                return Poll::Ready(Ok(0));
            }
            // peer is silent: block without a wake-up
            return Poll::Pending;
        }
        let n = if s.read_chunks.is_empty() {
            u16::MAX
        } else {
            let i = s.ri % s.read_chunks.len();
            s.ri += 1;
            s.read_chunks[i]
        };
        if n == 0 {
            cx.waker().wake_by_ref();
            return Poll::Pending;
        }
        let mut take = (n as usize).min(buf.len()).min(s.inbound.len() - s.rpos);
        if let Some(r) = s.reset_at {
            take = take.min(r - s.rpos);
        }
        let rpos = s.rpos;
        buf[..take].copy_from_slice(&s.inbound[rpos..rpos + take]);
        s.rpos += take;
        Poll::Ready(Ok(take))
    }
}

impl ScriptTcp {
    fn next_accept(s: &mut Sock) -> u16 {
        if s.write_accepts.is_empty() {
            u16::MAX
        } else {
            let i = s.wi % s.write_accepts.len();
            s.wi += 1;
            s.write_accepts[i]
        }
    }
}

impl AsyncWrite for ScriptTcp {
    fn poll_write(self: Pin<&mut Self>, cx: &mut Context<'_>, buf: &[u8]) -> Poll<io::Result<usize>> {
        let mut s = self.0.lock().unwrap();
        s.writes += 1;
        if buf.is_empty() {
            return Poll::Ready(Ok(0));
        }
        let n = Self::next_accept(&mut s);
        if n == 0 {
            cx.waker().wake_by_ref();
            return Poll::Pending;
        }
        let take = (n as usize).min(buf.len());
        if s.written.len() + take > s.write_limit {
            s.overflow = true;
            return Poll::Ready(Err(io::Error::other("harness: more octets written than the framed messages contain")));
        }
        s.written.extend_from_slice(&buf[..take]);
        Poll::Ready(Ok(take))
    }

    fn poll_write_vectored(self: Pin<&mut Self>, cx: &mut Context<'_>, bufs: &[IoSlice<'_>]) -> Poll<io::Result<usize>> {
        let vectored = self.0.lock().unwrap().vectored;
        if !vectored {
            // what the trait's default does: the first non-empty slice only
            let first = bufs.iter().find(|b| !b.is_empty()).map(|b| &**b).unwrap_or(&[]);
            return self.poll_write(cx, first);
        }
        let mut s = self.0.lock().unwrap();
        s.writes += 1;
        let total: usize = bufs.iter().map(|b| b.len()).sum();
        if total == 0 {
            return Poll::Ready(Ok(0));
        }
        let n = Self::next_accept(&mut s);
        if n == 0 {
            cx.waker().wake_by_ref();
            return Poll::Pending;
        }
        let mut left = (n as usize).min(total);
        let accepted = left;
        if s.written.len() + accepted > s.write_limit {
            s.overflow = true;
            return Poll::Ready(Err(io::Error::other("harness: more octets written than the framed messages contain")));
        }
        for b in bufs {
            let t = left.min(b.len());
            s.written.extend_from_slice(&b[..t]);
            left -= t;
            if left == 0 {
                break;
            }
        }
        s.min_vectored_accept = Some(s.min_vectored_accept.map_or(accepted, |m| m.min(accepted)));
        Poll::Ready(Ok(accepted))
    }

    fn poll_flush(self: Pin<&mut Self>, _cx: &mut Context<'_>) -> Poll<io::Result<()>> {
        let mut s = self.0.lock().unwrap();
        s.flushed_upto = s.written.len();
        Poll::Ready(Ok(()))
    }

    fn poll_close(self: Pin<&mut Self>, _cx: &mut Context<'_>) -> Poll<io::Result<()>> {
        Poll::Ready(Ok(()))
    }
}

/// the scripted socket seen through tokio's I/O traits (defaults for vectored writes)
struct TokioSock(ScriptTcp);

impl tokio::io::AsyncRead for TokioSock {
    fn poll_read(mut self: Pin<&mut Self>, cx: &mut Context<'_>, buf: &mut tokio::io::ReadBuf<'_>) -> Poll<io::Result<()>> {
        let dst = buf.initialize_unfilled();
        match Pin::new(&mut self.0).poll_read(cx, dst) {
            Poll::Ready(Ok(n)) => {
                buf.advance(n);
                Poll::Ready(Ok(()))
            }
            Poll::Ready(Err(e)) => Poll::Ready(Err(e)),
            Poll::Pending => Poll::Pending,
        }
    }
}

impl tokio::io::AsyncWrite for TokioSock {
    fn poll_write(mut self: Pin<&mut Self>, cx: &mut Context<'_>, buf: &[u8]) -> Poll<io::Result<usize>> {
        Pin::new(&mut self.0).poll_write(cx, buf)
    }
    fn poll_flush(mut self: Pin<&mut Self>, cx: &mut Context<'_>) -> Poll<io::Result<()>> {
        Pin::new(&mut self.0).poll_flush(cx)
    }
    fn poll_shutdown(mut self: Pin<&mut Self>, cx: &mut Context<'_>) -> Poll<io::Result<()>> {
        Pin::new(&mut self.0).poll_close(cx)
    }
}

/// hickory's adapter around it, as a `DnsTcpStream`
struct ViaTokio(hickory_net::runtime::iocompat::AsyncIoTokioAsStd<TokioSock>);

impl DnsTcpStream for ViaTokio {
    type Time = SimTime;
}

impl AsyncRead for ViaTokio {
    fn poll_read(mut self: Pin<&mut Self>, cx: &mut Context<'_>, buf: &mut [u8]) -> Poll<io::Result<usize>> {
        Pin::new(&mut self.0).poll_read(cx, buf)
    }
}

impl AsyncWrite for ViaTokio {
    fn poll_write(mut self: Pin<&mut Self>, cx: &mut Context<'_>, buf: &[u8]) -> Poll<io::Result<usize>> {
        Pin::new(&mut self.0).poll_write(cx, buf)
    }
    fn poll_write_vectored(mut self: Pin<&mut Self>, cx: &mut Context<'_>, bufs: &[IoSlice<'_>]) -> Poll<io::Result<usize>> {
        Pin::new(&mut self.0).poll_write_vectored(cx, bufs)
    }
    fn poll_flush(mut self: Pin<&mut Self>, cx: &mut Context<'_>) -> Poll<io::Result<()>> {
        Pin::new(&mut self.0).poll_flush(cx)
    }
    fn poll_close(mut self: Pin<&mut Self>, cx: &mut Context<'_>) -> Poll<io::Result<()>> {
        Pin::new(&mut self.0).poll_close(cx)
    }
}

struct CountWaker(AtomicU64);

impl Wake for CountWaker {
    fn wake(self: Arc<Self>) {
        self.0.fetch_add(1, Ordering::SeqCst);
    }
    fn wake_by_ref(self: &Arc<Self>) {
        self.0.fetch_add(1, Ordering::SeqCst);
    }
}

#[derive(Debug, PartialEq, Eq)]
enum End {
    /// stream still open and idle (Pending, nobody will wake it)
    Idle,
    CleanEnd,
    Error(io::ErrorKind),
}

fn run_case(c: &Case, rec: &mut Rec) -> CaseResult {
    let peer: SocketAddr = "192.0.2.7:53".parse().unwrap();
    // ---- reference --------------------------------------------------------------------------
    let frames: Vec<Vec<u8>> = c.inbound.iter().map(|(l, s)| frame(*l, *s)).collect();
    let full: Vec<u8> = frames.concat();
    let offset_of = |k: usize| -> usize { frames[..k].iter().map(|f| f.len()).sum() };
    let (cut, eof, reset_at, complete, exp_end) = match &c.close {
        Close::Never => (full.len(), false, None, frames.len(), End::Idle),
        Close::AfterMsg(k) => {
            let k = (*k).min(frames.len());
            (offset_of(k), true, None, k, End::CleanEnd)
        }
        Close::Inside(k, n) => {
            if frames.is_empty() {
                (0, true, None, 0, End::CleanEnd)
            } else {
                let k = (*k).min(frames.len() - 1);
                let n = 1 + (*n % (frames[k].len() - 1)); // 1 ..= len-1: strictly inside frame k
                (offset_of(k) + n, true, None, k, End::Error(io::ErrorKind::BrokenPipe))
            }
        }
        Close::Reset(k, n) => {
            if frames.is_empty() {
                (0, false, Some(0), 0, End::Error(io::ErrorKind::ConnectionReset))
            } else {
                let k = (*k).min(frames.len() - 1);
                let n = *n % frames[k].len(); // 0 ..= len-1
                (full.len(), false, Some(offset_of(k) + n), k, End::Error(io::ErrorKind::ConnectionReset))
            }
        }
    };
    let exp_msgs: Vec<Vec<u8>> = c.inbound[..complete].iter().map(|(l, s)| body(*l, *s)).collect();
    let out_frames: Vec<Vec<u8>> = c.outbound.iter().map(|(l, s)| frame(*l, *s)).collect();

    // ---- drive the real stream ----------------------------------------------------------------
    // a script of would-blocks only would never make progress: that is not a chunking of the stream
    let norm = |v: &Vec<u16>| -> Vec<u16> {
        let mut v = v.clone();
        if !v.is_empty() && v.iter().all(|x| *x == 0) {
            v.push(1);
        }
        v
    };
    let read_chunks = norm(&c.read_chunks);
    let write_accepts = norm(&c.write_accepts);
    let sock = Arc::new(Mutex::new(Sock {
        inbound: full[..cut].to_vec(),
        rpos: 0,
        eof,
        reset_at,
        read_chunks: read_chunks.clone(),
        ri: 0,
        written: Vec::new(),
        write_accepts: write_accepts.clone(),
        wi: 0,
        vectored: c.vectored,
        reads: 0,
        writes: 0,
        min_vectored_accept: None,
        flushed_upto: 0,
        write_limit: out_frames.iter().map(|f| f.len()).sum::<usize>(),
        overflow: false,
    }));
    type Framed = Pin<Box<dyn Stream<Item = io::Result<SerialMessage>>>>;
    let (mut stream, mut handle): (Framed, _) = if c.via_tokio {
        rec.class("socket:tokio-traits-through-iocompat-adapter");
        let (s, h) = TcpStream::from_stream(ViaTokio(hickory_net::runtime::iocompat::AsyncIoTokioAsStd(TokioSock(ScriptTcp(sock.clone())))), peer);
        (Box::pin(s), h)
    } else {
        let (s, h) = TcpStream::from_stream(ScriptTcp(sock.clone()), peer);
        (Box::pin(s), h)
    };
    let wk = Arc::new(CountWaker(AtomicU64::new(0)));
    let waker = Waker::from(wk.clone());
    let mut cx = Context::from_waker(&waker);

    let mut got: Vec<Vec<u8>> = Vec::new();
    let end;
    let mut sent = 0usize;
    let mut polls = 0u64;
    let mut send_at: Vec<u8> = c.send_at.clone();
    send_at.resize(c.outbound.len(), 0);
    send_at.sort();
    // every poll either transfers ≥ 1 octet or consumes one would-block script entry
    let max_polls = 1_000
        + 4 * (full.len() as u64 + out_frames.iter().map(|f| f.len() as u64).sum::<u64>() + 8)
            * (read_chunks.len().max(write_accepts.len()) as u64 + 2);
    loop {
        while sent < c.outbound.len() && (send_at[sent] as u64) <= polls {
            let (l, s) = c.outbound[sent];
            if let Err(e) = handle.send(SerialMessage::new(body(l, s), peer)) {
                vfail!("harness", "sender refused message {sent}: {e}");
            }
            sent += 1;
        }
        let before = wk.0.load(Ordering::SeqCst);
        polls += 1;
        if polls > max_polls {
            vfail!("framing-livelock", "stream still making no progress after {max_polls} polls");
        }
        match stream.as_mut().poll_next(&mut cx) {
            Poll::Ready(Some(Ok(m))) => {
                vensure!(m.addr() == peer, "framing-wrong-peer", "message attributed to {}", m.addr());
                got.push(m.into_parts().0);
                if got.len() > exp_msgs.len() + 4 {
                    vfail!("framing-extra-message", "more messages yielded than were sent: {}", got.len());
                }
            }
            Poll::Ready(Some(Err(e))) => {
                end = End::Error(e.kind());
                break;
            }
            Poll::Ready(None) => {
                end = End::CleanEnd;
                break;
            }
            Poll::Pending => {
                let woken = wk.0.load(Ordering::SeqCst) != before;
                if !woken && sent == c.outbound.len() {
                    end = End::Idle;
                    break;
                }
                if !woken && sent < c.outbound.len() {
                    // idle until the next send point
                    polls = polls.max(send_at[sent] as u64);
                }
            }
        }
    }

    // ---- compare --------------------------------------------------------------------------------
    vensure!(
        !sock.lock().unwrap().overflow,
        "framing-outbound-bytes-wrong",
        "the stream tried to write more octets than the framed outbound messages contain (duplicated octets)"
    );
    let show = |v: &Vec<Vec<u8>>| -> String {
        v.iter().map(|m| format!("{}B:{}", m.len(), crate::core::hexser::to_hex(&m[..m.len().min(6)]))).collect::<Vec<_>>().join(",")
    };
    for (i, (g, e)) in got.iter().zip(exp_msgs.iter()).enumerate() {
        if g != e {
            let sig = if g.len() < e.len() {
                "framing-truncated-message"
            } else if g.len() > e.len() {
                "framing-merged-message"
            } else {
                "framing-corrupted-message"
            };
            vfail!(sig, "message {i}: expected {} octets, got {} octets; got [{}] expected [{}]", e.len(), g.len(), show(&got), show(&exp_msgs));
        }
    }
    vensure!(
        got.len() <= exp_msgs.len(),
        "framing-extra-message",
        "yielded {} messages, only {} were complete before the close: got [{}]",
        got.len(),
        exp_msgs.len(),
        show(&got)
    );
    vensure!(
        got.len() == exp_msgs.len(),
        "framing-lost-message",
        "yielded {} of {} complete messages before ending with {end:?} (expected end {exp_end:?})",
        got.len(),
        exp_msgs.len()
    );
    match (&exp_end, &end) {
        (End::Idle, End::Idle) | (End::CleanEnd, End::CleanEnd) => {}
        (End::Error(_), End::Error(_)) => {}
        (End::Error(_), End::CleanEnd) => vfail!("framing-clean-end-inside-frame", "close {:?} inside a frame ended the stream cleanly", c.close),
        (End::CleanEnd, End::Error(k)) => vfail!("framing-error-on-boundary-close", "close on a message boundary gave error {k:?}"),
        (e, g) => vfail!("framing-wrong-end", "expected end {e:?}, got {g:?}"),
    }
    let s = sock.lock().unwrap();
    let exp_out: Vec<u8> = out_frames.concat();
    if end == End::Idle {
        vensure!(
            s.written == exp_out,
            "framing-outbound-bytes-wrong",
            "socket accepted {} octets, expected {} (first difference at {:?})",
            s.written.len(),
            exp_out.len(),
            s.written.iter().zip(exp_out.iter()).position(|(a, b)| a != b)
        );
        // "on the wire": a transport that buffers (TLS, a BufWriter) only sends on flush, so an idle
        // stream must have flushed everything it handed to the socket
        vensure!(
            s.flushed_upto == s.written.len(),
            "framing-outbound-not-flushed",
            "the stream is idle but only {} of the {} octets handed to the socket were followed by a flush (native vectored writes: {})",
            s.flushed_upto,
            s.written.len(),
            c.vectored
        );
    } else {
        // the stream ended: what was written must still be a prefix of the framed messages
        vensure!(
            exp_out.starts_with(&s.written),
            "framing-outbound-bytes-wrong",
            "socket accepted {} octets which are not a prefix of the framed outbound messages (first difference at {:?})",
            s.written.len(),
            s.written.iter().zip(exp_out.iter()).position(|(a, b)| a != b)
        );
    }

    // ---- classes / non-triviality ---------------------------------------------------------------
    // does some read chunk boundary fall inside a length prefix?
    let split_prefix = {
        // replay the read script on the inbound stream to find boundaries
        let mut pos = 0usize;
        let mut ri = 0usize;
        let mut hit = false;
        let mut frame_starts = Vec::new();
        let mut o = 0;
        for f in &frames {
            frame_starts.push(o);
            o += f.len();
        }
        let inb = cut.min(reset_at.unwrap_or(cut));
        let mut guard = 0;
        while pos < inb && guard < 100_000 {
            guard += 1;
            let n = if read_chunks.is_empty() { u16::MAX } else { read_chunks[ri % read_chunks.len()] } as usize;
            ri += 1;
            if n == 0 {
                continue;
            }
            // the stream reads prefix and body separately, so a 1-octet chunk at a frame start splits the prefix
            let fs = frame_starts.iter().rev().find(|s| **s <= pos).copied().unwrap_or(0);
            let in_prefix = pos - fs < 2;
            let room = if in_prefix { 2 - (pos - fs) } else { usize::MAX };
            let take = n.min(room).min(inb - pos);
            if in_prefix && take < room {
                hit = true;
            }
            pos += take;
        }
        hit
    };
    let small_vectored = s.min_vectored_accept.is_some_and(|m| m < 2);
    rec.class(match &c.close {
        Close::Never => "close=never",
        Close::AfterMsg(_) => "close=boundary",
        Close::Inside(..) => "close=inside-frame",
        Close::Reset(..) => "close=reset",
    });
    rec.class(if c.vectored { "vectored-native" } else { "vectored-default" });
    if split_prefix {
        rec.class("read-splits-length-prefix");
    }
    if small_vectored {
        rec.class("vectored-write-accepts<2");
    }
    if c.read_chunks.contains(&0) || c.write_accepts.contains(&0) {
        rec.class("has-would-block");
    }
    rec.count("polls", polls);
    rec.count("socket_reads", s.reads);
    rec.count("socket_writes", s.writes);
    if split_prefix || small_vectored {
        rec.nontrivial();
        if rec.wants_note() {
            rec.note(format!(
                "in lens {:?} chunks {:?} close {:?} | out lens {:?} accepts {:?} vectored={} -> {} msgs, end {:?}",
                c.inbound.iter().map(|x| x.0).collect::<Vec<_>>(),
                c.read_chunks,
                c.close,
                c.outbound.iter().map(|x| x.0).collect::<Vec<_>>(),
                c.write_accepts,
                c.vectored,
                got.len(),
                end
            ));
        }
    }
    Ok(())
}

fn msg_len() -> impl Strategy<Value = u16> {
    prop_oneof![
        4 => prop::sample::select(vec![1u16, 2, 3, 255, 256, 257, 300]),
        4 => 1u16..=300,
        1 => prop::sample::select(vec![511u16, 512, 4096, 65_535]),
    ]
}

fn chunk_script() -> impl Strategy<Value = Vec<u16>> {
    prop_oneof![
        3 => vec(prop_oneof![3 => 1u16..=3, 1 => Just(0u16), 2 => 1u16..=400], 1..8),
        1 => Just(vec![1u16]),
        1 => Just(vec![0u16, 1]),
        1 => Just(vec![]),
        1 => vec(prop_oneof![Just(0u16), Just(1u16), Just(2u16), Just(u16::MAX)], 1..6),
    ]
}

fn close() -> impl Strategy<Value = Close> {
    prop_oneof![
        3 => Just(Close::Never),
        3 => (0usize..=3).prop_map(Close::AfterMsg),
        3 => (0usize..3, 0usize..400).prop_map(|(k, n)| Close::Inside(k, n)),
        1 => (0usize..3, 0usize..400).prop_map(|(k, n)| Close::Reset(k, n)),
    ]
}

fn case() -> impl Strategy<Value = Case> {
    (
        vec((msg_len(), any::<u8>()), 0..=3),
        chunk_script(),
        close(),
        vec((msg_len(), any::<u8>()), 0..=3),
        chunk_script(),
        any::<bool>(),
        vec(0u8..12, 3),
        prop::bool::weighted(0.35),
    )
        .prop_map(|(inbound, read_chunks, close, outbound, write_accepts, vectored, send_at, via_tokio)| Case {
            inbound,
            read_chunks,
            close,
            outbound,
            write_accepts,
            vectored,
            send_at,
            via_tokio,
        })
}

/// every composition of `n` into positive parts, each part optionally preceded by a would-block
fn compositions(n: usize) -> Vec<Vec<u16>> {
    // 2^(n-1) compositions; with/without a Pending before each part would be 2^k more — we add
    // one variant with a would-block before every part
    let mut out = Vec::new();
    if n == 0 {
        return vec![vec![]];
    }
    for mask in 0u32..(1 << (n - 1)) {
        let mut parts = Vec::new();
        let mut cur = 1u16;
        for i in 0..n - 1 {
            if (mask >> i) & 1 == 1 {
                parts.push(cur);
                cur = 1;
            } else {
                cur += 1;
            }
        }
        parts.push(cur);
        out.push(parts.clone());
        let mut with_block = Vec::new();
        for p in parts {
            with_block.push(0);
            with_block.push(p);
        }
        out.push(with_block);
    }
    out
}

// ---------------------------------------------------------------------------------------------
// the server side reads its framed stream through `TimeoutStream` (idle timeout between
// requests): it must hand on exactly the items of the wrapped stream, in order, and turn only a
// silence of `timeout` into an error. Driven on a paused tokio clock (deterministic virtual time).

#[derive(Clone, Copy, Debug, Serialize, Deserialize, PartialEq, Eq)]
enum Ev {
    Item(u8),
    /// the wrapped stream is Pending for this many milliseconds
    Gap(u16),
    Fail,
    /// the *consumer* is busy for this long before it polls again (the server handles a request
    /// inline between two reads); only generated right after an item and never next to a Gap, so
    /// that whatever follows is already there when the stream is polled again
    Busy(u16),
}

#[derive(Clone, Debug, Serialize, Deserialize)]
struct IdleCase {
    timeout_ms: u16,
    events: Vec<Ev>,
    /// after the last event: true = the peer stays silent, false = clean end of stream
    hang: bool,
}

struct Scripted {
    events: std::collections::VecDeque<Ev>,
    hang: bool,
    sleep: Option<Pin<Box<tokio::time::Sleep>>>,
}

impl Stream for Scripted {
    type Item = io::Result<u8>;

    fn poll_next(mut self: Pin<&mut Self>, cx: &mut Context<'_>) -> Poll<Option<Self::Item>> {
        loop {
            if let Some(s) = self.sleep.as_mut() {
                match s.as_mut().poll(cx) {
                    Poll::Pending => return Poll::Pending,
                    Poll::Ready(()) => self.sleep = None,
                }
            }
            match self.events.pop_front() {
                Some(Ev::Item(x)) => return Poll::Ready(Some(Ok(x))),
                Some(Ev::Fail) => return Poll::Ready(Some(Err(io::Error::new(io::ErrorKind::ConnectionReset, "scripted")))),
                Some(Ev::Gap(ms)) => self.sleep = Some(Box::pin(tokio::time::sleep(std::time::Duration::from_millis(ms as u64)))),
                Some(Ev::Busy(_)) => {}
                None if self.hang => return Poll::Pending,
                None => return Poll::Ready(None),
            }
        }
    }
}

#[derive(Debug, PartialEq, Eq, Clone)]
enum Out {
    Item(u8),
    TimedOut,
    OtherErr,
    End,
    /// still pending after an hour of virtual time
    Silent,
}

fn idle_case() -> impl Strategy<Value = IdleCase> {
    let ev = prop_oneof![
        6 => any::<u8>().prop_map(Ev::Item),
        5 => prop_oneof![Just(0u16), 1u16..5, 5u16..60, Just(99), Just(100), Just(101), 100u16..400].prop_map(Ev::Gap),
        1 => Just(Ev::Fail),
    ];
    let ev = prop_oneof![12 => ev, 2 => prop_oneof![1u16..5, 5u16..60, Just(99), Just(100), Just(101), 100u16..400].prop_map(Ev::Busy)];
    (prop_oneof![Just(0u16), 1u16..5, Just(20), Just(100)], vec(ev, 0..=10), any::<bool>()).prop_map(|(timeout_ms, events, hang)| {
        // a Busy stays only directly after an item and not in front of a Gap
        let mut kept: Vec<Ev> = Vec::new();
        for (i, e) in events.iter().enumerate() {
            if let Ev::Busy(_) = e {
                let after_item = matches!(kept.last(), Some(Ev::Item(_)));
                let before_gap_or_busy = matches!(events.get(i + 1), Some(Ev::Gap(_)) | Some(Ev::Busy(_)));
                if !after_item || before_gap_or_busy {
                    continue;
                }
            }
            kept.push(*e);
        }
        IdleCase { timeout_ms, events: kept, hang }
    })
}

fn run_idle(c: &IdleCase, rec: &mut Rec) -> CaseResult {
    use futures_util::StreamExt;
    use hickory_server::server::TimeoutStream;
    let rt = tokio::runtime::Builder::new_current_thread()
        .enable_time()
        .start_paused(true)
        .build()
        .map_err(|e| crate::core::Fail::new("harness-init", e.to_string()))?;
    let inner = Scripted { events: c.events.iter().copied().collect(), hang: c.hang, sleep: None };
    let t = std::time::Duration::from_millis(c.timeout_ms as u64);
    // busy_after[k] = how long the consumer works after it has received its k-th item (1-based)
    let mut busy_after: Vec<u64> = vec![0];
    for e in &c.events {
        match e {
            Ev::Item(_) => busy_after.push(0),
            Ev::Busy(ms) => *busy_after.last_mut().unwrap() += *ms as u64,
            _ => {}
        }
    }
    let got: Vec<Out> = rt.block_on(async move {
        let mut ts = TimeoutStream::new(inner, t);
        let mut out = Vec::new();
        let mut items = 0usize;
        loop {
            if let Some(ms) = busy_after.get(items).copied().filter(|ms| *ms > 0 && items > 0) {
                busy_after[items] = 0;
                tokio::time::sleep(std::time::Duration::from_millis(ms)).await;
            }
            match tokio::time::timeout(std::time::Duration::from_secs(3600), ts.next()).await {
                Err(_) => {
                    out.push(Out::Silent);
                    break;
                }
                Ok(None) => {
                    out.push(Out::End);
                    break;
                }
                Ok(Some(Ok(x))) => {
                    out.push(Out::Item(x));
                    items += 1;
                }
                // the server stops reading a connection at the first error
                Ok(Some(Err(e))) => {
                    out.push(if e.kind() == io::ErrorKind::TimedOut { Out::TimedOut } else { Out::OtherErr });
                    break;
                }
            }
        }
        out
    });

    // reference: walk the script; `idle` = time since the wrapped stream last produced something
    // (or since the start). A silence longer than the timeout is an error at that point; exactly
    // equal is a tie between two timers of the same instant (either order is acceptable).
    let tmo = c.timeout_ms as u64;
    let mut want: Vec<Out> = Vec::new();
    let mut alt: Option<Vec<Out>> = None; // the other acceptable output when a tie occurred
    let mut idle = 0u64;
    let mut done = false;
    let mut gaps_near = false;
    for ev in &c.events {
        match ev {
            Ev::Gap(ms) => idle += *ms as u64,
            // what follows a busy period is already there when the stream is polled again: a
            // stream that has something to deliver is not idle, however long the consumer took
            Ev::Busy(_) => {}
            Ev::Item(_) | Ev::Fail => {
                if tmo > 0 && idle.abs_diff(tmo) <= 1 {
                    gaps_near = true;
                }
                if tmo > 0 && idle > tmo {
                    want.push(Out::TimedOut);
                    done = true;
                    break;
                }
                if tmo > 0 && idle == tmo && alt.is_none() {
                    let mut a = want.clone();
                    a.push(Out::TimedOut);
                    alt = Some(a);
                }
                idle = 0;
                match ev {
                    Ev::Item(x) => want.push(Out::Item(*x)),
                    _ => {
                        want.push(Out::OtherErr);
                        done = true;
                        break;
                    }
                }
            }
        }
    }
    if !done {
        if tmo > 0 && idle > tmo {
            want.push(Out::TimedOut);
        } else if c.hang {
            want.push(if tmo > 0 { Out::TimedOut } else { Out::Silent });
        } else {
            if tmo > 0 && idle == tmo && alt.is_none() {
                let mut a = want.clone();
                a.push(Out::TimedOut);
                alt = Some(a);
            }
            want.push(Out::End);
        }
    }
    rec.class(format!("timeout:{}", match c.timeout_ms { 0 => "off", 1..=4 => "1-4ms", 20 => "20ms", _ => "100ms" }));
    rec.class(format!("ends:{:?}", want.last().unwrap_or(&Out::End)).split('(').next().unwrap_or("").to_string());
    if gaps_near {
        rec.class("silence-within-1ms-of-the-timeout");
    }
    if tmo > 0 && c.events.windows(2).any(|w| matches!((w[0], w[1]), (Ev::Busy(b), Ev::Item(_)) if b as u64 > tmo)) {
        rec.class("consumer-busy-longer-than-the-timeout,next-item-already-there");
    }
    if c.events.iter().any(|e| matches!(e, Ev::Gap(g) if *g > 0)) && c.events.iter().filter(|e| matches!(e, Ev::Item(_))).count() >= 2 {
        rec.nontrivial();
    }
    if got != want && alt.as_ref() != Some(&got) {
        let items = |v: &[Out]| v.iter().filter(|o| matches!(o, Out::Item(_))).cloned().collect::<Vec<_>>();
        let sig = if !want.starts_with(&items(&got)) && !items(&want).starts_with(&items(&got)) {
            "idle-timeout-wrapper-changed-the-messages"
        } else if got.last() == Some(&Out::TimedOut) {
            "idle-timeout-fired-without-a-silence-of-that-length"
        } else if want.last() == Some(&Out::TimedOut) {
            "idle-timeout-did-not-fire"
        } else {
            "idle-timeout-wrapper-output-differs"
        };
        vfail!(sig, "timeout {} ms, script {:?} then {}: got {:?}, expected {:?}{}", c.timeout_ms, c.events, if c.hang { "silence" } else { "end" }, got, want, alt.map(|a| format!(" or {a:?}")).unwrap_or_default());
    }
    Ok(())
}

/// the TimeoutStream sub-property, also registered under C11 (a request that has arrived must be
/// read and answered however long the previous one took to handle)
pub fn idle_wrapper_sub(name: &'static str, quick: u64, thorough: u64) -> Box<dyn crate::core::Sub> {
    crate::core::prop(name, quick, thorough, |_t: crate::core::Tier| idle_case(), run_idle)
}

pub fn check() -> Option<Check> {
    let sampled = crate::core::prop_hang(
        "framing_sampled",
        120_000,
        6_000_000,
        std::time::Duration::from_secs(20),
        |_| case(),
        run_case,
    );

    // short streams: every composition of the inbound stream into read chunks × every close position,
    // and every composition of the outbound stream into write acceptances
    let small = enumerate(
        "framing_small_scope",
        |env: &Env| {
            // message length sets whose framed stream is ≤ 12 (quick) / ≤ 14 (thorough) octets
            let max_total = match env.tier {
                crate::core::Tier::Quick => 10,
                crate::core::Tier::Thorough => 13,
            };
            let mut cases = Vec::new();
            let mut shapes: Vec<Vec<u16>> = Vec::new();
            for a in 1u16..=8 {
                if (a as usize + 2) <= max_total {
                    shapes.push(vec![a]);
                }
                for b in 1u16..=6 {
                    if (a + b) as usize + 4 <= max_total {
                        shapes.push(vec![a, b]);
                    }
                    for c3 in 1u16..=3 {
                        if (a + b + c3) as usize + 6 <= max_total {
                            shapes.push(vec![a, b, c3]);
                        }
                    }
                }
            }
            for shape in shapes {
                let total: usize = shape.iter().map(|l| *l as usize + 2).sum();
                let msgs: Vec<(u16, u8)> = shape.iter().enumerate().map(|(i, l)| (*l, 17 + i as u8)).collect();
                let mut closes = vec![Close::Never];
                for k in 0..=shape.len() {
                    closes.push(Close::AfterMsg(k));
                }
                for (k, l) in shape.iter().enumerate() {
                    for n in 0..(*l as usize + 1) {
                        closes.push(Close::Inside(k, n));
                    }
                }
                for comp in compositions(total) {
                    for cl in &closes {
                        // inbound direction
                        cases.push(Case {
                            inbound: msgs.clone(),
                            read_chunks: comp.clone(),
                            close: cl.clone(),
                            outbound: vec![],
                            write_accepts: vec![],
                            vectored: true,
                            send_at: vec![],
                            via_tokio: false,
                        });
                    }
                    // outbound direction (native and default vectored behaviour)
                    for (vectored, via_tokio) in [(true, false), (false, false), (false, true)] {
                        cases.push(Case {
                            inbound: vec![],
                            read_chunks: vec![],
                            close: Close::Never,
                            outbound: msgs.clone(),
                            write_accepts: comp.clone(),
                            vectored,
                            send_at: vec![0; msgs.len()],
                            via_tokio,
                        });
                    }
                }
            }
            (Box::new(cases.into_iter()) as Box<dyn Iterator<Item = Case> + Send>, true)
        },
        run_case,
    );

    let idle = crate::core::prop("server_idle_timeout_wrapper", 60_000, 2_000_000, |_t: crate::core::Tier| idle_case(), run_idle);
    Some(Check {
        id: "C17",
        level: "exploration",
        rule: "cases = (0..3 inbound messages with lengths from {1,2,3,255,256,257,300} ∪ 1..300 ∪ {511,512,4096,65535}, a cyclic read-chunk script with sizes ≥1 and zero-progress would-block steps, a close position {never, on a boundary, strictly inside a prefix/body, reset}, 0..3 outbound messages, a cyclic write-acceptance script, native vs default vectored write, send points). Small scope: for every message-length shape whose framed stream is ≤10 (quick) / ≤13 (thorough) octets, ALL compositions of the stream into read chunks (plain and with a would-block before every chunk) × ALL close positions, and ALL compositions into write acceptances. Non-trivial = distinct case AND (a read-chunk boundary falls inside a length prefix OR a vectored write accepted < 2 octets). server_idle_timeout_wrapper: the server's TimeoutStream around a scripted stream (items, silences of 0..400 ms, errors, end or lasting silence; timeout off / 1-4 / 20 / 100 ms) on a paused tokio clock: items pass unchanged and in order, only a silence longer than the timeout becomes an error; the consumer may be busy (1-400 ms) between two reads with the next item already waiting, which is not a silence",
        assumptions: vec![
            "zero-length frames and Ok(0) from a write are outside the stated domain and not generated",
            "the scripted socket wakes immediately after a would-block; a silent peer is modelled as Pending without wake",
        ],
        subs: vec![sampled, small, idle],
    })
}
