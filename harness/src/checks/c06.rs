//! C06 — A signature is accepted only for the exact RRset, key and time window.
//!
//! A signed RRset and the zone's DNSKEY RRset are served, as raw messages built by the harness'
//! own encoder and signed with ring over the reference octets, by a scripted upstream `DnsHandle`
//! to the real `DnssecDnsHandle::with_trust_anchor` (trust anchor = the zone's key). The
//! validator's clock is `SimTime::current_time()` = the interposed virtual clock, which also
//! drives `std::time::Instant` (validation cache), so wall and monotonic time move in lock step.
//! Oracle: `refm::val_ref` — a stateless verdict computed from the served octets and the clock
//! (RFC 4035 §5.3.1–§5.3.3, RFC 4034 §2.1/§3.1, RFC 1982, RFC 5011 revoke bit).

use std::collections::HashMap;
use std::sync::{Arc, Mutex};
use std::time::Duration;

use futures_util::future;
use futures_util::stream;
use hickory_net::dnssec::DnssecDnsHandle;
use hickory_net::xfer::{DnsHandle, FirstAnswer};
use hickory_net::{DnsError, NetError};
use hickory_proto::dnssec::rdata::DNSSECRData;
use hickory_proto::dnssec::{Algorithm, Proof, PublicKeyBuf, TrustAnchors};
use hickory_proto::op::{DnsRequest, DnsRequestOptions, DnsResponse, Query};
use hickory_proto::rr::{RData, Record, RecordType};
use proptest::collection::vec;
use proptest::prelude::*;
use serde::{Deserialize, Serialize};

use crate::clock;
use crate::core::{enumerate, prop, CaseResult, Check, Env, Rec, Tier};
use crate::gen::names::{self, MName, Rel};
use crate::refm::canon;
use crate::refm::tbs_ref::{self, RefKey, SigParams, Window};
use crate::refm::val_ref::{Anchor, Reference, Verdict};
use crate::refm::dnssec_wire::{self as w, MRdata, RawRr, CLASS_IN, T_DNSKEY, T_RRSIG};
use crate::sim::SimRt;

// ---------------------------------------------------------------------------------------------
// keys

#[derive(Clone, Copy, Debug, PartialEq, Eq, Serialize, Deserialize)]
enum KeyId {
    /// the repository's fixture key, used with this DNSSEC algorithm number (8, 10, 13, 14, 15)
    Fixture(u8),
    /// Ed25519 key derived from this number
    Seed(u16),
}

impl KeyId {
    fn alg(self) -> u8 {
        match self {
            KeyId::Fixture(a) => a,
            KeyId::Seed(_) => tbs_ref::ALG_ED25519,
        }
    }
}

enum KeyRef {
    Shared(&'static RefKey),
    Own(RefKey),
}

impl std::ops::Deref for KeyRef {
    type Target = RefKey;
    fn deref(&self) -> &RefKey {
        match self {
            KeyRef::Shared(k) => k,
            KeyRef::Own(k) => k,
        }
    }
}

fn key_of(id: KeyId) -> KeyRef {
    match id {
        KeyId::Fixture(a) => KeyRef::Shared(tbs_ref::fixture_key(a)),
        KeyId::Seed(n) => KeyRef::Own(RefKey::ed25519_from_seed(&tbs_ref::seed32(n as u64))),
    }
}

fn key_id() -> impl Strategy<Value = KeyId> {
    prop_oneof![
        10 => any::<u16>().prop_map(KeyId::Seed),
        2 => Just(KeyId::Fixture(tbs_ref::ALG_ED25519)),
        2 => Just(KeyId::Fixture(tbs_ref::ALG_ECDSAP256)),
        1 => Just(KeyId::Fixture(tbs_ref::ALG_ECDSAP384)),
        1 => Just(KeyId::Fixture(tbs_ref::ALG_RSASHA256)),
        1 => Just(KeyId::Fixture(tbs_ref::ALG_RSASHA512)),
    ]
}

// ---------------------------------------------------------------------------------------------
// scenario = what the zone genuinely publishes

#[derive(Clone, Debug, Serialize, Deserialize)]
struct Scenario {
    zone: MName,
    #[serde(with = "crate::core::hexvec")]
    owner_rel: Vec<Vec<u8>>,
    /// the RRset lives at this name outside the zone although the zone's key signs it (RFC 4035
    /// §5.3.1 bullet 2 is not part of the property text; observed and counted only)
    foreign_owner: Option<MName>,
    rdatas: Vec<MRdata>,
    ttl: u32,
    orig_extra: u32,
    rrsig_ttl: u32,
    dnskey_ttl: u32,
    signer: KeyId,
    /// DNSKEY flags of the signing key as published *and* as covered by the key tag
    signer_flags: u16,
    /// Some: a separate key-signing key is the trust anchor and signs the DNSKEY RRset;
    /// None: the signing key itself is the trust anchor
    ksk: Option<KeyId>,
    /// further genuine zone keys whose key tag equals the signer's (KeyTrap-style)
    colliders: u8,
    colliders_first: bool,
    /// answer synthesised from a wildcard: RRSIG Labels = zone labels, signed as *.zone
    wildcard: bool,
    /// inception = now0 + inc_off, expiration = now0 + exp_off (mod 2^32)
    inc_off: i64,
    exp_off: i64,
    kinc_off: i64,
    kexp_off: i64,
    now0: u64,
    /// upstream is a cache that counts TTLs down (else an authoritative server)
    upstream_ages_ttl: bool,
    /// Some((lo, hi)): the validator is configured with `positive_validation_ttl(lo..=hi)` and
    /// `negative_validation_ttl(lo..=hi)` seconds (as the recursor does from its TTL config);
    /// the bounds steer the validation cache and must never stretch a verdict past its signature
    #[serde(default)]
    cache_bounds: Option<(u32, u32)>,
    /// the key-signing key (the trust anchor) carries the REVOKE bit, consistently: published
    /// flags 385, key tag computed over them (RFC 5011 2.1: such a key must not be used to
    /// authenticate anything but its own revocation)
    #[serde(default)]
    ksk_revoked: bool,
}

const ZONE_LABELS: &[&[u8]] = &[b"a", b"B", b"zone", b"Ex-1", b"COM", b"x\0y"];
const RDATA_LABELS: &[&[u8]] = &[b"ns1", b"NS2", b"mail", b"Mx", b"example", b"COM", b"a"];
const OWNER_LABELS: &[&[u8]] = &[b"www", b"A", b"b", b"Host-1", b"_x"];

fn zone_name() -> impl Strategy<Value = MName> {
    prop_oneof![
        3 => Just(MName::fq(vec![])),
        3 => Just(MName::fq(vec![b"example".to_vec()])),
        2 => Just(MName::fq(vec![b"Zone".to_vec(), b"TEST".to_vec()])),
        2 => vec(prop::sample::select(ZONE_LABELS).prop_map(|l| l.to_vec()), 1..=2).prop_map(MName::fq),
    ]
}

fn lower_if_many(mut rds: Vec<MRdata>) -> Vec<MRdata> {
    // several members with upper-case RDATA names would run into C05's recorded ordering defect;
    // that is C05's business, so genuine multi-member sets carry lower-case RDATA names
    if rds.len() > 1 {
        for r in rds.iter_mut() {
            let low = |n: &MName| MName::fq(canon::lower(&n.labels));
            let new = match &*r {
                MRdata::Ns(n) => MRdata::Ns(low(n)),
                MRdata::Mx { pref, exchange } => MRdata::Mx {
                    pref: *pref,
                    exchange: low(exchange),
                },
                other => other.clone(),
            };
            *r = new;
        }
        let mut seen: Vec<Vec<u8>> = Vec::new();
        rds.retain(|r| {
            let c = r.canonical();
            if seen.contains(&c) {
                false
            } else {
                seen.push(c);
                true
            }
        });
    }
    rds
}

fn target_rdatas() -> impl Strategy<Value = Vec<MRdata>> {
    let name = || {
        vec(prop::sample::select(RDATA_LABELS).prop_map(|l| l.to_vec()), 1..=3).prop_map(MName::fq)
    };
    prop_oneof![
        4 => vec(any::<[u8; 4]>().prop_map(|a| MRdata::A(a.to_vec())), 1..=3),
        1 => vec(any::<[u8; 16]>().prop_map(|a| MRdata::Aaaa(a.to_vec())), 1..=2),
        2 => vec(vec(vec(any::<u8>(), 0..6), 1..=2).prop_map(MRdata::Txt), 1..=2),
        2 => vec(name().prop_map(MRdata::Ns), 1..=3),
        2 => vec((0u16..3, name()).prop_map(|(pref, exchange)| MRdata::Mx { pref, exchange }), 1..=3),
    ]
    .prop_map(lower_if_many)
}

/// (window length, position of the clock relative to inception) -> (inc_off, exp_off)
fn window() -> impl Strategy<Value = (i64, i64)> {
    let len = prop_oneof![
        2 => 0u32..3,
        3 => 3u32..120,
        3 => 120u32..10_000,
        2 => 10_000u32..3_000_000,
        1 => 0x7fff_fff0u32..0x7fff_ffff,
    ];
    len.prop_flat_map(|len| {
        let len = len as i64;
        let pos = prop_oneof![
            3 => -2i64..=2,
            3 => (len - 2)..=(len + 2),
            4 => 0i64..=len.max(0),
            1 => -3_000_000i64..0,
            1 => (len + 1)..(len + 3_000_000),
            1 => prop::sample::select(&[-(1i64 << 31) - 1, -(1i64 << 31), -(1i64 << 31) + 1][..]),
            1 => prop::sample::select(&[(1i64 << 31) - 1, 1i64 << 31, (1i64 << 31) + 1][..]).prop_map(move |d| len + d),
        ];
        pos.prop_map(move |pos| (-pos, len - pos))
    })
}

fn now0() -> impl Strategy<Value = u64> {
    prop_oneof![
        4 => 1_600_000_000u64..1_900_000_000,
        2 => ((1u64 << 32) - 20_000)..((1u64 << 32) + 20_000),
        1 => ((1u64 << 31) - 5_000)..((1u64 << 31) + 5_000),
        1 => (1u64 << 32)..((1u64 << 32) + 4_000_000),
    ]
}

fn scenario() -> impl Strategy<Value = Scenario> {
    let names = (
        zone_name(),
        vec(prop::sample::select(OWNER_LABELS).prop_map(|l| l.to_vec()), 0..=2),
        prop_oneof![12 => Just(None), 1 => Just(Some(MName::fq(vec![b"www".to_vec(), b"victim".to_vec(), b"invalid".to_vec()])))],
        target_rdatas(),
    );
    let ttls = (
        prop_oneof![1 => Just(0u32), 4 => 1u32..60, 4 => 60u32..7_200, 1 => any::<u32>()],
        prop_oneof![2 => Just(0u32), 2 => 1u32..10_000],
        prop_oneof![1 => Just(0u32), 4 => 1u32..7_200],
        prop_oneof![4 => 1u32..7_200, 1 => Just(0u32)],
    );
    let keys = (
        key_id(),
        prop_oneof![
            24 => Just(256u16),
            12 => Just(257u16),
            // genuinely signed by a key that must not be used: no zone bit / revoked
            1 => Just(0u16),
            1 => Just(1u16),
            1 => Just(384u16),
            1 => Just(385u16),
            // reserved bits set (RFC 4034 §2.1.1: ignored on receipt)
            1 => Just(256u16 | 0x0400),
        ],
        prop_oneof![3 => Just(None), 1 => key_id().prop_map(Some)],
        prop_oneof![10 => Just(0u8), 1 => 1u8..=4],
        any::<bool>(),
        prop::bool::weighted(0.06),
    );
    let cache_bounds = prop_oneof![
        3 => Just(None),
        1 => (prop_oneof![Just(1u32), 2u32..10, Just(60), Just(300), Just(3600)], prop_oneof![Just(0u32), Just(3600), Just(86400)]).prop_map(|(lo, extra)| Some((lo, lo + extra))),
    ];
    (names, ttls, keys, window(), window(), now0(), any::<bool>(), prop::bool::weighted(0.85), cache_bounds, prop::bool::weighted(0.15)).prop_map(
        |((zone, owner_rel, foreign_owner, rdatas), (ttl, orig_extra, rrsig_ttl, dnskey_ttl), (signer, signer_flags, ksk, colliders, colliders_first, wildcard), win, kwin, now0, ages, same_kwin, cache_bounds, ksk_revoked)| {
            let kwin = if same_kwin { win } else { kwin };
            let wildcard = wildcard && !owner_rel.is_empty() && foreign_owner.is_none();
            // a KSK equal to the signer makes no sense
            let ksk = ksk.filter(|k| *k != signer);
            Scenario {
                zone,
                owner_rel,
                foreign_owner,
                rdatas,
                ttl,
                orig_extra,
                rrsig_ttl,
                dnskey_ttl,
                signer,
                signer_flags,
                ksk,
                colliders,
                colliders_first,
                wildcard,
                inc_off: win.0,
                exp_off: win.1,
                kinc_off: kwin.0,
                kexp_off: kwin.1,
                now0,
                upstream_ages_ttl: ages,
                cache_bounds,
                ksk_revoked: ksk_revoked && ksk.is_some(),
            }
        },
    )
}

struct Genuine {
    owner: MName,
    rtype: u16,
    /// members, then the RRSIG
    target: Vec<RawRr>,
    /// DNSKEYs, then the RRSIG over them
    keys: Vec<RawRr>,
    anchor: Anchor,
    sig: SigParams,
}

fn off(now0: u64, o: i64) -> u32 {
    (now0 as i64).wrapping_add(o) as u32
}

/// an Ed25519 zone key whose key tag equals `tag`, found by choosing reserved flag bits
fn collider(tag: u16, n: u32) -> Option<(u16, Vec<u8>)> {
    for s in 0..64u64 {
        let k = RefKey::ed25519_from_seed(&tbs_ref::seed32(0x1_0000 + (n as u64) * 64 + s));
        let public = k.dns_public_key();
        // RFC 4034 Appendix B is a sum of 16-bit words: everything but the flags word is fixed
        let rest = tbs_ref::dnskey_rdata(0, 3, tbs_ref::ALG_ED25519, &public);
        let base: u32 = rest.iter().enumerate().map(|(i, b)| if i & 1 == 1 { *b as u32 } else { (*b as u32) << 8 }).sum();
        for hi in 0..=0xffu16 {
            for lo in 0..=0x7fu16 {
                // zone bit set, revoke bit clear, SEP free
                let flags = (hi << 8) | 0x0100 | lo;
                let mut ac = base + flags as u32;
                ac += (ac >> 16) & 0xffff;
                if (ac & 0xffff) as u16 == tag {
                    debug_assert_eq!(tbs_ref::key_tag(&tbs_ref::dnskey_rdata(flags, 3, tbs_ref::ALG_ED25519, &public)), tag);
                    return Some((flags, public));
                }
            }
        }
    }
    None
}

fn build(s: &Scenario) -> Genuine {
    let owner = match &s.foreign_owner {
        Some(o) => o.clone(),
        None => {
            let mut l = s.owner_rel.clone();
            l.extend(s.zone.labels.clone());
            MName::fq(l)
        }
    };
    let rtype = s.rdatas[0].rtype();
    let signer = key_of(s.signer);
    let salg = s.signer.alg();
    let spub = signer.dns_public_key();
    let skey_rdata = tbs_ref::dnskey_rdata(s.signer_flags, 3, salg, &spub);
    let stag = tbs_ref::key_tag(&skey_rdata);
    let labels = if s.wildcard { s.zone.labels.len() } else { tbs_ref::label_count(&owner.labels) } as u8;
    let sig = SigParams {
        type_covered: rtype,
        algorithm: salg,
        labels,
        original_ttl: s.ttl.saturating_add(s.orig_extra),
        expiration: off(s.now0, s.exp_off),
        inception: off(s.now0, s.inc_off),
        key_tag: stag,
        signer: s.zone.clone(),
    };
    let canon_rd: Vec<Vec<u8>> = s.rdatas.iter().map(|r| r.canonical()).collect();
    let data = tbs_ref::signed_data(&owner.labels, CLASS_IN, &sig, canon_rd, true)
        .expect("labels chosen within the owner")
        .bytes();
    let signature = signer.sign(salg, &data);
    let mut target: Vec<RawRr> = s
        .rdatas
        .iter()
        .map(|r| RawRr {
            owner: owner.clone(),
            rtype,
            class: CLASS_IN,
            ttl: s.ttl,
            rdata: r.raw(),
        })
        .collect();
    target.push(RawRr {
        owner: owner.clone(),
        rtype: T_RRSIG,
        class: CLASS_IN,
        ttl: s.rrsig_ttl,
        rdata: sig.rdata_wire(&signature),
    });

    // the apex DNSKEY RRset
    let mut key_rdatas: Vec<Vec<u8>> = Vec::new();
    let (anchor_key, anchor_alg, anchor_rdata) = match s.ksk {
        Some(k) => {
            let kk = key_of(k);
            let rd = tbs_ref::dnskey_rdata(if s.ksk_revoked { 257 | 0x0080 } else { 257 }, 3, k.alg(), &kk.dns_public_key());
            key_rdatas.push(rd.clone());
            (kk, k.alg(), rd)
        }
        None => (key_of(s.signer), salg, skey_rdata.clone()),
    };
    let mut coll: Vec<Vec<u8>> = (0..s.colliders as u32)
        .filter_map(|n| collider(stag, n))
        .map(|(f, p)| tbs_ref::dnskey_rdata(f, 3, tbs_ref::ALG_ED25519, &p))
        .collect();
    if s.colliders_first {
        key_rdatas.append(&mut coll);
    }
    key_rdatas.push(skey_rdata);
    key_rdatas.append(&mut coll);
    let ksig = SigParams {
        type_covered: T_DNSKEY,
        algorithm: anchor_alg,
        labels: s.zone.labels.len() as u8,
        original_ttl: s.dnskey_ttl,
        expiration: off(s.now0, s.kexp_off),
        inception: off(s.now0, s.kinc_off),
        key_tag: tbs_ref::key_tag(&anchor_rdata),
        signer: s.zone.clone(),
    };
    let kdata = tbs_ref::signed_data(&s.zone.labels, CLASS_IN, &ksig, key_rdatas.clone(), true)
        .expect("labels = zone labels")
        .bytes();
    let ksignature = anchor_key.sign(anchor_alg, &kdata);
    let mut keys: Vec<RawRr> = key_rdatas
        .into_iter()
        .map(|rd| RawRr {
            owner: s.zone.clone(),
            rtype: T_DNSKEY,
            class: CLASS_IN,
            ttl: s.dnskey_ttl,
            rdata: rd,
        })
        .collect();
    keys.push(RawRr {
        owner: s.zone.clone(),
        rtype: T_RRSIG,
        class: CLASS_IN,
        ttl: s.dnskey_ttl,
        rdata: ksig.rdata_wire(&ksignature),
    });
    Genuine {
        owner,
        rtype,
        target,
        keys,
        anchor: Anchor {
            alg: anchor_alg,
            key: anchor_rdata[4..].to_vec(),
        },
        sig,
    }
}

// ---------------------------------------------------------------------------------------------
// edits = what an attacker / a broken middle box does to the genuine responses

#[derive(Clone, Debug, PartialEq, Eq, Hash, Serialize, Deserialize)]
enum Edit {
    None,
    // members of the RRset
    RecOwnerCase(u64),
    RecOwnerOctet(usize, u8),
    AllOwnerOctet(usize, u8),
    RecClass(usize, u16),
    RecType(usize, u16),
    RecTtl(usize, u32),
    RecRdataBit(usize, usize),
    RecAdd(u8),
    /// add a record of another class (3 = CH, 4 = HS, 254, 255) with the owner and type of the
    /// RRset somewhere behind its first member: fresh RDATA, or (`true`) a copy of a member
    RecAddClass(u8, u16, bool),
    RecRemove(usize),
    RecDup(usize),
    RecReverse,
    // the RRSIG (field edits are XOR masks, never zero)
    SigTypeCovered(u16),
    SigAlg(u8),
    SigLabels(u8),
    SigOrigTtl(u32),
    SigExpiration(u32),
    SigInception(u32),
    SigKeyTag(u16),
    SigSignerCase(u64),
    SigSignerOctet(usize, u8),
    SigBit(usize),
    SigTruncate(usize),
    SigExtend(u8),
    SigOwnerCase(u64),
    SigClass(u16),
    SigTtl(u32),
    SigRemove,
    SigDup,
    SigGarbageFirst,
    // the DNSKEY response (`usize` selects the key)
    KeyFlags(usize, u16),
    KeyProtocol(usize, u8),
    KeyAlg(usize, u8),
    KeyBit(usize, usize),
    KeyOwnerCase(u64),
    KeyOwnerOctet(usize, usize, u8),
    KeyTtl(usize, u32),
    KeyClass(usize, u16),
    KeyAddUnrelated(u16),
    KeyRemove(usize),
    KeySigBit(usize),
    KeySigRemove,
    KeyResponseError,
    // any bit of the answer section of either response
    TargetMsgBit(usize),
    KeyMsgBit(usize),
}

fn mask16() -> impl Strategy<Value = u16> {
    prop_oneof![2 => (0u32..16).prop_map(|b| 1u16 << b), 1 => 1u16..=u16::MAX]
}
fn mask32() -> impl Strategy<Value = u32> {
    prop_oneof![2 => (0u32..32).prop_map(|b| 1u32 << b), 1 => 1u32..=u32::MAX]
}
fn mask8() -> impl Strategy<Value = u8> {
    prop_oneof![2 => (0u32..8).prop_map(|b| 1u8 << b), 1 => 1u8..=u8::MAX]
}

fn edit() -> impl Strategy<Value = Edit> {
    prop_oneof![3 => target_edit(), 1 => key_edit()]
}

fn target_edit() -> impl Strategy<Value = Edit> {
    let u = || any::<usize>();
    prop_oneof![
        2 => any::<u64>().prop_map(Edit::RecOwnerCase),
        2 => (u(), any::<u8>()).prop_map(|(i, b)| Edit::RecOwnerOctet(i, b)),
        2 => (u(), any::<u8>()).prop_map(|(i, b)| Edit::AllOwnerOctet(i, b)),
        2 => (u(), mask16()).prop_map(|(i, m)| Edit::RecClass(i, m)),
        2 => (u(), mask16()).prop_map(|(i, m)| Edit::RecType(i, m)),
        2 => (u(), prop_oneof![0u32..100, any::<u32>()]).prop_map(|(i, t)| Edit::RecTtl(i, t)),
        6 => (u(), u()).prop_map(|(i, b)| Edit::RecRdataBit(i, b)),
        2 => any::<u8>().prop_map(Edit::RecAdd),
        2 => (any::<u8>(), prop::sample::select(vec![3u16, 4, 254, 255]), any::<bool>()).prop_map(|(x, c, copy)| Edit::RecAddClass(x, c, copy)),
        2 => u().prop_map(Edit::RecRemove),
        1 => u().prop_map(Edit::RecDup),
        1 => Just(Edit::RecReverse),
        2 => mask16().prop_map(Edit::SigTypeCovered),
        2 => mask8().prop_map(Edit::SigAlg),
        2 => mask8().prop_map(Edit::SigLabels),
        3 => mask32().prop_map(Edit::SigOrigTtl),
        4 => mask32().prop_map(Edit::SigExpiration),
        4 => mask32().prop_map(Edit::SigInception),
        2 => mask16().prop_map(Edit::SigKeyTag),
        2 => any::<u64>().prop_map(Edit::SigSignerCase),
        2 => (u(), any::<u8>()).prop_map(|(i, b)| Edit::SigSignerOctet(i, b)),
        6 => u().prop_map(Edit::SigBit),
        1 => u().prop_map(Edit::SigTruncate),
        1 => any::<u8>().prop_map(Edit::SigExtend),
        1 => any::<u64>().prop_map(Edit::SigOwnerCase),
        1 => mask16().prop_map(Edit::SigClass),
        1 => any::<u32>().prop_map(Edit::SigTtl),
        1 => Just(Edit::SigRemove),
        1 => Just(Edit::SigDup),
        1 => Just(Edit::SigGarbageFirst),
        6 => u().prop_map(Edit::TargetMsgBit),
    ]
}

fn key_edit() -> impl Strategy<Value = Edit> {
    let u = || any::<usize>();
    prop_oneof![
        4 => (u(), mask16()).prop_map(|(k, m)| Edit::KeyFlags(k, m)),
        1 => (u(), mask8()).prop_map(|(k, m)| Edit::KeyProtocol(k, m)),
        2 => (u(), mask8()).prop_map(|(k, m)| Edit::KeyAlg(k, m)),
        4 => (u(), u()).prop_map(|(k, b)| Edit::KeyBit(k, b)),
        1 => any::<u64>().prop_map(Edit::KeyOwnerCase),
        1 => (u(), u(), any::<u8>()).prop_map(|(k, i, b)| Edit::KeyOwnerOctet(k, i, b)),
        1 => (u(), any::<u32>()).prop_map(|(k, t)| Edit::KeyTtl(k, t)),
        1 => (u(), mask16()).prop_map(|(k, m)| Edit::KeyClass(k, m)),
        2 => any::<u16>().prop_map(Edit::KeyAddUnrelated),
        2 => u().prop_map(Edit::KeyRemove),
        2 => u().prop_map(Edit::KeySigBit),
        1 => Just(Edit::KeySigRemove),
        1 => Just(Edit::KeyResponseError),
        4 => u().prop_map(Edit::KeyMsgBit),
    ]
}

fn set_octet(labels: &[Vec<u8>], i: usize, b: u8) -> Vec<Vec<u8>> {
    names::apply_rel(labels, &Rel::SetOctet(i, b))
}
fn flip_case(labels: &[Vec<u8>], mask: u64) -> Vec<Vec<u8>> {
    names::apply_rel(labels, &Rel::CaseFlip(mask))
}

struct Served {
    target: Vec<RawRr>,
    keys: Option<Vec<RawRr>>,
    target_bit: Option<usize>,
    key_bit: Option<usize>,
}

fn xor_at(rd: &mut [u8], at: usize, mask: &[u8]) {
    for (i, m) in mask.iter().enumerate() {
        rd[at + i] ^= m;
    }
}

/// position of the signer name inside RRSIG RDATA is 18; returns (signer labels, length of the
/// name on the wire)
fn sig_signer(rd: &[u8]) -> (Vec<Vec<u8>>, usize) {
    let (l, end) = w::read_name(rd, 18).expect("own RRSIG RDATA");
    (l, end - 18)
}

fn apply(g: &Genuine, e: &Edit) -> Served {
    let mut t = g.target.clone();
    let mut k = g.keys.clone();
    let n = t.len() - 1; // members
    let nk = k.len() - 1; // keys
    let mut s = Served {
        target: vec![],
        keys: None,
        target_bit: None,
        key_bit: None,
    };
    let mut drop_keys = false;
    match e {
        Edit::None => {}
        Edit::RecOwnerCase(m) => {
            for r in t[..n].iter_mut() {
                r.owner = MName::fq(flip_case(&r.owner.labels, *m));
            }
        }
        Edit::RecOwnerOctet(i, b) => {
            for r in t[..n].iter_mut() {
                r.owner = MName::fq(set_octet(&r.owner.labels, *i, *b));
            }
        }
        Edit::AllOwnerOctet(i, b) => {
            for r in t.iter_mut() {
                r.owner = MName::fq(set_octet(&r.owner.labels, *i, *b));
            }
        }
        Edit::RecClass(i, m) => t[i % n].class ^= m,
        Edit::RecType(i, m) => t[i % n].rtype ^= m,
        Edit::RecTtl(i, v) => t[i % n].ttl = *v,
        Edit::RecRdataBit(i, b) => {
            let rd = &mut t[i % n].rdata;
            let b = b % (rd.len() * 8);
            rd[b / 8] ^= 0x80 >> (b % 8);
        }
        Edit::RecAdd(x) => {
            let mut r = t[0].clone();
            let added = MName::fq(vec![b"added".to_vec(), vec![b'a' + (*x % 26)]]);
            r.rdata = match r.rtype {
                w::T_A => MRdata::A(vec![192, 0, 2, *x]),
                w::T_AAAA => MRdata::Aaaa(vec![*x; 16]),
                w::T_TXT => MRdata::Txt(vec![vec![b'+', *x]]),
                w::T_NS => MRdata::Ns(added),
                _ => MRdata::Mx { pref: *x as u16, exchange: added },
            }
            .raw();
            t.insert(n, r);
        }
        Edit::RecAddClass(x, class, copy) => {
            let mut r = t[*x as usize % n].clone();
            if !*copy {
                r.rdata = match r.rtype {
                    w::T_A => MRdata::A(vec![203, 0, 113, *x]),
                    w::T_AAAA => MRdata::Aaaa(vec![*x; 16]),
                    w::T_TXT => MRdata::Txt(vec![vec![b'c', *x]]),
                    w::T_NS => MRdata::Ns(MName::fq(vec![b"otherclass".to_vec()])),
                    _ => MRdata::Mx { pref: *x as u16, exchange: MName::fq(vec![b"otherclass".to_vec()]) },
                }
                .raw();
            }
            r.class = *class;
            t.insert(1 + (*x as usize / 7) % n, r);
        }
        Edit::RecRemove(i) => {
            t.remove(i % n);
        }
        Edit::RecDup(i) => {
            let r = t[i % n].clone();
            t.insert(0, r);
        }
        Edit::RecReverse => t[..n].reverse(),
        Edit::SigTypeCovered(m) => xor_at(&mut t[n].rdata, 0, &m.to_be_bytes()),
        Edit::SigAlg(m) => xor_at(&mut t[n].rdata, 2, &[*m]),
        Edit::SigLabels(m) => xor_at(&mut t[n].rdata, 3, &[*m]),
        Edit::SigOrigTtl(m) => xor_at(&mut t[n].rdata, 4, &m.to_be_bytes()),
        Edit::SigExpiration(m) => xor_at(&mut t[n].rdata, 8, &m.to_be_bytes()),
        Edit::SigInception(m) => xor_at(&mut t[n].rdata, 12, &m.to_be_bytes()),
        Edit::SigKeyTag(m) => xor_at(&mut t[n].rdata, 16, &m.to_be_bytes()),
        Edit::SigSignerCase(_) | Edit::SigSignerOctet(..) => {
            let rd = t[n].rdata.clone();
            let (labels, len) = sig_signer(&rd);
            let new = match e {
                Edit::SigSignerCase(m) => flip_case(&labels, *m),
                Edit::SigSignerOctet(i, b) => set_octet(&labels, *i, *b),
                _ => unreachable!(),
            };
            let mut out = rd[..18].to_vec();
            w::put_name(&mut out, &new, false);
            out.extend_from_slice(&rd[18 + len..]);
            t[n].rdata = out;
        }
        Edit::SigBit(b) => {
            let rd = &mut t[n].rdata;
            let (_, len) = sig_signer(rd);
            let start = 18 + len;
            let b = b % ((rd.len() - start) * 8);
            rd[start + b / 8] ^= 0x80 >> (b % 8);
        }
        Edit::SigTruncate(c) => {
            let rd = &mut t[n].rdata;
            let (_, len) = sig_signer(rd);
            let siglen = rd.len() - 18 - len;
            let cut = 1 + c % siglen;
            rd.truncate(rd.len() - cut);
        }
        Edit::SigExtend(b) => t[n].rdata.push(*b),
        Edit::SigOwnerCase(m) => t[n].owner = MName::fq(flip_case(&t[n].owner.labels, *m)),
        Edit::SigClass(m) => t[n].class ^= m,
        Edit::SigTtl(v) => t[n].ttl = *v,
        Edit::SigRemove => {
            t.pop();
        }
        Edit::SigDup => {
            let r = t[n].clone();
            t.push(r);
        }
        Edit::SigGarbageFirst => {
            let mut r = t[n].clone();
            let last = r.rdata.len() - 1;
            r.rdata[last] ^= 0x55;
            t.insert(n, r);
        }
        Edit::KeyFlags(i, m) => xor_at(&mut k[i % nk].rdata, 0, &m.to_be_bytes()),
        Edit::KeyProtocol(i, m) => xor_at(&mut k[i % nk].rdata, 2, &[*m]),
        Edit::KeyAlg(i, m) => xor_at(&mut k[i % nk].rdata, 3, &[*m]),
        Edit::KeyBit(i, b) => {
            let rd = &mut k[i % nk].rdata;
            let b = b % ((rd.len() - 4) * 8);
            rd[4 + b / 8] ^= 0x80 >> (b % 8);
        }
        Edit::KeyOwnerCase(m) => {
            for r in k.iter_mut() {
                r.owner = MName::fq(flip_case(&r.owner.labels, *m));
            }
        }
        Edit::KeyOwnerOctet(i, o, b) => {
            let r = &mut k[i % nk];
            if r.owner.labels.is_empty() {
                r.owner = MName::fq(vec![vec![*b | 1]]);
            } else {
                r.owner = MName::fq(set_octet(&r.owner.labels, *o, *b));
            }
        }
        Edit::KeyTtl(i, v) => k[i % nk].ttl = *v,
        Edit::KeyClass(i, m) => k[i % nk].class ^= m,
        Edit::KeyAddUnrelated(seed) => {
            let other = RefKey::ed25519_from_seed(&tbs_ref::seed32(0x2_0000 + *seed as u64));
            let mut r = k[0].clone();
            r.rdata = tbs_ref::dnskey_rdata(256, 3, tbs_ref::ALG_ED25519, &other.dns_public_key());
            k.insert(nk, r);
        }
        Edit::KeyRemove(i) => {
            k.remove(i % nk);
        }
        Edit::KeySigBit(b) => {
            let rd = &mut k[nk].rdata;
            let (_, len) = sig_signer(rd);
            let start = 18 + len;
            let b = b % ((rd.len() - start) * 8);
            rd[start + b / 8] ^= 0x80 >> (b % 8);
        }
        Edit::KeySigRemove => {
            k.pop();
        }
        Edit::KeyResponseError => drop_keys = true,
        Edit::TargetMsgBit(b) => s.target_bit = Some(*b),
        Edit::KeyMsgBit(b) => s.key_bit = Some(*b),
    }
    s.target = t;
    s.keys = if drop_keys { None } else { Some(k) };
    s
}

fn edit_family(e: &Edit) -> &'static str {
    match e {
        Edit::None => "genuine",
        Edit::RecOwnerCase(_) | Edit::RecTtl(..) | Edit::SigTtl(_) | Edit::SigOwnerCase(_) | Edit::SigSignerCase(_) | Edit::KeyOwnerCase(_) | Edit::KeyTtl(..) | Edit::RecReverse => {
            "edit:unsigned-octets(case/ttl/order)"
        }
        Edit::RecOwnerOctet(..) | Edit::AllOwnerOctet(..) => "edit:owner",
        Edit::RecClass(..) | Edit::RecType(..) => "edit:record-class/type",
        Edit::RecRdataBit(..) => "edit:rdata-bit",
        Edit::RecAdd(_) | Edit::RecRemove(_) | Edit::RecDup(_) => "edit:add/remove/duplicate-rr",
        Edit::RecAddClass(..) => "edit:add-rr-of-other-class",
        Edit::SigTypeCovered(_) | Edit::SigAlg(_) | Edit::SigLabels(_) | Edit::SigOrigTtl(_) | Edit::SigKeyTag(_) | Edit::SigSignerOctet(..) | Edit::SigClass(_) => "edit:rrsig-field",
        Edit::SigExpiration(_) | Edit::SigInception(_) => "edit:rrsig-times",
        Edit::SigBit(_) | Edit::SigTruncate(_) | Edit::SigExtend(_) => "edit:signature-octets",
        Edit::SigRemove | Edit::SigDup | Edit::SigGarbageFirst => "edit:rrsig-count",
        Edit::KeyFlags(..) | Edit::KeyProtocol(..) | Edit::KeyAlg(..) | Edit::KeyClass(..) => "edit:dnskey-field",
        Edit::KeyBit(..) => "edit:dnskey-key-bit",
        Edit::KeyOwnerOctet(..) => "edit:dnskey-owner",
        Edit::KeyAddUnrelated(_) | Edit::KeyRemove(_) => "edit:dnskey-add/remove",
        Edit::KeySigBit(_) | Edit::KeySigRemove | Edit::KeyResponseError => "edit:dnskey-rrsig/response",
        Edit::TargetMsgBit(_) => "edit:answer-message-bit",
        Edit::KeyMsgBit(_) => "edit:dnskey-message-bit",
    }
}

// ---------------------------------------------------------------------------------------------
// scripted upstream

#[derive(Default)]
struct UpState {
    zone: Vec<Vec<u8>>,
    owner: Vec<Vec<u8>>,
    rtype: u16,
    target_msg: Vec<u8>,
    key_msg: Option<Vec<u8>>,
    /// (name, type) of every query received
    log: Vec<(String, u16)>,
}

#[derive(Clone)]
struct Upstream(Arc<Mutex<UpState>>);

impl DnsHandle for Upstream {
    type Response = stream::Once<future::Ready<Result<DnsResponse, NetError>>>;
    type Runtime = SimRt;

    fn send(&self, request: DnsRequest) -> Self::Response {
        let mut st = self.0.lock().unwrap();
        let res = match request.queries.first() {
            None => Err(NetError::from("no question")),
            Some(q) => {
                let qn: Vec<Vec<u8>> = q.name.iter().map(|l| l.to_vec()).collect();
                let qt = u16::from(q.query_type);
                st.log.push((canon::show(&qn), qt));
                let bytes = if qt == T_DNSKEY && canon::name_eq(&qn, &st.zone) {
                    st.key_msg.clone()
                } else if qt == st.rtype && canon::name_eq(&qn, &st.owner) {
                    Some(st.target_msg.clone())
                } else {
                    None
                };
                match bytes {
                    // what a client connection does with the datagram it received
                    Some(b) => DnsResponse::from_buffer(b).map_err(NetError::from),
                    None => Err(NetError::from("scripted upstream: no data for this question (SERVFAIL)")),
                }
            }
        };
        stream::once(future::ready(res))
    }
}

fn flip_answer_bit(msg: &mut [u8], start: usize, bit: usize) {
    let span = msg.len() - start;
    if span == 0 {
        return;
    }
    let b = bit % (span * 8);
    msg[start + b / 8] ^= 0x80 >> (b % 8);
}

// ---------------------------------------------------------------------------------------------
// histories

#[derive(Clone, Debug, Serialize, Deserialize)]
enum Delta {
    Secs(u32),
    /// move the clock to inception + k (if that lies ahead)
    ToInception(i8),
    /// move the clock to expiration + k (if that lies ahead)
    ToExpiration(i8),
    /// served TTL + k seconds
    Ttl(i8),
    /// DNSKEY TTL + k seconds
    KeyTtl(i8),
}

fn delta() -> impl Strategy<Value = Delta> {
    prop_oneof![
        2 => Just(Delta::Secs(0)),
        2 => Just(Delta::Secs(1)),
        2 => (2u32..600).prop_map(Delta::Secs),
        1 => (600u32..200_000).prop_map(Delta::Secs),
        2 => (-1i8..=1).prop_map(Delta::ToInception),
        6 => (-1i8..=2).prop_map(Delta::ToExpiration),
        3 => (-1i8..=1).prop_map(Delta::Ttl),
        1 => (-1i8..=1).prop_map(Delta::KeyTtl),
    ]
}

#[derive(Clone, Debug, Serialize, Deserialize)]
struct Step {
    advance: Delta,
    edit: Edit,
}

#[derive(Clone, Debug, Serialize, Deserialize)]
struct Case {
    scenario: Scenario,
    /// edit of the DNSKEY response in force during the whole history (so that a cached DNSKEY
    /// verdict always refers to what the upstream still serves)
    #[serde(default = "no_edit")]
    key_edit: Edit,
    steps: Vec<Step>,
}

fn no_edit() -> Edit {
    Edit::None
}

fn single_case() -> impl Strategy<Value = Case> {
    (scenario(), prop_oneof![1 => Just(Edit::None), 5 => edit()]).prop_map(|(scenario, edit)| Case {
        scenario,
        key_edit: Edit::None,
        steps: vec![Step {
            advance: Delta::Secs(0),
            edit,
        }],
    })
}

fn history_case(tier: Tier) -> impl Strategy<Value = Case> {
    let max = tier.pick(6, 9) as usize;
    // histories revisit few distinct variants so that cached verdicts are hit
    (
        scenario(),
        prop_oneof![4 => Just(Edit::None), 1 => key_edit()],
        vec(target_edit(), 0..=2),
        vec((delta(), 0usize..4), 2..=max),
    )
        .prop_map(|(mut scenario, key_edit, edits, steps)| {
            // a history is only interesting while the window is still ahead or open: signatures
            // that are already expired at the start get their window moved forward
            if scenario.exp_off < 0 {
                let len = (scenario.exp_off - scenario.inc_off).clamp(0, 1 << 30);
                scenario.exp_off = scenario.exp_off.rem_euclid(5_000);
                scenario.inc_off = scenario.exp_off - len;
            }
            if scenario.kexp_off < 0 {
                let len = (scenario.kexp_off - scenario.kinc_off).clamp(0, 1 << 30);
                scenario.kexp_off = scenario.kexp_off.rem_euclid(5_000);
                scenario.kinc_off = scenario.kexp_off - len;
            }
            Case {
        scenario,
        key_edit,
        steps: steps
            .into_iter()
            .map(|(advance, sel)| Step {
                advance,
                edit: if sel >= 2 && sel - 2 < edits.len() { edits[sel - 2].clone() } else { Edit::None },
            })
            .collect(),
            }
        })
}

fn secure_records(res: &Result<DnsResponse, NetError>) -> (Vec<Record>, &'static str) {
    match res {
        Ok(r) => (r.answers.clone(), "ok"),
        Err(NetError::Dns(DnsError::Nsec { response, .. })) => (response.answers.clone(), "nsec-error"),
        Err(_) => (vec![], "error"),
    }
}

/// What the validation cache key sees of one RRset of a response: owner and embedded names
/// case-folded, TTLs left out; members and the RRSIGs covering them (order-insensitive here).
fn cache_view(msg: &[u8], owner: &[Vec<u8>], rtype: u16) -> Option<u64> {
    let rrs = w::parse_answers(msg)?;
    let mut parts: Vec<Vec<u8>> = Vec::new();
    for r in rrs.iter().filter(|r| canon::name_eq(&r.owner, owner)) {
        let rd = &msg[r.rdata_at..r.rdata_at + r.rdlen];
        let mut p = Vec::new();
        if r.rtype == rtype {
            p.push(0);
            p.extend_from_slice(&r.class.to_be_bytes());
            p.extend(w::canonical_from_wire(msg, r).unwrap_or_else(|| rd.to_vec()));
        } else if r.rtype == T_RRSIG && rd.len() >= 19 && u16::from_be_bytes([rd[0], rd[1]]) == rtype {
            p.push(1);
            p.extend_from_slice(&r.class.to_be_bytes());
            p.extend_from_slice(&rd[..18]);
            match w::read_name(msg, r.rdata_at + 18) {
                Some((signer, end)) if end <= r.rdata_at + r.rdlen => {
                    w::put_name(&mut p, &signer, true);
                    p.extend_from_slice(&msg[end..r.rdata_at + r.rdlen]);
                }
                _ => p.extend_from_slice(&rd[18..]),
            }
        } else {
            continue;
        }
        parts.push(p);
    }
    parts.sort();
    let refs: Vec<&[u8]> = parts.iter().map(|p| p.as_slice()).collect();
    Some(crate::core::fixed_hash(&refs))
}

fn describe(s: &Scenario, g: &Genuine) -> String {
    format!(
        "{} type {} x{} ttl {} zone {} signer {:?} flags {} ksk {:?} window [now0{:+}, now0{:+}] now0 {}",
        g.owner.show(),
        g.rtype,
        s.rdatas.len(),
        s.ttl,
        s.zone.show(),
        s.signer,
        s.signer_flags,
        s.ksk,
        s.inc_off,
        s.exp_off,
        s.now0
    )
}

fn run(c: &Case, rec: &mut Rec) -> CaseResult {
    let s = &c.scenario;
    let g = build(s);
    let _clock = clock::VirtualClock::start(s.now0);
    let up = Upstream(Arc::new(Mutex::new(UpState {
        zone: s.zone.labels.clone(),
        owner: g.owner.labels.clone(),
        rtype: g.rtype,
        ..Default::default()
    })));
    let mut anchors = TrustAnchors::empty();
    anchors.insert(&PublicKeyBuf::new(g.anchor.key.clone(), Algorithm::from_u8(g.anchor.alg)));
    let mut handle = DnssecDnsHandle::with_trust_anchor(up.clone(), Arc::new(anchors));
    if let Some((lo, hi)) = s.cache_bounds {
        rec.class("validator:validation-cache-ttl-bounds-configured");
        let range = Duration::from_secs(lo as u64)..=Duration::from_secs(hi as u64);
        handle = handle.positive_validation_ttl(range.clone()).negative_validation_ttl(range);
    }
    let query = Query::new(g.owner.to_name(), RecordType::from(g.rtype));

    // what hickory can be expected to complete: genuine data, usable key, and a key layout its
    // DNSKEY handling supports without a DS chain (anchor-only RRset, or the root zone)
    // (hickory tries at most MAX_KEY_TAG_COLLISIONS = 2 keys per key tag — a deliberate KeyTrap
    // limit — so more than one colliding sibling may legitimately hide the signer)
    let layout_supported = (s.ksk.is_none() && s.colliders == 0) || (s.zone.labels.is_empty() && s.colliders <= 1);
    let key_usable = s.signer_flags & 0x0100 != 0 && s.signer_flags & 0x0080 == 0;
    rec.class(format!("alg:{}", s.signer.alg()));
    rec.class(if s.ksk_revoked { "keys:revoked-ksk+zsk" } else if s.ksk.is_some() { "keys:ksk+zsk" } else { "keys:csk" });
    if s.colliders > 0 {
        rec.class("keys:tag-collisions");
    }
    if !key_usable {
        rec.class("signer-key:revoked-or-not-zone-key(genuinely-signed)");
    }
    if s.wildcard {
        rec.class("genuine:wildcard-expanded");
    }

    // content hash -> (virtual nanos of the first validation, ttl hickory returned then)
    // what the validation cache can hold: cache view of an RRset -> (virtual nanos, TTL returned)
    // of every earlier step at which hickory and the reference both said Secure
    let mut seen_rrsets: HashMap<u64, Vec<(u64, u32)>> = HashMap::new();
    // cache view of the DNSKEY RRset -> virtual nanos at which it first served a Secure verdict
    let mut seen_keys: HashMap<u64, u64> = HashMap::new();
    let mut any_nt = false;
    let mut trace: Vec<String> = Vec::new();
    for (i, step) in c.steps.iter().enumerate() {
        // ---- clock: wall and monotonic move together
        let now64 = clock::virtual_unix_secs();
        let now32 = now64 as u32;
        let ahead = |target: u32| {
            let d = target.wrapping_sub(now32);
            if d < (1 << 31) {
                d as u64
            } else {
                0
            }
        };
        let adv = match &step.advance {
            Delta::Secs(d) => *d as u64,
            Delta::ToInception(k) => ahead(g.sig.inception.wrapping_add(*k as i32 as u32)),
            Delta::ToExpiration(k) => ahead(g.sig.expiration.wrapping_add(*k as i32 as u32)),
            Delta::Ttl(k) => (s.ttl as i64 + *k as i64).max(0) as u64,
            Delta::KeyTtl(k) => (s.dnskey_ttl as i64 + *k as i64).max(0) as u64,
        };
        // keep the virtual nanosecond counter far from u64 overflow
        let adv = adv.min((1u64 << 33).saturating_sub(clock::virtual_nanos() / 1_000_000_000));
        clock::advance_virtual(Duration::from_secs(adv));
        let now = clock::virtual_unix_secs() as u32;
        let elapsed = clock::virtual_nanos() / 1_000_000_000;

        // ---- what the upstream serves now
        let mut served = apply(&g, &step.edit);
        if c.key_edit != Edit::None {
            let k = apply(&g, &c.key_edit);
            served.keys = k.keys;
            served.key_bit = k.key_bit;
        }
        if s.upstream_ages_ttl {
            let age = |ttl: u32| if ttl == 0 { 0 } else { ttl - (elapsed % (ttl as u64 + 1)) as u32 };
            for r in served.target.iter_mut() {
                r.ttl = age(r.ttl);
            }
            if let Some(k) = served.keys.as_mut() {
                for r in k.iter_mut() {
                    r.ttl = age(r.ttl);
                }
            }
        }
        let (mut tmsg, tstart) = w::response_message(0x1234, &g.owner.labels, g.rtype, &served.target);
        if let Some(b) = served.target_bit {
            flip_answer_bit(&mut tmsg, tstart, b);
        }
        let kmsg = served.keys.as_ref().map(|k| {
            let (mut m, start) = w::response_message(0x4321, &s.zone.labels, T_DNSKEY, k);
            if let Some(b) = served.key_bit {
                flip_answer_bit(&mut m, start, b);
            }
            m
        });
        {
            let mut st = up.0.lock().unwrap();
            st.target_msg = tmsg.clone();
            st.key_msg = kmsg.clone();
            st.log.clear();
        }

        // ---- the validator
        let res = match crate::core::catch(|| {
            futures_executor::block_on(handle.lookup(query.clone(), DnsRequestOptions::default()).first_answer())
        }) {
            Ok(r) => r,
            Err(p) => {
                // one recognised cause: an RRSIG covering DNSKEY arrives without any DNSKEY RR of
                // that owner, `verify_dnskey_rrset` then pops from an empty proof list
                let orphan = |msg: &[u8]| {
                    w::parse_answers(msg).is_some_and(|rrs| {
                        rrs.iter().any(|r| {
                            r.rtype == T_RRSIG
                                && r.rdlen >= 2
                                && u16::from_be_bytes([msg[r.rdata_at], msg[r.rdata_at + 1]]) == T_DNSKEY
                                && !rrs.iter().any(|k| k.rtype == T_DNSKEY && canon::name_eq(&k.owner, &r.owner))
                        })
                    })
                };
                if p.1.contains("dnssec/mod.rs") && p.0.contains("Option::unwrap()") && (orphan(&tmsg) || kmsg.as_deref().is_some_and(orphan)) {
                    vfail!(
                        "panic-on-rrsig-covering-dnskey-without-dnskey-rr",
                        "step {i} {:?} {}: validator panicked at {}: {} — the response holds an RRSIG with Type Covered = DNSKEY but no DNSKEY RR of that owner",
                        step.edit,
                        describe(s, &g),
                        p.1,
                        p.0
                    );
                }
                return Err(crate::core::panic_fail(&p));
            }
        };
        let (records, outcome) = secure_records(&res);

        // ---- the reference
        let reference = Reference::new(&tmsg, kmsg.as_deref(), &s.zone.labels, std::slice::from_ref(&g.anchor), now);
        let main = reference.rrset(&tmsg, &g.owner.labels, g.rtype, now, true);
        let main_notime = reference.rrset(&tmsg, &g.owner.labels, g.rtype, now, false);
        let win = tbs_ref::in_window(g.sig.inception, g.sig.expiration, now);
        let edge = [g.sig.inception, g.sig.expiration]
            .iter()
            .any(|e| [0u32, 1, u32::MAX].iter().any(|d| now == e.wrapping_add(*d)));
        let main_view = cache_view(&tmsg, &g.owner.labels, g.rtype);
        let main_repeat = main_view.is_some_and(|h| seen_rrsets.contains_key(&h));
        let key_view = kmsg.as_deref().and_then(|m| cache_view(m, &s.zone.labels, T_DNSKEY));
        let key_repeat = key_view.and_then(|h| seen_keys.get(&h).copied());

        let mut step_secure = false;
        let mut secure_ttl = 0u32;
        let mut newly_seen: Vec<(u64, u32)> = Vec::new();
        for r in &records {
            if r.proof != Proof::Secure {
                continue;
            }
            let owner: Vec<Vec<u8>> = r.name.iter().map(|l| l.to_vec()).collect();
            let rtype = match &r.data {
                RData::DNSSEC(DNSSECRData::RRSIG(sig)) => u16::from(sig.input().type_covered),
                _ => u16::from(r.record_type()),
            };
            let v = reference.rrset(&tmsg, &owner, rtype, now, true);
            let view = cache_view(&tmsg, &owner, rtype);
            let earlier: Vec<(u64, u32)> = view.and_then(|h| seen_rrsets.get(&h).cloned()).unwrap_or_default();
            let what = format!(
                "step {i} (+{adv}s, now {now}, {:?}) {}: {} type {rtype} returned Secure with TTL {}",
                step.edit,
                describe(s, &g),
                canon::show(&owner),
                r.ttl
            );
            match v.verdict {
                Verdict::Undefined => rec.class("secure-at-rfc1982-undefined-distance"),
                Verdict::NotSecure => {
                    let notime = reference.rrset(&tmsg, &owner, rtype, now, false);
                    if notime.verdict == Verdict::Secure {
                        // only the clock speaks against it: the RRset's own RRSIG window, or the
                        // window of the RRSIG over the DNSKEY RRset (cached DNSKEY verdict)
                        let own = reference.rrset2(&tmsg, &owner, rtype, now, true, false);
                        let own_window_ok = own.verdict == Verdict::Secure;
                        // The RRset's own signature is inside its window; what has run out is the
                        // signature over the DNSKEY RRset. A verdict on *this* RRset that was
                        // established while the whole chain was valid may be served until the TTL
                        // authenticated then has run down (RFC 4035 5.3.3 bounds it by the RRset's own
                        // RRSIG only; the DNSKEY RRset has a verdict and a lifetime of its own).
                        let now_ns = clock::virtual_nanos();
                        if own_window_ok && earlier.iter().any(|(t0, ttl0)| (now_ns - t0) / 1_000_000_000 <= *ttl0 as u64) {
                            rec.class("secure-from-cached-verdict-after-dnskey-signature-expired");
                            let bound = own.max_ttl.unwrap_or(0);
                            vensure!(r.ttl <= bound, "cached-ttl-exceeds-remaining-signature-lifetime", "{what}, bound min(OrigTTL, expiration-now) = {bound} (verdict served from the validation cache)");
                            continue;
                        }
                        let cached_at = if own_window_ok { key_repeat.or(earlier.first().map(|e| e.0)) } else { earlier.first().map(|e| e.0) };
                        if let Some(t0) = cached_at {
                            let age = (clock::virtual_nanos() - t0) / 1_000_000_000;
                            vfail!(
                                "cached-verdict-outlives-signature-window",
                                "{what}; reference: {} — the same response was validated {age}s earlier inside the window, the verdict was cached for the record TTL, not for min(TTL, remaining signature lifetime)",
                                v.why
                            );
                        }
                        vfail!("secure-outside-validity-window", "{what}; reference: {} (inception {} expiration {})", v.why, g.sig.inception, g.sig.expiration);
                    }
                    vfail!("secure-but-reference-rejects", "{what}; reference: {}", v.why);
                }
                Verdict::Secure => {
                    // RFC 4035 §5.3.3 / the property: TTL <= min(Original TTL, expiration - now)
                    let bound = v.max_ttl.unwrap_or(0);
                    if r.ttl > bound {
                        // the very TTL value handed out for the same content at an earlier step
                        if let Some((t0, _)) = earlier.iter().rev().find(|(_, ttl0)| *ttl0 == r.ttl) {
                            let age = (clock::virtual_nanos() - t0) / 1_000_000_000;
                            vfail!(
                                "cached-ttl-exceeds-remaining-signature-lifetime",
                                "{what}, bound min(OrigTTL, expiration-now) = {bound}; the TTL computed {age}s earlier is served from the validation cache unchanged"
                            );
                        }
                        vfail!("ttl-exceeds-signature-lifetime-or-original-ttl", "{what}, bound min(OrigTTL, expiration-now) = {bound}");
                    }
                    if let Some(h) = view {
                        newly_seen.push((h, r.ttl));
                    }
                    if rtype == g.rtype && canon::name_eq(&owner, &g.owner.labels) {
                        step_secure = true;
                        secure_ttl = secure_ttl.max(r.ttl);
                    }
                }
            }
        }

        // ---- completeness: the genuine response, first seen by a fresh validator, inside the
        // window, with a usable key in a supported layout
        // (and the RRSIG over the DNSKEY RRset valid, so that the key set itself is authenticated)
        let key_window_ok = tbs_ref::in_window(off(s.now0, s.kinc_off), off(s.now0, s.kexp_off), now) == Window::Inside;
        if i == 0 && step.edit == Edit::None && c.key_edit == Edit::None && layout_supported && key_window_ok && !s.wildcard && main.verdict == Verdict::Secure {
            rec.class("completeness-asserted");
            vensure!(
                step_secure && outcome == "ok",
                "genuine-response-not-secure",
                "step 0 {}: reference says Secure (TTL bound {:?}) but hickory returned {outcome} {:?}; upstream saw {:?}",
                describe(s, &g),
                main.max_ttl,
                res.as_ref().map(|r| r.answers.iter().map(|a| (a.record_type(), a.proof, a.ttl)).collect::<Vec<_>>()).map_err(|e| e.to_string()),
                up.0.lock().unwrap().log
            );
        }
        for (h, ttl) in newly_seen {
            seen_rrsets.entry(h).or_default().push((clock::virtual_nanos(), ttl));
        }
        // the DNSKEY RRset was fetched and is valid now: its Secure verdict may sit in the cache
        let fetched_keys = up.0.lock().unwrap().log.iter().any(|(_, t)| *t == T_DNSKEY);
        if (fetched_keys && reference.key_set_trusted()) || (step_secure && main.verdict == Verdict::Secure) {
            if let Some(h) = key_view {
                seen_keys.entry(h).or_insert(clock::virtual_nanos());
            }
        }

        // ---- accounting
        let fam = edit_family(&step.edit);
        if c.steps.len() == 1 {
            rec.class(fam);
            rec.class(format!(
                "clock:{}",
                match (win, edge) {
                    (_, true) => "within-1s-of-window-edge",
                    (Window::Inside, _) => "inside",
                    (Window::Outside, _) => "outside",
                    (Window::Undefined, _) => "rfc1982-undefined",
                }
            ));
            if s.now0 as u32 > now || g.sig.inception > g.sig.expiration {
                rec.class("u32-wrap-involved");
            }
        }
        let verdict_class = match (main.verdict, step_secure) {
            (Verdict::Secure, true) => "ref-secure/hickory-secure",
            (Verdict::Secure, false) => "ref-secure/hickory-not-secure",
            (Verdict::Undefined, _) => "ref-undefined",
            (Verdict::NotSecure, _) if main_notime.verdict == Verdict::Secure => "ref-rejects:time-only",
            (Verdict::NotSecure, _) => "ref-rejects:content",
        };
        rec.class(format!("verdict:{verdict_class}"));
        if step.edit != Edit::None && main.verdict == Verdict::Secure {
            rec.class("edit-leaves-signed-octets-intact(stays-secure)");
        }
        if s.foreign_owner.is_some() && step_secure {
            rec.count("secure-although-signer-is-not-an-ancestor-of-the-owner(RFC4035-5.3.1-bullet-2,outside-property-text)", 1);
        }
        if main_repeat {
            rec.class("step:repeat-of-validated-content(cache-hit-candidate)");
        }
        rec.count("validations", 1);
        // NT rule of DESIGN §7 C06
        let differs_in_signed_bit = step.edit != Edit::None && main_notime.verdict != Verdict::Secure;
        if differs_in_signed_bit || edge || main_repeat {
            any_nt = true;
        }
        trace.push(format!("+{adv}s {:?} -> ref {:?}/{} hickory {}{}", step.edit, main.verdict, main.why, outcome, if step_secure { format!(" Secure ttl {secure_ttl}") } else { String::new() }));
    }
    if any_nt {
        rec.nontrivial();
        if rec.wants_note() {
            rec.note(format!("{} :: {}", describe(s, &g), trace.join(" ; ")));
        }
    }
    Ok(())
}

// ---------------------------------------------------------------------------------------------
// small-scope sweep: every bit of both answer sections, and every clock value around the window
// edges, for a few fixed scenarios

#[derive(Clone, Debug, Serialize, Deserialize)]
struct SweepCase {
    scenario: usize,
    edit: Edit,
    /// clock = inception + at (wrapping)
    at: i64,
}

fn fixed_scenarios() -> Vec<Scenario> {
    let n = |s: &str| MName::fq(s.split('.').filter(|l| !l.is_empty()).map(|l| l.as_bytes().to_vec()).collect());
    let base = Scenario {
        zone: n("example"),
        owner_rel: vec![b"www".to_vec()],
        foreign_owner: None,
        rdatas: vec![MRdata::A(vec![192, 0, 2, 1]), MRdata::A(vec![192, 0, 2, 2])],
        ttl: 300,
        orig_extra: 3300,
        rrsig_ttl: 300,
        dnskey_ttl: 600,
        signer: KeyId::Seed(7),
        signer_flags: 257,
        ksk: None,
        colliders: 0,
        colliders_first: false,
        wildcard: false,
        inc_off: 0,
        exp_off: 1000,
        kinc_off: 0,
        kexp_off: 1000,
        now0: 1_700_000_000,
        upstream_ages_ttl: false,
        cache_bounds: None,
        ksk_revoked: false,
    };
    vec![
        base.clone(),
        // window and clock straddle the u32 wrap; root zone with KSK + ZSK; NS with a mixed-case name
        Scenario {
            zone: n(""),
            owner_rel: vec![b"Sub".to_vec()],
            rdatas: vec![MRdata::Ns(n("NS1.Example"))],
            signer: KeyId::Seed(8),
            signer_flags: 256,
            ksk: Some(KeyId::Seed(9)),
            now0: (1u64 << 32) - 500,
            ..base.clone()
        },
        Scenario {
            rdatas: vec![MRdata::Mx {
                pref: 10,
                exchange: n("mail.example"),
            }],
            signer: KeyId::Fixture(tbs_ref::ALG_ECDSAP256),
            signer_flags: 256,
            ..base.clone()
        },
        Scenario {
            rdatas: vec![MRdata::Txt(vec![b"v=1".to_vec()])],
            signer: KeyId::Fixture(tbs_ref::ALG_RSASHA256),
            ..base.clone()
        },
    ]
}

fn sweep_cases(env: &Env) -> (Box<dyn Iterator<Item = SweepCase> + Send>, bool) {
    let scen = fixed_scenarios();
    let count = match env.tier {
        Tier::Quick => 2,
        Tier::Thorough => scen.len(),
    };
    let mut out = Vec::new();
    for (si, s) in scen.iter().enumerate().take(count) {
        let g = build(s);
        let (tmsg, tstart) = w::response_message(0, &g.owner.labels, g.rtype, &g.target);
        let (kmsg, kstart) = w::response_message(0, &s.zone.labels, T_DNSKEY, &g.keys);
        for b in 0..(tmsg.len() - tstart) * 8 {
            out.push(SweepCase {
                scenario: si,
                edit: Edit::TargetMsgBit(b),
                at: 500,
            });
        }
        for b in 0..(kmsg.len() - kstart) * 8 {
            out.push(SweepCase {
                scenario: si,
                edit: Edit::KeyMsgBit(b),
                at: 500,
            });
        }
        // every clock value around both edges and around the RFC 1982 half-way points
        let len = s.exp_off - s.inc_off;
        let mut ats: Vec<i64> = (-3..=3).chain(len - 3..=len + 3).collect();
        for h in [1i64 << 31, -(1i64 << 31)] {
            ats.extend((h - 2..=h + 2).map(|x| x));
            ats.extend((len + h - 2..=len + h + 2).map(|x| x));
        }
        for at in ats {
            out.push(SweepCase {
                scenario: si,
                edit: Edit::None,
                at,
            });
        }
    }
    (Box::new(out.into_iter()), true)
}

fn sweep_body(c: &SweepCase, rec: &mut Rec) -> CaseResult {
    let mut s = fixed_scenarios().swap_remove(c.scenario);
    // place the clock: now0' = inception + at, window unchanged in absolute terms
    let inception = (s.now0 as i64 + s.inc_off) as u64 as i64;
    let new_now0 = (inception + c.at).rem_euclid(1i64 << 33).max(0) as u64;
    let shift = new_now0 as i64 - s.now0 as i64;
    s.inc_off -= shift;
    s.exp_off -= shift;
    s.kinc_off -= shift;
    s.kexp_off -= shift;
    s.now0 = new_now0;
    let case = Case {
        scenario: s,
        key_edit: Edit::None,
        steps: vec![Step {
            advance: Delta::Secs(0),
            edit: c.edit.clone(),
        }],
    };
    rec.class(format!("scenario:{}", c.scenario));
    run(&case, rec)
}

pub fn check() -> Option<Check> {
    let single = prop("single_validation", 120_000, 1_000_000, |_| single_case(), run);
    let histories = prop("histories", 20_000, 100_000, history_case, run);
    let sweep = enumerate("bit_and_clock_sweep", sweep_cases, sweep_body);
    Some(Check {
        id: "C06",
        level: "exploration",
        rule: "scenario = zone (root / 1-2 labels, mixed case) + owner + RRset (A, AAAA, TXT, NS, MX; 1-3 members) signed with ring over the reference octets by an \
               Ed25519 (seeded or fixture), ECDSA P-256/P-384 or RSA/SHA-256/512 key whose DNSKEY is the trust anchor (or a ZSK under an anchored KSK), incl. \
               genuinely signing keys with the zone bit clear / revoke bit set / reserved bits set, key-tag colliding sibling keys, wildcard-expanded answers; validity \
               window placed around the clock (edges +-2 s, inside, far outside, +-2^31 distances, windows and clocks straddling the u32 wrap). Variant = genuine or one \
               edit out of 45 kinds (owner/class/type/TTL/RDATA bit/add/remove/duplicate RR; each RRSIG field as XOR mask, signature bit/length, RRSIG count/owner/class/TTL; \
               DNSKEY flags/protocol/algorithm/key bit/owner/class/TTL, add/remove key, DNSKEY RRSIG bit/removal, failing DNSKEY lookup; any bit of either answer section). \
               single_validation: one variant on a fresh validator; histories: 2-6 (advance, variant) steps on one handle (advance in {0,1,s, to inception/expiration +-1, TTL +-1}), \
               upstream either authoritative (constant TTLs) or a cache (TTLs count down); bit_and_clock_sweep: every answer-section bit of both responses and every clock \
               value within 3 s of both window edges and of the RFC 1982 half-way points, for fixed scenarios. Non-trivial = distinct case AND (the variant differs from the genuine \
               response in a signed octet (reference rejects it at any clock) OR the clock is within 1 s of a window edge OR a step repeats content already validated Secure (cache hit))",
        assumptions: vec![
            "trust anchor = public key + algorithm of the zone's (key-signing) key, as hickory's TrustAnchors stores it; DNSKEY flags are not part of the anchor",
            "completeness is asserted only for the unedited response on a fresh validator, inside the window, non-wildcard, key usable, and a DNSKEY layout hickory can finish without a DS chain",
            "RFC 4035 5.3.1 bullet 2 (signer name must be the zone containing the RRset) is not in the property text: observed and counted, not asserted",
            "a clock exactly 2^31 s away from inception/expiration is undefined in RFC 1982: either verdict is accepted",
            "wall clock and monotonic clock advance together; the clock never moves backwards",
        ],
        subs: vec![single, histories, sweep],
    })
}
