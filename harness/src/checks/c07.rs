//! C07 — validating resolver: Secure implies an unbroken chain to a trust anchor.
//!
//! Shape of the check (DESIGN.md section 7 C07):
//!
//! * a generated hierarchy root -> `t.` -> `l.t.` (+ sibling `s.t.`) is built with hickory's own
//!   authoritative code (`InMemoryZoneHandler` + `add_zone_signing_key_mut` + `secure_zone_mut`),
//!   DS RRsets in the parent computed from the child's DNSKEYs; signing happens at virtual time
//!   BASE, validation at BASE + 1 h, signatures are valid for 30 days (crate::clock virtual mode,
//!   `SimTime` is the validator's clock);
//! * a scripted resolver-like `DnsHandle` (`Upstream`) routes every (qname, qtype) to the zone
//!   that is authoritative for it (DS goes to the parent), serves it through
//!   `Catalog::handle_request::<_, SimTime>` and logs the exchange;
//! * the real `DnssecDnsHandle::with_trust_anchor` validates on top of it, a fresh handle (fresh
//!   validation cache) per run;
//! * a *fault* tampers with the upstream response to one query (every time that query is asked):
//!   - `single_faults` enumerates, per scenario, every (response of the fault-free trace, section,
//!     record, operator);
//!   - `double_faults` samples pairs: uniform, attacker-constructive, "forged chain link" (forged
//!     data + forged DNSKEY/DS/zone-cut probe) and *follow-up* pairs whose second fault hits a
//!     query that the validator sends only because of the first;
//!   - `server_ad_servfail` (clause d) puts a small External `ZoneHandler` with
//!     `can_validate_dnssec()` under a real `Catalog` and judges the AD bit / SERVFAIL mapping.
//!
//! Oracle (a validity predicate over the outcome; nothing here calls hickory's validator a
//! second way). G = records served by the genuine zones, S = status of the queried name from the
//! reference model in gen/hier.rs (RFC 4035 4.3 / 5.2, RFC 6840 5.2):
//!   R1  every record returned with proof Secure is in G, TTL not above the genuine TTL
//!       (RFC 4035 5.3.3)                                                    -- always
//!   R2  a record of a model-Secure zone is never returned labelled Insecure -- always
//!       (RFC 4035 4.3 / 5.2: Insecure needs an authenticated proof that no DS exists)
//!   R3  S = Secure, with faults: the outcome is an error / marked Bogus, or it is the genuine
//!       outcome: a positive answer whose RRsets are complete genuine RRsets, all Secure; a denial
//!       of the genuine kind backed by a Secure NSEC/NSEC3. Never a denial of existing data,
//!       never a denial without proof (RFC 4035 5.4).
//!   R4  no faults: the outcome has status S and the genuine data (completeness, so that the
//!       check is not vacuous)
//!   (d) AD=1 => S = Secure and the genuine answer; a relevant Bogus record and CD=0 => SERVFAIL
//!       without data; a CD=0 client of a Secure chain sees the genuine answer or an error
//!       (RFC 4035 3.2.2 / 3.2.3)
//!
//! A deviation is named after its root cause where the tampered input shows a known pattern
//! (`tamper_path`, `K2`), otherwise after the oracle rule that fired.

use std::cell::RefCell;
use std::collections::{BTreeMap, BTreeSet, HashMap};
use std::net::{Ipv4Addr, Ipv6Addr, SocketAddr};
use std::pin::Pin;
use std::str::FromStr;
use std::sync::{Arc, Mutex, OnceLock};
use std::time::Duration;

use futures_util::stream::{self, Stream};
use hickory_net::dnssec::DnssecDnsHandle;
use hickory_net::xfer::{DnsHandle, FirstAnswer, Protocol};
use hickory_net::{DnsError, NetError};
use hickory_proto::dnssec::crypto::Ed25519SigningKey;
use hickory_proto::dnssec::rdata::{DNSSECRData, DNSKEY, DS, NSEC, NSEC3, RRSIG};
use hickory_proto::dnssec::{Algorithm, DigestType, DnssecSigner, Nsec3HashAlgorithm, Proof, PublicKeyBuf, SigningKey, TrustAnchors};
use hickory_proto::op::{DnsRequest, DnsRequestOptions, DnsResponse, Edns, Message, MessageType, Query, ResponseCode};
use hickory_proto::rr::rdata::{A, AAAA, CNAME, MX, NS, SOA, TXT};
use hickory_proto::rr::{DNSClass, LowerName, Name, RData, Record, RecordSet, RecordType};
use hickory_proto::serialize::binary::{BinDecoder, BinEncodable, BinEncoder};
use hickory_server::dnssec::NxProofKind;
use hickory_server::server::{Request, RequestHandler, ResponseHandler, ResponseInfo};
use hickory_server::server::RequestInfo;
use hickory_server::store::in_memory::InMemoryZoneHandler;
use hickory_server::zone_handler::{AuthLookup, AxfrPolicy, Catalog, LookupControlFlow, LookupError, LookupOptions, MessageResponse, Nsec3QueryInfo, ZoneHandler, ZoneType};
use proptest::prelude::*;
use proptest::strategy::ValueTree;
use proptest::test_runner::{Config, RngAlgorithm, TestRng, TestRunner};
use serde::{Deserialize, Serialize};
use time::OffsetDateTime;

use crate::clock;
use crate::core::{enumerate, fixed_hash, prop, CaseResult, Check, Env, Fail, Rec, Tier};
use crate::gen::hier::{self, DsKind, Nx, Scenario, ZoneSpec, Z};
use crate::sim::{SimRt, SimTime};

/// virtual unix time at which all zones are signed
const BASE: u64 = 1_700_000_000;
/// validation happens this many seconds after signing
const QUERY_AFTER: u64 = 3_600;
const SIG_VALID: Duration = Duration::from_secs(30 * 86_400);

// ---------------------------------------------------------------------------------------------
// key material (Ed25519 from seeds: reproducible)

#[derive(Clone)]
struct KeyMat {
    seed: [u8; 32],
    dnskey: DNSKEY,
    pk: PublicKeyBuf,
    tag: u16,
}

fn seed_bytes(label: &str, a: u64, b: u64) -> [u8; 32] {
    let mut out = [0u8; 32];
    for i in 0..4u64 {
        let h = fixed_hash(&[label.as_bytes(), &a.to_le_bytes(), &b.to_le_bytes(), &i.to_le_bytes()]);
        out[(i as usize) * 8..(i as usize) * 8 + 8].copy_from_slice(&h.to_le_bytes());
    }
    out
}

fn signing_key(seed: &[u8; 32]) -> Ed25519SigningKey {
    let kp = ring::signature::Ed25519KeyPair::from_seed_unchecked(seed).expect("ed25519 seed");
    Ed25519SigningKey::from_ed25519(kp)
}

fn key_from_seed(seed: [u8; 32]) -> KeyMat {
    let sk = signing_key(&seed);
    let pk = sk.to_public_key().expect("public key");
    let dnskey = DNSKEY::from_key(&pk);
    let tag = dnskey.calculate_key_tag().expect("key tag");
    KeyMat { seed, dnskey, pk, tag }
}

fn signer_for(k: &KeyMat, zone: &Name) -> DnssecSigner {
    DnssecSigner::new(k.dnskey.clone(), Box::new(signing_key(&k.seed)), zone.clone(), SIG_VALID)
}

/// pairs of key seeds whose DNSKEYs have the same key tag (found once by search)
fn colliding_pairs() -> &'static Vec<([u8; 32], [u8; 32])> {
    static PAIRS: OnceLock<Vec<([u8; 32], [u8; 32])>> = OnceLock::new();
    PAIRS.get_or_init(|| {
        let mut by_tag: BTreeMap<u16, [u8; 32]> = BTreeMap::new();
        let mut pairs = vec![];
        let mut n = 0u64;
        while pairs.len() < 8 && n < 20_000 {
            let s = seed_bytes("c07-collide", n, 0);
            let k = key_from_seed(s);
            if let Some(prev) = by_tag.get(&k.tag) {
                pairs.push((*prev, s));
            } else {
                by_tag.insert(k.tag, s);
            }
            n += 1;
        }
        pairs
    })
}

fn zone_keys(sc: &Scenario, z: Z, spec: &ZoneSpec) -> Vec<KeyMat> {
    if !spec.signed {
        return vec![];
    }
    let mut keys: Vec<KeyMat> = (0..spec.nkeys)
        .map(|i| key_from_seed(seed_bytes("c07-key", sc.seed as u64, (z.idx() * 8 + i as usize) as u64)))
        .collect();
    if spec.collide && spec.nkeys >= 2 {
        let pairs = colliding_pairs();
        if !pairs.is_empty() {
            let (a, b) = pairs[(sc.seed as usize + z.idx()) % pairs.len()];
            keys[0] = key_from_seed(a);
            keys[1] = key_from_seed(b);
        }
    }
    keys
}

// ---------------------------------------------------------------------------------------------
// building the genuine zones

fn name(s: &str) -> Name {
    Name::from_ascii(s).expect("name")
}

fn sub(owner: &str, origin: &Name) -> Name {
    if owner.is_empty() {
        origin.clone()
    } else {
        Name::from_ascii(owner).expect("rel").append_domain(origin).expect("append")
    }
}

fn rec(n: &Name, ttl: u32, d: RData) -> Record {
    Record::from_rdata(n.clone(), ttl, d)
}

fn ds_records(child: &Name, spec: &ZoneSpec, keys: &[KeyMat], sc: &Scenario, z: Z) -> Vec<Record> {
    let mut out = vec![];
    let mut push = |ds: DS| out.push(rec(child, 3600, RData::DNSSEC(DNSSECRData::DS(ds))));
    for (i, k) in keys.iter().enumerate() {
        if spec.ds_mask & (1 << i) == 0 {
            continue;
        }
        let d = |dt: DigestType| DS::from_key(&k.pk, child, dt).expect("ds");
        let sha256 = d(DigestType::SHA256);
        match spec.ds_kind {
            DsKind::Sha256 => push(sha256),
            DsKind::Sha384 => push(d(DigestType::SHA384)),
            DsKind::Sha1 => push(d(DigestType::SHA1)),
            DsKind::Sha256AndSha1 => {
                push(sha256);
                push(d(DigestType::SHA1));
            }
            DsKind::UnsupportedDigestOnly => {
                push(DS::new(k.tag, Algorithm::ED25519, DigestType::Unknown(200), sha256.digest().to_vec()))
            }
            DsKind::UnsupportedAlgOnly => {
                push(DS::new(k.tag, Algorithm::Unknown(200), DigestType::SHA256, sha256.digest().to_vec()))
            }
            DsKind::Sha256PlusUnsupported => {
                push(DS::new(k.tag, Algorithm::ED25519, DigestType::Unknown(200), sha256.digest().to_vec()));
                push(sha256);
            }
        }
    }
    if spec.stale_ds && spec.ds_mask != 0 {
        let stale = key_from_seed(seed_bytes("c07-stale", sc.seed as u64, z.idx() as u64));
        push(DS::from_key(&stale.pk, child, DigestType::SHA256).expect("ds"));
    }
    out
}

fn soa(origin: &Name) -> Record {
    rec(
        origin,
        3600,
        RData::SOA(SOA::new(sub("ns", origin), sub("hostmaster", origin), 1, 7200, 1800, 86400, 300)),
    )
}

/// the plain records of zone z (without DNSSEC records, which hickory's signer adds)
fn zone_data(sc: &Scenario, z: Z, child_ds: &BTreeMap<Z, Vec<Record>>) -> Vec<Record> {
    let o = name(z.origin());
    let mut v = vec![soa(&o), rec(&o, 3600, RData::NS(NS(sub("ns", &o)))), rec(&sub("ns", &o), 3600, RData::A(A(Ipv4Addr::new(192, 0, 2, 53))))];
    let delegate = |v: &mut Vec<Record>, c: Z| {
        let co = name(c.origin());
        v.push(rec(&co, 3600, RData::NS(NS(sub("ns", &co)))));
        if let Some(ds) = child_ds.get(&c) {
            v.extend(ds.iter().cloned());
        }
    };
    match z {
        Z::Root => delegate(&mut v, Z::Tld),
        Z::Tld => {
            v.push(rec(&sub("h", &o), 600, RData::A(A(Ipv4Addr::new(192, 0, 2, 80)))));
            delegate(&mut v, Z::Leaf);
            if sc.sib.is_some() {
                delegate(&mut v, Z::Sib);
            }
        }
        Z::Leaf | Z::Sib => {
            let a = sub("a", &o);
            v.push(rec(&a, 600, RData::A(A(Ipv4Addr::new(192, 0, 2, 1)))));
            v.push(rec(&a, 600, RData::A(A(Ipv4Addr::new(192, 0, 2, 2)))));
            v.push(rec(&a, 600, RData::TXT(TXT::new(vec!["hello".to_string()]))));
            v.push(rec(&sub("b", &o), 600, RData::AAAA(AAAA(Ipv6Addr::new(0x2001, 0xdb8, 0, 0, 0, 0, 0, 0xb)))));
            v.push(rec(&sub("c", &o), 600, RData::CNAME(CNAME(a.clone()))));
        }
    }
    v
}

struct ZoneBuilt {
    z: Z,
    origin: Name,
    catalog: Catalog,
    keys: Vec<KeyMat>,
}

struct World {
    sc: Scenario,
    zones: Vec<ZoneBuilt>,
    attacker: KeyMat,
    /// honest responses by (lower-cased qname, qtype)
    cache: Mutex<HashMap<(String, u16), Message>>,
}

fn build_zone(z: Z, spec: &ZoneSpec, keys: &[KeyMat], data: Vec<Record>) -> ZoneBuilt {
    let origin = name(z.origin());
    let nx = if spec.signed {
        Some(match spec.nx {
            Nx::Nsec => NxProofKind::Nsec,
            Nx::Nsec3 { salt_len, iterations } => NxProofKind::Nsec3 {
                algorithm: Nsec3HashAlgorithm::SHA1,
                salt: (0..salt_len).map(|i| 0xa0 + i).collect::<Vec<u8>>().into(),
                iterations: iterations as u16,
                opt_out: false,
            },
        })
    } else {
        None
    };
    let mut h = InMemoryZoneHandler::<SimRt>::empty(origin.clone(), ZoneType::Primary, AxfrPolicy::Deny, nx);
    for r in data {
        assert!(h.upsert_mut(r, 0), "zone record rejected");
    }
    if spec.signed {
        for k in keys {
            h.add_zone_signing_key_mut(signer_for(k, &origin)).expect("add key");
        }
        h.secure_zone_mut().expect("sign zone");
    }
    let mut catalog = Catalog::new();
    let handler: Arc<dyn ZoneHandler> = Arc::new(h);
    catalog.upsert(LowerName::new(&origin), vec![handler]);
    ZoneBuilt { z, origin, catalog, keys: keys.to_vec() }
}

/// must run in virtual-clock mode at time BASE (signature inception = the signer's clock)
fn build_world(sc: &Scenario) -> World {
    debug_assert!(clock::is_virtual());
    let mut order = vec![Z::Leaf];
    if sc.sib.is_some() {
        order.push(Z::Sib);
    }
    order.push(Z::Tld);
    order.push(Z::Root);
    let mut child_ds: BTreeMap<Z, Vec<Record>> = BTreeMap::new();
    let mut zones = vec![];
    for z in order {
        let spec = sc.spec(z).expect("spec").clone();
        let keys = zone_keys(sc, z, &spec);
        if spec.signed && spec.ds_mask != 0 {
            child_ds.insert(z, ds_records(&name(z.origin()), &spec, &keys, sc, z));
        }
        let data = zone_data(sc, z, &child_ds);
        zones.push(build_zone(z, &spec, &keys, data));
    }
    zones.sort_by_key(|b| b.z);
    World {
        sc: sc.clone(),
        zones,
        attacker: key_from_seed(seed_bytes("c07-attacker", 0, 0)),
        cache: Mutex::new(HashMap::new()),
    }
}

impl World {
    fn zone(&self, z: Z) -> &ZoneBuilt {
        self.zones.iter().find(|b| b.z == z).expect("zone built")
    }

    /// RFC 1034 4.3.2 / RFC 4035 3.1.4.1: the closest enclosing zone answers, except that DS
    /// lives on the parent side of the cut.
    fn route(&self, qname: &Name, qtype: RecordType) -> &ZoneBuilt {
        let mut best: Option<&ZoneBuilt> = None;
        for b in &self.zones {
            let encloses = b.origin.zone_of(qname);
            let proper = encloses && b.origin.num_labels() < qname.num_labels();
            let ok = if qtype == RecordType::DS && !qname.is_root() { proper } else { encloses };
            if ok && best.is_none_or(|x| x.origin.num_labels() < b.origin.num_labels()) {
                best = Some(b);
            }
        }
        best.expect("the root zone encloses everything")
    }

    /// zone a record of this owner/type belongs to, for the status model
    fn zone_of_record(&self, owner: &Name, rtype: RecordType) -> Z {
        self.route(owner, rtype).z
    }
}

#[derive(Clone)]
struct Capture(Arc<Mutex<Option<Vec<u8>>>>);

#[async_trait::async_trait]
impl ResponseHandler for Capture {
    async fn send_response<'a>(
        &mut self,
        response: MessageResponse<
            '_,
            'a,
            impl Iterator<Item = &'a Record> + Send + 'a,
            impl Iterator<Item = &'a Record> + Send + 'a,
            impl Iterator<Item = &'a Record> + Send + 'a,
            impl Iterator<Item = &'a Record> + Send + 'a,
        >,
    ) -> Result<ResponseInfo, NetError> {
        let mut buf = Vec::with_capacity(1024);
        let info = {
            let mut enc = BinEncoder::new(&mut buf);
            response.destructive_emit(&mut enc).map_err(NetError::from)?
        };
        *self.0.lock().unwrap() = Some(buf);
        Ok(info)
    }
}

async fn serve_honest(world: &World, qname: &Name, qtype: RecordType) -> Message {
    let key = (qname.to_lowercase().to_ascii(), u16::from(qtype));
    if let Some(m) = world.cache.lock().unwrap().get(&key) {
        return m.clone();
    }
    let mut q = Message::query();
    q.add_query(Query::new(qname.clone(), qtype));
    q.metadata.recursion_desired = true;
    let mut edns = Edns::new();
    edns.set_max_payload(4096).set_dnssec_ok(true);
    q.set_edns(edns);
    let bytes = q.to_vec().expect("encode query");
    let req = Request::from_bytes(bytes, SocketAddr::from(([127, 0, 0, 1], 5300)), Protocol::Tcp).expect("request");
    let cap = Capture(Arc::new(Mutex::new(None)));
    let zone = world.route(qname, qtype);
    zone.catalog.handle_request::<_, SimTime>(&req, cap.clone()).await;
    let buf = cap.0.lock().unwrap().take().expect("catalog produced a response");
    let mut m = Message::from_vec(&buf).expect("decode honest response");
    // hickory's authoritative server attaches the NSEC3 matching the query name to *positive*
    // answers of NSEC3 zones (catalog.rs build_authoritative_response), which no other server
    // does and which hickory's own validator then rejects for some query types. That is a
    // server-side matter (C09/C10); the upstream modelled here is resolver-like and forwards what
    // RFC 5155 7.2 asks for: NSEC3 only with negative and wildcard answers.
    let wildcard = m.answers.iter().any(|r| match &r.data {
        RData::DNSSEC(DNSSECRData::RRSIG(s)) => s.input().num_labels < r.name.num_labels(),
        _ => false,
    });
    if !m.answers.is_empty() && !wildcard {
        m.authorities.retain(|r| rrset_key(r).1 != RecordType::NSEC3);
    }
    world.cache.lock().unwrap().insert(key, m.clone());
    m
}

// ---------------------------------------------------------------------------------------------
// faults

#[derive(Clone, Copy, Debug, PartialEq, Eq, Hash, Serialize, Deserialize)]
pub enum Sec {
    An,
    Ns,
    Ar,
}

#[derive(Clone, Copy, Debug, PartialEq, Eq, Hash, Serialize, Deserialize)]
pub enum Sig {
    /// keep the genuine RRSIGs
    Keep,
    /// no RRSIG at all
    None,
    /// RRSIG made with the attacker's own key (signer name = the genuine zone)
    Attacker,
}

#[derive(Clone, Copy, Debug, PartialEq, Eq, Hash, Serialize, Deserialize)]
pub enum Op {
    /// flip one bit of the RDATA wire image (byte = pos per-mille of the length, mask)
    FlipBit { permille: u16, mask: u8 },
    DropRecord,
    /// drop all RRSIGs covering the RRset the record belongs to
    DropRrsigs,
    /// drop the RRset the record belongs to together with its RRSIGs
    DropRrset,
    /// flip a bit in the signature field of an RRSIG
    CorruptSig,
    /// replace the RRset by attacker data of the same owner and type
    Replace { sig: Sig },
    /// add one attacker record to the RRset (signatures kept)
    AddRecord,
    /// the same, but the added record has class CH: same owner and type, so it is grouped with the
    /// signed RRset, while the signed data only ever contains the IN records
    AddRecordOtherClass,
    /// add the same attacker record twice (an RRset holds no duplicates: anything that combines
    /// per-record values commutatively must not let the pair cancel out)
    AddRecordTwice,
    /// reverse the order of the RRset's records in the section. The order carries no meaning and
    /// the RRSIG does not depend on it: the verdict must not change, in particular a secure
    /// delegation must not become insecure because of the order of its DS records
    Reverse,
    /// DS only: digest and key tag of the attacker's key
    SwapDs,
    /// inject a new attacker RRset into the section; `own` = owner is the query name of that
    /// exchange (otherwise `evil.<zone>`), `ns` = type NS (otherwise A)
    Inject { own: bool, ns: bool, signed: bool },
    /// drop every NSEC / NSEC3 (and covering RRSIG) of the response
    DropNsec,
    /// 0 = NOERROR, 3 = NXDOMAIN, 2 = SERVFAIL
    Rcode { code: u8 },
    /// strip RRSIG, NSEC, NSEC3 from all sections (what a DNSSEC-oblivious middlebox does)
    StripDnssec,
    /// remove every record from every section
    Empty,
    /// replace rcode and all sections by the genuine response of the same zone to another query
    /// (index into `pool_queries` of the serving zone): genuine, validly signed, out of context
    Replay { pool: u8 },
}

impl Op {
    fn response_level(&self) -> bool {
        matches!(self, Op::Inject { .. } | Op::DropNsec | Op::Rcode { .. } | Op::StripDnssec | Op::Empty | Op::Replay { .. })
    }
}

/// One tampering. It is addressed by the query whose response it hits (not by a position in a
/// trace, whose order depends on hickory's HashMap iteration): the response to <qname qtype> is
/// tampered with every time that query is asked.
#[derive(Clone, Debug, PartialEq, Eq, Hash, Serialize, Deserialize)]
pub struct Fault {
    /// lower-case presentation form, e.g. "l.t."
    pub qname: String,
    /// type mnemonic, e.g. "DS"
    pub qtype: String,
    pub sec: Sec,
    pub idx: u16,
    pub op: Op,
}

impl Fault {
    fn hits(&self, ex: &Exchange) -> bool {
        ex.qtype.to_string() == self.qtype && ex.qname.to_lowercase().to_ascii() == self.qname
    }
    fn same_response(&self, o: &Fault) -> bool {
        self.qname == o.qname && self.qtype == o.qtype
    }
}

fn section(m: &mut Message, s: Sec) -> &mut Vec<Record> {
    match s {
        Sec::An => &mut m.answers,
        Sec::Ns => &mut m.authorities,
        Sec::Ar => &mut m.additionals,
    }
}

fn section_ref(m: &Message, s: Sec) -> &Vec<Record> {
    match s {
        Sec::An => &m.answers,
        Sec::Ns => &m.authorities,
        Sec::Ar => &m.additionals,
    }
}

/// (lower-cased owner, covered type) and whether the record is an RRSIG
fn rrset_key(r: &Record) -> (Name, RecordType, bool) {
    match &r.data {
        RData::DNSSEC(DNSSECRData::RRSIG(s)) => (r.name.to_lowercase(), s.input().type_covered, true),
        _ => (r.name.to_lowercase(), r.record_type(), false),
    }
}

fn rdata_bytes(d: &RData) -> Vec<u8> {
    d.to_bytes().unwrap_or_default()
}

fn flip(d: &RData, permille: u16, mask: u8) -> Option<RData> {
    let rt = d.record_type();
    let mut b = rdata_bytes(d);
    if b.is_empty() {
        return None;
    }
    let pos = ((b.len() - 1) as u64 * permille as u64 / 1000) as usize;
    b[pos] ^= mask;
    let nd = RData::read(BinDecoder::new(&b), rt).ok()?;
    // the tampered value must survive a wire round trip unchanged, otherwise the "fault" is not
    // expressible as a DNS message
    if rdata_bytes(&nd) != b {
        return None;
    }
    Some(nd)
}

fn attacker_rdata(t: RecordType, owner: &Name, zone: &Name, att: &KeyMat, orig: Option<&RData>) -> Option<RData> {
    Some(match t {
        RecordType::A => RData::A(A(Ipv4Addr::new(203, 0, 113, 66))),
        RecordType::AAAA => RData::AAAA(AAAA(Ipv6Addr::new(0x2001, 0xdb8, 0, 0, 0, 0, 0, 0x666))),
        RecordType::TXT => RData::TXT(TXT::new(vec!["evil".to_string()])),
        RecordType::NS => RData::NS(NS(name("ns.evil."))),
        RecordType::CNAME => RData::CNAME(CNAME(name("www.evil."))),
        RecordType::MX => RData::MX(MX::new(10, name("mx.evil."))),
        RecordType::SOA => RData::SOA(SOA::new(name("ns.evil."), sub("hostmaster", zone), 4242, 7200, 1800, 86400, 300)),
        RecordType::DNSKEY => RData::DNSSEC(DNSSECRData::DNSKEY(att.dnskey.clone())),
        RecordType::DS => RData::DNSSEC(DNSSECRData::DS(DS::from_key(&att.pk, owner, DigestType::SHA256).ok()?)),
        // an NSEC that claims nothing exists between its owner and the apex and that the owner
        // has no types
        RecordType::NSEC => RData::DNSSEC(DNSSECRData::NSEC(NSEC::new(zone.clone(), [RecordType::RRSIG, RecordType::NSEC]))),
        RecordType::NSEC3 => match orig {
            Some(RData::DNSSEC(DNSSECRData::NSEC3(o))) => RData::DNSSEC(DNSSECRData::NSEC3(NSEC3::new(
                o.hash_algorithm(),
                o.opt_out(),
                o.iterations(),
                o.salt().to_vec(),
                vec![0xff; o.next_hashed_owner_name().len().max(1)],
                [RecordType::RRSIG],
            ))),
            _ => return None,
        },
        _ => return None,
    })
}

fn attacker_sig(rrset: &[Record], zone: &Name, att: &KeyMat) -> Option<Record> {
    let first = rrset.first()?;
    let mut rs = RecordSet::with_ttl(first.name.clone(), first.record_type(), first.ttl);
    for r in rrset {
        rs.add_rdata(r.data.clone());
    }
    let inception = OffsetDateTime::from_unix_timestamp(BASE as i64).ok()?;
    let sig = RRSIG::from_rrset(&rs, DNSClass::IN, inception, &signer_for(att, zone)).ok()?;
    Some(Record::from_rdata(first.name.clone(), first.ttl, RData::DNSSEC(DNSSECRData::RRSIG(sig))))
}

/// a small set of other queries each zone answers, as replay material
fn pool_queries(sc: &Scenario, z: Z) -> Vec<(Name, RecordType)> {
    let o = name(z.origin());
    let q = |owner: &str, t: RecordType| (sub(owner, &o), t);
    match z {
        Z::Leaf | Z::Sib => vec![
            q("a", RecordType::A),
            q("a", RecordType::TXT),
            q("b", RecordType::AAAA),
            q("c", RecordType::A),
            q("nx", RecordType::A),
            q("", RecordType::SOA),
            q("", RecordType::DNSKEY),
            q("", RecordType::NS),
            q("z.a", RecordType::A),
            q("ns", RecordType::A),
        ],
        Z::Tld => {
            let mut v = vec![
                q("h", RecordType::A),
                q("nx", RecordType::A),
                q("", RecordType::SOA),
                q("", RecordType::DNSKEY),
                q("h", RecordType::TXT),
                (name("l.t."), RecordType::DS),
            ];
            if sc.sib.is_some() {
                v.push((name("s.t."), RecordType::DS));
            }
            v
        }
        Z::Root => vec![
            (name("t."), RecordType::DS),
            q("", RecordType::DNSKEY),
            q("nx", RecordType::A),
            q("", RecordType::SOA),
            q("", RecordType::NS),
        ],
    }
}

/// Apply one fault to a response. `zone` = origin of the zone that served it. Err = the fault
/// is not applicable to this message (counted as a discard).
fn apply_fault(m: &mut Message, f: &Fault, qname: &Name, qtype: RecordType, zone: &Name, world: &World) -> Result<(), &'static str> {
    let idx = f.idx as usize;
    let att = &world.attacker;
    match f.op {
        Op::Replay { pool } => {
            let z = world.zones.iter().find(|b| b.origin == *zone).map(|b| b.z).ok_or("no-such-zone")?;
            let (n, t) = pool_queries(&world.sc, z).into_iter().nth(pool as usize).ok_or("no-such-pool-entry")?;
            if t == qtype && n.to_lowercase() == qname.to_lowercase() {
                return Err("replay-of-itself");
            }
            let other = world.cache.lock().unwrap().get(&(n.to_lowercase().to_ascii(), u16::from(t))).cloned().ok_or("pool-not-prefetched")?;
            m.metadata.response_code = other.metadata.response_code;
            m.answers = other.answers;
            m.authorities = other.authorities;
            m.additionals = other.additionals;
        }
        Op::Rcode { code } => {
            let rc = ResponseCode::from(0, code);
            if m.metadata.response_code == rc {
                return Err("rcode-unchanged");
            }
            m.metadata.response_code = rc;
        }
        Op::StripDnssec => {
            let mut n = 0;
            for s in [Sec::An, Sec::Ns, Sec::Ar] {
                let v = section(m, s);
                let before = v.len();
                v.retain(|r| !matches!(r.record_type(), RecordType::RRSIG | RecordType::NSEC | RecordType::NSEC3));
                n += before - v.len();
            }
            if n == 0 {
                return Err("nothing-to-strip");
            }
        }
        Op::DropNsec => {
            let mut n = 0;
            for s in [Sec::An, Sec::Ns, Sec::Ar] {
                let v = section(m, s);
                let before = v.len();
                v.retain(|r| !matches!(rrset_key(r).1, RecordType::NSEC | RecordType::NSEC3));
                n += before - v.len();
            }
            if n == 0 {
                return Err("no-nsec");
            }
        }
        Op::Empty => {
            let n = m.answers.len() + m.authorities.len() + m.additionals.len();
            if n == 0 {
                return Err("already-empty");
            }
            m.answers.clear();
            m.authorities.clear();
            m.additionals.clear();
        }
        Op::Inject { own, ns, signed } => {
            let owner = if own { qname.clone() } else { sub("evil", zone) };
            let t = if ns { RecordType::NS } else if own && qtype != RecordType::NS { qtype } else { RecordType::A };
            let d = attacker_rdata(t, &owner, zone, att, None).or_else(|| attacker_rdata(RecordType::A, &owner, zone, att, None)).ok_or("no-attacker-data")?;
            let r = rec(&owner, 600, d);
            let v = section(m, f.sec);
            if signed {
                if let Some(s) = attacker_sig(std::slice::from_ref(&r), zone, att) {
                    v.push(r);
                    v.push(s);
                } else {
                    return Err("cannot-sign");
                }
            } else {
                v.push(r);
            }
        }
        _ => {
            // record-level operators
            let v = section(m, f.sec);
            if idx >= v.len() {
                return Err("no-such-record");
            }
            let key = rrset_key(&v[idx]);
            match f.op {
                Op::FlipBit { permille, mask } => {
                    let nd = flip(&v[idx].data, permille, mask).ok_or("flip-undecodable")?;
                    v[idx].data = nd;
                }
                Op::DropRecord => {
                    v.remove(idx);
                }
                Op::CorruptSig => {
                    let RData::DNSSEC(DNSSECRData::RRSIG(s)) = &v[idx].data else {
                        return Err("not-an-rrsig");
                    };
                    let mut sig = s.sig().to_vec();
                    if sig.is_empty() {
                        return Err("empty-sig");
                    }
                    let p = sig.len() / 2;
                    sig[p] ^= 0x01;
                    v[idx].data = RData::DNSSEC(DNSSECRData::RRSIG(RRSIG::from_sig(s.input().clone(), sig)));
                }
                Op::SwapDs => {
                    let RData::DNSSEC(DNSSECRData::DS(_)) = &v[idx].data else {
                        return Err("not-a-ds");
                    };
                    let owner = v[idx].name.clone();
                    v[idx].data = attacker_rdata(RecordType::DS, &owner, zone, att, None).ok_or("no-attacker-data")?;
                }
                Op::DropRrsigs => {
                    if key.2 {
                        return Err("is-rrsig");
                    }
                    let before = v.len();
                    v.retain(|r| {
                        let k = rrset_key(r);
                        !(k.2 && k.0 == key.0 && k.1 == key.1)
                    });
                    if v.len() == before {
                        return Err("no-rrsigs");
                    }
                }
                Op::DropRrset => {
                    if key.2 {
                        return Err("is-rrsig");
                    }
                    v.retain(|r| {
                        let k = rrset_key(r);
                        !(k.0 == key.0 && k.1 == key.1)
                    });
                }
                Op::Reverse => {
                    if key.2 {
                        return Err("is-rrsig");
                    }
                    let at: Vec<usize> = (0..v.len())
                        .filter(|i| {
                            let k = rrset_key(&v[*i]);
                            !k.2 && k.0 == key.0 && k.1 == key.1
                        })
                        .collect();
                    if at.len() < 2 {
                        return Err("single-record-rrset");
                    }
                    for j in 0..at.len() / 2 {
                        v.swap(at[j], at[at.len() - 1 - j]);
                    }
                }
                Op::AddRecord | Op::AddRecordOtherClass | Op::AddRecordTwice => {
                    if key.2 {
                        return Err("is-rrsig");
                    }
                    let owner = v[idx].name.clone();
                    let d = attacker_rdata(key.1, &owner, zone, att, Some(&v[idx].data)).ok_or("no-attacker-data")?;
                    if v.iter().any(|r| !rrset_key(r).2 && rrset_key(r).0 == key.0 && r.data == d) {
                        return Err("attacker-data-equals-genuine");
                    }
                    let ttl = v[idx].ttl;
                    let mut added = rec(&owner, ttl, d);
                    if f.op == Op::AddRecordOtherClass {
                        added.dns_class = hickory_proto::rr::DNSClass::CH;
                    }
                    if f.op == Op::AddRecordTwice {
                        v.insert(idx + 1, added.clone());
                    }
                    v.insert(idx + 1, added);
                }
                Op::Replace { sig } => {
                    if key.2 {
                        return Err("is-rrsig");
                    }
                    let owner = v[idx].name.clone();
                    let ttl = v[idx].ttl;
                    let d = attacker_rdata(key.1, &owner, zone, att, Some(&v[idx].data)).ok_or("no-attacker-data")?;
                    let newrec = rec(&owner, ttl, d);
                    let pos = v.iter().position(|r| {
                        let k = rrset_key(r);
                        k.0 == key.0 && k.1 == key.1
                    });
                    let pos = pos.unwrap_or(0);
                    // remove the data records (and, unless kept, the signatures)
                    v.retain(|r| {
                        let k = rrset_key(r);
                        !(k.0 == key.0 && k.1 == key.1 && (!k.2 || sig != Sig::Keep))
                    });
                    let pos = pos.min(v.len());
                    if sig == Sig::Attacker {
                        let s = attacker_sig(std::slice::from_ref(&newrec), zone, att).ok_or("cannot-sign")?;
                        v.insert(pos, s);
                    }
                    v.insert(pos, newrec);
                }
                _ => unreachable!(),
            }
        }
    }
    Ok(())
}

// ---------------------------------------------------------------------------------------------
// the scripted upstream

#[derive(Clone, Debug)]
struct Exchange {
    qname: Name,
    qtype: RecordType,
    zone: Name,
    honest: Message,
    /// what was actually delivered
    delivered: Message,
    /// number of faults applied to this response
    tampered: usize,
}

/// a fault resolved against the fault-free trace: which query it hits
#[derive(Clone)]
struct Armed {
    qname: Name,
    qtype: RecordType,
    fault: Fault,
}

struct UpInner {
    world: Arc<World>,
    /// false while the validator's cache is being warmed with the genuine responses
    enabled: std::sync::atomic::AtomicBool,
    armed: Vec<Armed>,
    log: Mutex<Vec<Exchange>>,
    inapplicable: Mutex<Option<&'static str>>,
}

#[derive(Clone)]
struct Upstream(Arc<UpInner>);

impl DnsHandle for Upstream {
    type Response = Pin<Box<dyn Stream<Item = Result<DnsResponse, NetError>> + Send>>;
    type Runtime = SimRt;

    fn send(&self, request: DnsRequest) -> Self::Response {
        let inner = self.0.clone();
        Box::pin(stream::once(async move {
            let Some(q) = request.queries.first().cloned() else {
                return Err(NetError::from("no query"));
            };
            let id = request.metadata.id;
            let honest = serve_honest(&inner.world, &q.name, q.query_type).await;
            let zone = inner.world.route(&q.name, q.query_type).origin.clone();
            let mut m = honest.clone();
            let mut tampered = 0;
            for a in inner.armed.iter().filter(|_| inner.enabled.load(std::sync::atomic::Ordering::SeqCst)) {
                if a.qtype == q.query_type && a.qname.to_lowercase() == q.name.to_lowercase() {
                    match apply_fault(&mut m, &a.fault, &q.name, q.query_type, &zone, &inner.world) {
                        Ok(()) => tampered += 1,
                        Err(why) => {
                            inner.inapplicable.lock().unwrap().get_or_insert(why);
                        }
                    }
                }
            }
            inner.log.lock().unwrap().push(Exchange {
                qname: q.name.clone(),
                qtype: q.query_type,
                zone,
                honest,
                delivered: m.clone(),
                tampered,
            });
            m.metadata.id = id;
            m.metadata.message_type = MessageType::Response;
            // what arrives is what the wire carries: go through the encoder and the decoder
            let bytes = m.to_vec().map_err(NetError::from)?;
            let resp = DnsResponse::from_buffer(bytes).map_err(NetError::from)?;
            if inner.world.sc.err_style {
                DnsError::from_response(resp).map_err(NetError::from)
            } else {
                Ok(resp)
            }
        }))
    }
}

enum Outcome {
    /// the validator panicked
    Panic(Fail),
    Msg(Box<Message>),
    /// Err(Nsec { proof }) carries a verdict of its own
    NsecErr(Proof, String),
    Err(String),
}

struct Run {
    outcome: Outcome,
    log: Vec<Exchange>,
    inapplicable: Option<&'static str>,
}

/// one validation by a fresh `DnssecDnsHandle` at BASE + 1 h. `warm`: the same handle first
/// resolves the query against the genuine responses (which fills its validation cache with the
/// verdicts on the genuine RRsets), then the faults are switched on and the query is asked again
fn run_validation(world: &Arc<World>, armed: Vec<Armed>, q: &Query, warm: bool) -> Run {
    debug_assert!(clock::is_virtual());
    clock::set_virtual_nanos(QUERY_AFTER * 1_000_000_000);
    let up = Upstream(Arc::new(UpInner {
        world: world.clone(),
        enabled: std::sync::atomic::AtomicBool::new(!warm),
        armed,
        log: Mutex::new(vec![]),
        inapplicable: Mutex::new(None),
    }));
    let mut anchors = TrustAnchors::empty();
    let az = world.zone(world.sc.anchor.zone);
    for (i, k) in az.keys.iter().enumerate() {
        if world.sc.anchor.mask & (1 << i) != 0 {
            anchors.insert(&k.pk);
        }
    }
    let handle = DnssecDnsHandle::with_trust_anchor(up.clone(), Arc::new(anchors));
    let mut options = DnsRequestOptions::default();
    options.use_edns = true;
    options.edns_set_dnssec_ok = true;
    if warm {
        let _ = crate::core::catch(|| futures_executor::block_on(handle.lookup(q.clone(), options).first_answer()));
        up.0.log.lock().unwrap_or_else(|e| e.into_inner()).clear();
        *up.0.inapplicable.lock().unwrap_or_else(|e| e.into_inner()) = None;
        up.0.enabled.store(true, std::sync::atomic::Ordering::SeqCst);
    }
    let res = crate::core::catch(|| futures_executor::block_on(handle.lookup(q.clone(), options).first_answer()));
    let res = match res {
        Ok(r) => r,
        Err(p) => {
            let log = std::mem::take(&mut *up.0.log.lock().unwrap_or_else(|e| e.into_inner()));
            clock::set_virtual_nanos(0);
            let mut f = crate::core::panic_fail(&p);
            // one signature per root cause: name the precondition where it is known
            let dnskey_sig_without_key = log.iter().filter(|e| e.tampered > 0).any(|e| {
                let d = &e.delivered;
                d.answers.iter().any(|r| rrset_key(r) == (r.name.to_lowercase(), RecordType::DNSKEY, true))
                    && !d.answers.iter().any(|r| r.record_type() == RecordType::DNSKEY)
            });
            if dnskey_sig_without_key && p.0.contains("Option::unwrap()") && p.1.contains("dnssec/mod.rs") {
                f.sig = "panic-verify-dnskey-rrset-rrsig-without-dnskey-records".into();
            }
            return Run { outcome: Outcome::Panic(f), log, inapplicable: None };
        }
    };
    let outcome = match res {
        Ok(resp) => Outcome::Msg(Box::new(resp.into_message())),
        Err(NetError::Dns(DnsError::Nsec { proof, .. })) => Outcome::NsecErr(proof, format!("Nsec error, proof {proof}")),
        Err(e) => Outcome::Err(e.to_string()),
    };
    drop(handle);
    let log = std::mem::take(&mut *up.0.log.lock().unwrap());
    let inapplicable = *up.0.inapplicable.lock().unwrap();
    clock::set_virtual_nanos(0);
    if std::env::var_os("C07_TRACE").is_some() {
        eprintln!("---- validation of {q}");
        for (i, ex) in log.iter().enumerate() {
            eprintln!("  [{i}] upstream <{} {}> served by zone {}{}", ex.qname, ex.qtype, ex.zone, if ex.tampered > 0 { "  ** TAMPERED **" } else { "" });
            eprintln!("      {}", show_msg(&ex.delivered).replace('\n', "\n  "));
        }
        match &outcome {
            Outcome::Msg(m) => eprintln!("  => Ok {}", show_msg(m)),
            Outcome::NsecErr(_, e) | Outcome::Err(e) => eprintln!("  => Err {e}"),
            Outcome::Panic(f) => eprintln!("  => PANIC {}", f.msg),
        }
    }
    Run { outcome, log, inapplicable }
}

// ---------------------------------------------------------------------------------------------
// per-thread cache of the built scenario (zones are expensive, faults are many)

struct Prepared {
    world: Arc<World>,
    query: Query,
    /// fault-free run
    base_log: Vec<Exchange>,
    base_ok: Result<(), Fail>,
    /// genuine records: (owner lower ascii, type, rdata octets) -> largest genuine TTL
    genuine: RefCell<HashMap<(String, u16, Vec<u8>), u32>>,
    /// all single faults in enumeration order
    faults: Vec<Fault>,
}

thread_local! {
    static PREPARED: RefCell<Option<(u64, std::rc::Rc<Prepared>)>> = const { RefCell::new(None) };
}

fn scenario_hash(sc: &Scenario) -> u64 {
    fixed_hash(&[serde_json::to_string(sc).unwrap_or_default().as_bytes()])
}

fn query_of(sc: &Scenario) -> Query {
    let o = name(sc.q.zone.origin());
    let qname = sub(&sc.q.owner, &o);
    let qtype = RecordType::from_str(&sc.q.qtype).unwrap_or(RecordType::A);
    Query::new(qname, qtype)
}

fn rec_key(r: &Record) -> (String, u16, Vec<u8>) {
    (r.name.to_lowercase().to_ascii(), u16::from(r.record_type()), rdata_bytes(&r.data))
}

fn learn_genuine(g: &mut HashMap<(String, u16, Vec<u8>), u32>, m: &Message) {
    for r in m.answers.iter().chain(&m.authorities).chain(&m.additionals) {
        let e = g.entry(rec_key(r)).or_insert(0);
        *e = (*e).max(r.ttl);
    }
}

fn prepare(sc: &Scenario) -> std::rc::Rc<Prepared> {
    let h = scenario_hash(sc);
    if let Some(p) = PREPARED.with(|p| p.borrow().as_ref().filter(|(k, _)| *k == h).map(|(_, v)| v.clone())) {
        return p;
    }
    let world = Arc::new(build_world(sc));
    let query = query_of(sc);
    let mut genuine = HashMap::new();
    for b in &world.zones {
        for (n, t) in pool_queries(sc, b.z) {
            let m = futures_executor::block_on(serve_honest(&world, &n, t));
            learn_genuine(&mut genuine, &m);
        }
    }
    let run = run_validation(&world, vec![], &query, false);
    for ex in &run.log {
        learn_genuine(&mut genuine, &ex.honest);
    }
    let base_ok = judge(&world, &query, &run, &genuine, false);
    let faults = enumerate_faults(&world, &run.log, true);
    let p = std::rc::Rc::new(Prepared {
        world,
        query,
        base_log: run.log,
        base_ok,
        genuine: RefCell::new(genuine),
        faults,
    });
    PREPARED.with(|c| *c.borrow_mut() = Some((h, p.clone())));
    p
}

// ---------------------------------------------------------------------------------------------
// fault enumeration over the fault-free trace

#[derive(Clone, Copy, PartialEq, Eq, Debug)]
enum Kind {
    /// the response to the user's query: every RRset of every section is validated
    Top,
    /// validated sub-query for DNSKEY / DS (request depth > 1: only DNSSEC types are looked at)
    Chain,
    /// un-validated NS probe of the zone-cut search
    Probe,
}

fn kind_of(i: usize, ex: &Exchange) -> Kind {
    if i == 0 {
        Kind::Top
    } else if matches!(ex.qtype, RecordType::DNSKEY | RecordType::DS) {
        Kind::Chain
    } else {
        Kind::Probe
    }
}

/// NT rule: did the validator consume this record in the fault-free run?
fn consumed(kind: Kind, ex: &Exchange, sec: Sec, r: &Record) -> bool {
    let t = rrset_key(r).1;
    match kind {
        Kind::Top => true,
        Kind::Chain => match sec {
            Sec::An => true,
            Sec::Ns => matches!(t, RecordType::NSEC | RecordType::NSEC3 | RecordType::SOA | RecordType::DS | RecordType::DNSKEY),
            Sec::Ar => false,
        },
        Kind::Probe => r.record_type() == RecordType::NS && r.name.to_lowercase() == ex.qname.to_lowercase(),
    }
}

const FLIPS: &[(u16, u8)] = &[(0, 0x01), (500, 0x04), (1000, 0x01)];

/// indices of the first exchange per distinct query, in a canonical order that does not depend
/// on the order in which the validator happened to ask: `first` (the top-level query when the
/// log starts with it) stays in front, the rest is sorted by (qname, qtype)
fn first_occurrences(log: &[Exchange], keep_first: bool) -> Vec<usize> {
    let mut seen = BTreeSet::new();
    let mut v = vec![];
    for (i, ex) in log.iter().enumerate() {
        if seen.insert((ex.qname.to_lowercase().to_ascii(), u16::from(ex.qtype))) {
            v.push(i);
        }
    }
    let skip = usize::from(keep_first && !v.is_empty());
    v[skip..].sort_by_key(|i| (log[*i].qname.to_lowercase().to_ascii(), u16::from(log[*i].qtype)));
    v
}

fn enumerate_faults(world: &World, log: &[Exchange], keep_first: bool) -> Vec<Fault> {
    let mut out = vec![];
    for ri in first_occurrences(log, keep_first) {
        let ex = &log[ri];
        let m = &ex.honest;
        let (qname, qtype) = (ex.qname.to_lowercase().to_ascii(), ex.qtype.to_string());
        let mut push = |sec: Sec, idx: usize, op: Op| out.push(Fault { qname: qname.clone(), qtype: qtype.clone(), sec, idx: idx as u16, op });
        for code in [0u8, 3, 2] {
            if u16::from(m.metadata.response_code) != code as u16 {
                push(Sec::An, 0, Op::Rcode { code });
            }
        }
        let all = || m.answers.iter().chain(&m.authorities).chain(&m.additionals);
        if all().any(|r| matches!(r.record_type(), RecordType::RRSIG | RecordType::NSEC | RecordType::NSEC3)) {
            push(Sec::An, 0, Op::StripDnssec);
        }
        if all().any(|r| matches!(rrset_key(r).1, RecordType::NSEC | RecordType::NSEC3)) {
            push(Sec::An, 0, Op::DropNsec);
        }
        if all().next().is_some() {
            push(Sec::An, 0, Op::Empty);
        }
        if let Some(z) = world.zones.iter().find(|b| b.origin == ex.zone).map(|b| b.z) {
            for (pi, (n, t)) in pool_queries(&world.sc, z).into_iter().enumerate() {
                if !(t == ex.qtype && n.to_lowercase() == ex.qname.to_lowercase()) {
                    push(Sec::An, 0, Op::Replay { pool: pi as u8 });
                }
            }
        }
        for sec in [Sec::An, Sec::Ns] {
            for own in [true, false] {
                for ns in [false, true] {
                    for signed in [false, true] {
                        push(sec, 0, Op::Inject { own, ns, signed });
                    }
                }
            }
        }
        for sec in [Sec::An, Sec::Ns, Sec::Ar] {
            let v = section_ref(m, sec);
            for (i, r) in v.iter().enumerate() {
                let key = rrset_key(r);
                push(sec, i, Op::DropRecord);
                for (permille, mask) in FLIPS {
                    if flip(&r.data, *permille, *mask).is_some() {
                        push(sec, i, Op::FlipBit { permille: *permille, mask: *mask });
                    }
                }
                if key.2 {
                    push(sec, i, Op::CorruptSig);
                    continue;
                }
                if matches!(r.data, RData::DNSSEC(DNSSECRData::DS(_))) {
                    push(sec, i, Op::SwapDs);
                }
                let first = v.iter().position(|x| {
                    let k = rrset_key(x);
                    !k.2 && k.0 == key.0 && k.1 == key.1
                }) == Some(i);
                if !first {
                    continue;
                }
                let has_sigs = v.iter().any(|x| {
                    let k = rrset_key(x);
                    k.2 && k.0 == key.0 && k.1 == key.1
                });
                if has_sigs {
                    push(sec, i, Op::DropRrsigs);
                }
                push(sec, i, Op::DropRrset);
                if v.iter().filter(|x| {
                    let k = rrset_key(x);
                    !k.2 && k.0 == key.0 && k.1 == key.1
                }).count() >= 2
                {
                    push(sec, i, Op::Reverse);
                }
                if attacker_rdata(key.1, &r.name, &ex.zone, &world.attacker, Some(&r.data)).is_some() {
                    push(sec, i, Op::AddRecord);
                    push(sec, i, Op::AddRecordOtherClass);
                    push(sec, i, Op::AddRecordTwice);
                    for sig in [Sig::Keep, Sig::None, Sig::Attacker] {
                        if sig == Sig::Keep && !has_sigs {
                            continue;
                        }
                        push(sec, i, Op::Replace { sig });
                    }
                }
            }
        }
    }
    out
}

// ---------------------------------------------------------------------------------------------
// the oracle

fn show_rec(r: &Record) -> String {
    format!("{} {} {} [{}]", r.name, r.record_type(), r.data, r.proof)
}

fn show_msg(m: &Message) -> String {
    let mut s = format!("rcode={}", m.metadata.response_code);
    for (label, v) in [("AN", &m.answers), ("NS", &m.authorities), ("AR", &m.additionals)] {
        for r in v {
            s.push_str(&format!("\n    {label} {}", show_rec(r)));
        }
    }
    s
}

#[derive(Clone, Copy, PartialEq, Eq, Debug)]
enum Class {
    Positive,
    NoData,
    NxDomain,
    /// rcode other than NOERROR / NXDOMAIN
    Failure,
}

/// The answer a resolver extracts for (qname, qtype) (RFC 1034 4.3.2 / 5.3.3): records owned by
/// the query name with the query type or CNAME, followed along the CNAME chain. RRSIGs excluded.
fn relevant<'a>(q: &Query, answers: &'a [Record]) -> Vec<&'a Record> {
    let mut out: Vec<&Record> = vec![];
    let mut owner = q.name.to_lowercase();
    for _ in 0..8 {
        let mut next = None;
        for r in answers.iter().filter(|r| r.record_type() != RecordType::RRSIG && r.name.to_lowercase() == owner) {
            if r.record_type() == q.query_type {
                out.push(r);
            } else if let RData::CNAME(c) = &r.data {
                out.push(r);
                next = Some(c.0.to_lowercase());
            }
        }
        match next {
            Some(n) if q.query_type != RecordType::CNAME => owner = n,
            _ => break,
        }
    }
    out
}

/// Classified by content, as a resolver would: the header rcode is covered by no signature and
/// the property speaks about records, so a positive answer stays positive whatever the rcode
/// (NOERROR / NXDOMAIN) says.
fn class_of(q: &Query, m: &Message) -> Class {
    match m.metadata.response_code {
        ResponseCode::NoError | ResponseCode::NXDomain if !relevant(q, &m.answers).is_empty() => Class::Positive,
        ResponseCode::NoError => Class::NoData,
        ResponseCode::NXDomain => Class::NxDomain,
        _ => Class::Failure,
    }
}

fn key_set(v: &[&Record]) -> BTreeSet<(String, u16, Vec<u8>)> {
    v.iter().map(|r| rec_key(r)).collect()
}

fn rrsets(v: &[&Record]) -> BTreeMap<(String, u16), BTreeSet<Vec<u8>>> {
    let mut m: BTreeMap<(String, u16), BTreeSet<Vec<u8>>> = BTreeMap::new();
    for r in v {
        let (o, t, d) = rec_key(r);
        m.entry((o, t)).or_default().insert(d);
    }
    m
}

/// every RRset present in `got` is the complete genuine RRset. A CNAME chain cut short (its tail
/// RRsets absent) claims nothing false: the resolver simply has to chase the rest itself.
fn rrsets_genuine(got: &[&Record], honest: &[&Record]) -> bool {
    let h = rrsets(honest);
    rrsets(got).iter().all(|(k, set)| h.get(k) == Some(set))
}

/// status of the queried name per the reference model; DS lives in the parent
fn query_status(world: &World, q: &Query) -> Option<bool> {
    world.sc.status(world.zone_of_record(&q.name, q.query_type))
}

/// Root cause C (fetch_ds_records: owner name of DS records not compared with the zone).
pub const KC: &str = "ds-records-of-another-owner-used-for-the-zone";
/// verify_nsec3: NODATA for the apex name accepted with NSEC3 records that match nothing.
pub const KN1: &str = "nsec3-nodata-at-apex-accepted-without-matching-nsec3";
/// verify_nsec3: the wrap-around NSEC3 record is taken to cover every name.
pub const KN2: &str = "nsec3-wraparound-record-covers-every-name";

/// Name the path of a downgrade / acceptance from what was delivered upstream, so that one
/// signature corresponds to one root cause in the validator.
/// Root cause A (verify_response, the "no NSEC and a non-empty answer section => Ok" branch).
pub const KA: &str = "unrelated-answer-section-accepted-without-denial";
/// Root cause B (find_ds_records / fetch_ds_records, RFC 6840 4.4 NS-bit check missing).
pub const KB: &str = "ds-denial-at-non-delegation-name-accepted-as-insecure-delegation";

/// Name the path of a downgrade / acceptance from what was delivered upstream, so that one
/// signature corresponds to one root cause in the validator. None = no known pattern.
fn tamper_path(world: &World, run: &Run) -> Option<&'static str> {
    // fetch_ds_records takes every DS-type record of the answer section, whatever its owner: a
    // genuine (validly signed) DS RRset of *another* delegation, replayed into the DS response
    // for this zone, passes the "any DS record is Secure" gate; when it holds only unsupported
    // algorithms / digests the zone is declared Insecure.
    // (attributed only while that finding is still open: once fetch_ds_records compares the
    // owner, what is left of this shape belongs to the other root causes below)
    static KC_OPEN: std::sync::OnceLock<bool> = std::sync::OnceLock::new();
    let kc_open = *KC_OPEN.get_or_init(|| crate::core::known_signatures("C07").iter().any(|k| k == KC));
    for ex in run.log.iter().filter(|e| kc_open && e.tampered > 0 && e.qtype == RecordType::DS) {
        if ex.delivered.answers.iter().any(|r| r.record_type() == RecordType::DS && r.name.to_lowercase() != ex.qname.to_lowercase()) {
            return Some(KC);
        }
    }
    for ex in run.log.iter().filter(|e| e.tampered > 0) {
        let d = &ex.delivered;
        let q = Query::new(ex.qname.clone(), ex.qtype);
        // an NSEC/NSEC3 that could be validated at all: it has a covering RRSIG whose signer is a
        // zone at or below the trust anchor
        let has_signed_nsec = d.authorities.iter().any(|r| {
            matches!(r.record_type(), RecordType::NSEC | RecordType::NSEC3)
                && d.authorities.iter().any(|s| match &s.data {
                    RData::DNSSEC(DNSSECRData::RRSIG(sig)) => {
                        rrset_key(s) == (r.name.to_lowercase(), r.record_type(), true)
                            && world.zones.iter().any(|b| b.origin == sig.input().signer_name.to_lowercase() && world.sc.under_anchor(b.z))
                    }
                    _ => false,
                })
        });
        if !d.answers.is_empty() && relevant(&q, &d.answers).is_empty() && !has_signed_nsec {
            // verify_response returns Ok for a response whose answer section is non-empty but
            // holds no RRset for the query and that carries no usable denial. For the top-level
            // response an existing RRset vanishes unnoticed; for a DS sub-query,
            // fetch_ds_records reads "Ok without DS records" as proof of an insecure delegation.
            return Some(KA);
        }
    }
    // Root causes in verify_nsec3 (C09's subject, reached here end to end): a *false* denial made
    // of genuine, validly signed NSEC3 records was delivered for some query of the chain.
    for ex in run.log.iter().filter(|e| e.tampered > 0) {
        let d = &ex.delivered;
        let q = Query::new(ex.qname.clone(), ex.qtype);
        let nsec3s: Vec<(&Record, &NSEC3)> = d
            .authorities
            .iter()
            .filter_map(|r| match &r.data {
                RData::DNSSEC(DNSSECRData::NSEC3(n)) => Some((r, n)),
                _ => None,
            })
            .collect();
        let (dc, hc) = (class_of(&q, d), class_of(&q, &ex.honest));
        if nsec3s.is_empty() || dc == hc || !matches!(dc, Class::NoData | Class::NxDomain) {
            continue;
        }
        let soa = d.authorities.iter().find(|r| r.record_type() == RecordType::SOA).map(|r| r.name.to_lowercase());
        let matches_qname = nsec3s.iter().any(|(r, n)| {
            n.hash_algorithm()
                .hash(n.salt(), &q.name.to_lowercase(), n.iterations())
                .ok()
                .is_some_and(|h| r.name.iter().next().is_some_and(|l| l.eq_ignore_ascii_case(data_encoding::BASE32_DNSSEC.encode(h.as_ref()).as_bytes())))
        });
        if dc == Class::NoData && soa == Some(q.name.to_lowercase()) && !matches_qname {
            // validate_nodata_response: "(None, None, None) if query name == SOA => Secure"
            return Some(KN1);
        }
        let wraparound = nsec3s.iter().any(|(r, n)| {
            r.name.iter().next().is_some_and(|l| {
                let owner = l.to_ascii_lowercase();
                let next = data_encoding::BASE32_DNSSEC.encode(n.next_hashed_owner_name()).into_bytes();
                owner > next
            })
        });
        if wraparound {
            // find_covering_record, wrap-around case: the comparisons are inverted, so the last
            // NSEC3 of the chain "covers" every hash
            return Some(KN2);
        }
    }
    // RFC 6840 4.4: a DS denial proves an insecure delegation only if the matching NSEC/NSEC3 has
    // the NS bit (there is a delegation at all). The validator located a "zone cut" from an
    // unauthenticated NS RRset (or took the owner of a DNSKEY RRset for an apex) and then accepted
    // the genuine denial of DS at a name that is no delegation.
    let origins = [Z::Root, Z::Tld, Z::Leaf, Z::Sib].map(|z| name(z.origin()));
    if run
        .log
        .iter()
        .any(|e| {
            let q = Query::new(e.qname.clone(), e.qtype);
            e.qtype == RecordType::DS
                && !origins.iter().any(|o| *o == e.qname.to_lowercase())
                // the genuine answer holds no DS (a denial, or a CNAME at that name) and what was
                // delivered says the same
                && !e.honest.answers.iter().any(|r| r.record_type() == RecordType::DS)
                && class_of(&q, &e.delivered) == class_of(&q, &e.honest)
        })
    {
        return Some(KB);
    }
    None
}

fn sig_for(world: &World, base: &str, run: &Run) -> String {
    tamper_path(world, run).map(str::to_string).unwrap_or_else(|| base.to_string())
}

/// Is this DNSKEY authenticated *directly*: its public key is a configured trust anchor, or it
/// is a genuine key for which the parent publishes a supported DS?
fn directly_authenticated(world: &World, r: &Record) -> bool {
    let RData::DNSSEC(DNSSECRData::DNSKEY(k)) = &r.data else {
        return false;
    };
    let anchor_zone = world.zone(world.sc.anchor.zone);
    let owner = r.name.to_lowercase();
    if owner == anchor_zone.origin.to_lowercase()
        && anchor_zone.keys.iter().enumerate().any(|(i, a)| world.sc.anchor.mask & (1 << i) != 0 && a.dnskey.public_key() == k.public_key())
    {
        return true;
    }
    world.zones.iter().any(|b| {
        let spec = world.sc.spec(b.z).expect("spec");
        b.origin.to_lowercase() == owner && spec.ds_kind.has_supported() && b.keys.iter().enumerate().any(|(i, a)| spec.ds_mask & (1 << i) != 0 && a.dnskey == *k)
    })
}

/// Root cause K2 (verify_dnskey_rrset, "accept the entire set").
pub const K2: &str = "dnskey-rrset-of-anchor-or-ds-matched-keys-secure-without-valid-rrsig";

fn judge(world: &World, q: &Query, run: &Run, genuine: &HashMap<(String, u16, Vec<u8>), u32>, faulted: bool) -> CaseResult {
    let Some(secure) = query_status(world, q) else {
        return Err(Fail::new("harness-query-outside-anchor", format!("{q} is not under the trust anchor")));
    };
    let honest_top = run
        .log
        .first()
        .map(|e| &e.honest)
        .ok_or_else(|| Fail::new("harness-no-upstream-exchange", "the validator never asked upstream"))?;
    let honest_class = class_of(q, honest_top);
    let honest_rel = relevant(q, &honest_top.answers);

    let msg = match &run.outcome {
        Outcome::Panic(f) => return Err(f.clone()),
        Outcome::Err(e) => {
            // an error is the safe outcome under faults; without faults it is a completeness failure
            vensure!(faulted, if secure { "faultfree-secure-chain-rejected" } else { "faultfree-insecure-chain-rejected" }, "no fault, yet {q} failed: {e}");
            return Ok(());
        }
        Outcome::NsecErr(proof, e) => {
            vensure!(faulted, if secure { "faultfree-secure-denial-rejected" } else { "faultfree-insecure-denial-rejected" }, "no fault, yet {q} failed: {e}");
            // hickory's server treats Nsec{proof: Insecure} as an insecure negative answer
            // (catalog.rs build_forwarded_response), so it is not an error outcome
            vensure!(!(secure && proof.is_insecure()), "secure-denial-downgraded-to-insecure-nsec-error", "{q}: secure chain, outcome {e}");
            return Ok(());
        }
        Outcome::Msg(m) => m,
    };

    let directly_authenticated = |r: &Record| directly_authenticated(world, r);
    // Root cause K2: a DNSKEY RRset in which every record is directly authenticated (anchor key
    // or DS match) is accepted although no RRSIG over it verifies (verify_dnskey_rrset, "accept
    // the entire set")
    let all_dnskeys_direct = {
        let ks: Vec<&Record> = msg.answers.iter().filter(|r| r.record_type() == RecordType::DNSKEY).collect();
        !ks.is_empty() && ks.iter().all(|r| directly_authenticated(r))
    };

    // R1: Secure => genuine
    for (label, v) in [("answer", &msg.answers), ("authority", &msg.authorities), ("additional", &msg.additionals)] {
        for r in v.iter().filter(|r| r.proof == Proof::Secure) {
            match genuine.get(&rec_key(r)) {
                None => vfail!(
                    if r.record_type() == RecordType::RRSIG {
                        "secure-proof-on-forged-rrsig"
                    } else if directly_authenticated(r) && all_dnskeys_direct {
                        K2
                    } else {
                        "secure-proof-on-forged-record"
                    },
                    "{q}: {label} record returned Secure is not genuine zone data: {}\n  outcome: {}",
                    show_rec(r),
                    show_msg(msg)
                ),
                Some(ttl) => vensure!(r.ttl <= *ttl, "secure-record-ttl-above-genuine", "{q}: {} ttl {} > genuine {}", show_rec(r), r.ttl, ttl),
            }
        }
    }
    // R2: Insecure label only where the model says the zone is insecure
    for v in [&msg.answers, &msg.authorities] {
        for r in v.iter().filter(|r| r.proof == Proof::Insecure && r.record_type() != RecordType::RRSIG) {
            // by owner and type only: for a forged record at a zone cut the child is the lenient
            // choice (the validator cannot tell either)
            let z = world.zone_of_record(&r.name, r.record_type());
            if world.sc.status(z) == Some(true) {
                if !faulted {
                    vfail!("faultfree-secure-zone-returned-insecure", "{q}: {} labelled Insecure\n  {}", show_rec(r), show_msg(msg));
                }
                vfail!(
                    sig_for(world, "record-of-secure-zone-returned-insecure", run),
                    "{q}: {} lies in zone {:?} which has an unbroken chain to the anchor, but is labelled Insecure\n  outcome: {}",
                    show_rec(r),
                    z,
                    show_msg(msg)
                );
            }
        }
    }

    let class = class_of(q, msg);
    let rel = relevant(q, &msg.answers);
    let others = || msg.answers.iter().chain(&msg.authorities).filter(|r| r.record_type() != RecordType::RRSIG);
    let secure_denial_present = msg
        .authorities
        .iter()
        .any(|r| matches!(r.record_type(), RecordType::NSEC | RecordType::NSEC3) && r.proof == Proof::Secure);

    if !faulted {
        // R4 completeness
        vensure!(class == honest_class, "faultfree-class-changed", "{q}: genuine answer is {honest_class:?}, validator returned {class:?}\n  {}", show_msg(msg));
        let want = if secure { Proof::Secure } else { Proof::Insecure };
        let wrong: Vec<&Record> = others().filter(|r| r.proof != want).collect();
        vensure!(
            wrong.is_empty(),
            if secure { "faultfree-secure-data-not-secure" } else { "faultfree-insecure-data-not-insecure" },
            "{q}: model status {}, outcome:\n  {}",
            if secure { "Secure" } else { "Insecure" },
            show_msg(msg)
        );
        vensure!(key_set(&rel) == key_set(&honest_rel), "faultfree-answer-differs", "{q}: answers differ from the zone's\n  {}", show_msg(msg));
        if secure && class != Class::Positive {
            vensure!(secure_denial_present, "faultfree-secure-negative-without-proof", "{q}: no Secure NSEC/NSEC3\n  {}", show_msg(msg));
        }
        return Ok(());
    }

    if !secure {
        // an insecure chain gives an attacker free rein over the data; only R1/R2 apply
        return Ok(());
    }

    // R3: secure chain under faults. Error-like outcomes first.
    if class == Class::Failure {
        return Ok(());
    }
    match class {
        Class::Positive => {
            if rel.iter().any(|r| r.proof == Proof::Bogus) {
                return Ok(());
            }
            // R2 already excluded Insecure
            if rel.iter().any(|r| r.proof != Proof::Secure) {
                vfail!("secure-chain-unvalidated-answer-returned", "{q}: secure chain, answer carries no verdict\n  {}", show_msg(msg));
            }
            if honest_class != Class::Positive {
                vfail!("secure-answer-for-nonexistent-data", "{q}: genuine answer is {honest_class:?}\n  {}", show_msg(msg));
            }
            if !rrsets_genuine(&rel, &honest_rel) {
                vfail!(
                    if q.query_type == RecordType::DNSKEY && all_dnskeys_direct { K2 } else { "secure-answer-differs-from-genuine" },
                    "{q}: Secure answer RRset differs from the zone's\n  {}",
                    show_msg(msg)
                );
            }
        }
        Class::NoData | Class::NxDomain => {
            // hickory's server summarises a negative answer over the authority section
            // (Bogus anywhere => SERVFAIL)
            if msg.answers.iter().chain(&msg.authorities).any(|r| r.proof == Proof::Bogus) {
                return Ok(());
            }
            if honest_class == Class::Positive {
                vfail!(
                    sig_for(world, if secure_denial_present { "denial-of-existing-data-accepted-with-secure-nsec" } else { "denial-of-existing-data-accepted-without-proof" }, run),
                    "{q}: the RRset exists, outcome is {class:?} and not an error\n  {}",
                    show_msg(msg)
                );
            }
            vensure!(
                secure_denial_present,
                sig_for(world, "secure-chain-denial-accepted-without-proof", run),
                "{q}: secure chain, {class:?} accepted without any Secure NSEC/NSEC3\n  {}",
                show_msg(msg)
            );
            vensure!(class == honest_class, sig_for(world, "secure-denial-kind-changed", run), "{q}: genuine {honest_class:?}, outcome {class:?}\n  {}", show_msg(msg));
        }
        Class::Failure => {}
    }
    Ok(())
}

// ---------------------------------------------------------------------------------------------
// cases

#[derive(Clone, Debug, Serialize, Deserialize)]
pub struct SingleCase {
    pub sc: Scenario,
    /// None = the fault-free run of the scenario
    pub fault: Option<Fault>,
    /// further faults (hand-written regression files only; the enumerator leaves it empty).
    /// They may address queries that do not occur in the fault-free trace.
    #[serde(default, skip_serializing_if = "Vec::is_empty")]
    pub also: Vec<Fault>,
}

#[derive(Clone, Debug, Serialize, Deserialize)]
pub struct DoubleCase {
    pub sc: Scenario,
    /// indices into the pools below (modulo their length)
    pub a: u32,
    pub b: u32,
    /// 0 = both uniformly from all single faults; 1 = both from the attacker-constructive
    /// operators; 2 = forged chain link: `a` forges data in the top-level response, `b` forges
    /// the DNSKEY / DS RRset (or the zone-cut probe) that would have to vouch for it;
    /// 3 = follow-up: `a` from the constructive single faults, `b` from the faults on the
    /// responses to queries that the validator sends only because of `a`
    pub mode: u8,
}

/// a fault ready to be armed, with what the evidence needs to know about it
struct Planned {
    armed: Armed,
    kind: Kind,
    /// NT rule: lands on something the validator consumes
    consumed: bool,
    /// hits a response to a query that only an earlier fault provoked
    follow_up: bool,
    desc: String,
}

/// `top_is_first`: log[0] is the exchange for the user's query
fn plan(log: &[Exchange], top_is_first: bool, f: &Fault) -> Option<Planned> {
    let resp = log.iter().position(|ex| f.hits(ex))?;
    let ex = &log[resp];
    let kind = if top_is_first { kind_of(resp, ex) } else { kind_of(resp.max(1), ex) };
    let target = section_ref(&ex.honest, f.sec).get(f.idx as usize);
    let consumed = f.op.response_level() || target.is_some_and(|r| consumed(kind, ex, f.sec, r));
    let desc = format!(
        "fault on response to <{} {}>: {:?} {:?}[{}]{}",
        ex.qname,
        ex.qtype,
        f.op,
        f.sec,
        f.idx,
        if f.op.response_level() { String::new() } else { target.map(|r| format!(" = {} {}", r.name, rrset_key(r).1)).unwrap_or_default() }
    );
    Some(Planned { armed: Armed { qname: ex.qname.clone(), qtype: ex.qtype, fault: f.clone() }, kind, consumed, follow_up: !top_is_first, desc })
}

/// a fault on a response of the fault-free trace; or, for hand-written cases, on the response
/// to a query that only occurs under faults
fn plan_base(p: &Prepared, f: &Fault) -> Option<Planned> {
    if let Some(pl) = plan(&p.base_log, true, f) {
        return Some(pl);
    }
    let qname = Name::from_ascii(&f.qname).ok()?;
    let qtype = RecordType::from_str(&f.qtype).ok()?;
    let kind = if matches!(qtype, RecordType::DNSKEY | RecordType::DS) { Kind::Chain } else { Kind::Probe };
    Some(Planned {
        armed: Armed { qname: qname.clone(), qtype, fault: f.clone() },
        kind,
        consumed: true,
        follow_up: true,
        desc: format!("fault on response to <{qname} {qtype}> (asked only under faults): {:?} {:?}[{}]", f.op, f.sec, f.idx),
    })
}

fn describe(p: &Prepared, planned: &[Planned]) -> String {
    let mut s = format!("{} | query {} {}", p.world.sc.shape(), p.query.name, p.query.query_type);
    for f in planned {
        s.push_str(" | ");
        s.push_str(&f.desc);
    }
    s
}

fn op_label(op: &Op) -> &'static str {
    match op {
        Op::FlipBit { .. } => "flip-rdata-bit",
        Op::DropRecord => "drop-record",
        Op::DropRrsigs => "drop-rrsigs",
        Op::DropRrset => "drop-rrset",
        Op::CorruptSig => "corrupt-signature",
        Op::Replace { sig: Sig::Keep } => "replace-keep-sig",
        Op::Replace { sig: Sig::None } => "replace-unsigned",
        Op::Replace { sig: Sig::Attacker } => "replace-attacker-signed",
        Op::AddRecord => "add-record",
        Op::AddRecordOtherClass => "add-record-class-ch",
        Op::AddRecordTwice => "add-record-twice",
        Op::Reverse => "reverse-rrset-order",
        Op::SwapDs => "swap-ds",
        Op::Inject { signed: false, .. } => "inject-unsigned",
        Op::Inject { signed: true, .. } => "inject-attacker-signed",
        Op::DropNsec => "drop-nsec",
        Op::Rcode { .. } => "change-rcode",
        Op::StripDnssec => "strip-dnssec",
        Op::Empty => "empty-response",
        Op::Replay { .. } => "replay-other-genuine-response",
    }
}

fn classify_scenario(p: &Prepared, rec: &mut Rec) {
    let sc = &p.world.sc;
    let secure = query_status(&p.world, &p.query) == Some(true);
    rec.class(if secure { "status/secure" } else { "status/insecure" });
    rec.class(format!("anchor/{:?}", sc.anchor.zone));
    rec.class(if sc.err_style { "upstream/negative-as-error" } else { "upstream/always-ok" });
    if let Some(top) = p.base_log.first() {
        rec.class(format!("answer/{:?}", class_of(&p.query, &top.honest)));
    }
    rec.class(format!("qtype/{}", p.query.query_type));
    let island = |z: Z| sc.spec(z).is_some_and(|s| s.signed && !s.has_ds()) && z != sc.anchor.zone;
    if [Z::Tld, Z::Leaf, Z::Sib].into_iter().any(island) {
        rec.class("shape/signed-island-without-ds");
    }
    if [Z::Tld, Z::Leaf, Z::Sib].into_iter().any(|z| sc.spec(z).is_some_and(|s| !s.signed) && z.parent().and_then(|p| sc.spec(p)).is_some_and(|p| p.signed)) {
        rec.class("shape/unsigned-under-signed");
    }
    if [Z::Tld, Z::Leaf, Z::Sib].into_iter().any(|z| sc.spec(z).is_some_and(|s| !s.signed) && z.parent().and_then(|p| sc.spec(p)).is_some_and(|p| !p.signed)) {
        rec.class("shape/unsigned-under-unsigned");
    }
    for z in [Z::Root, Z::Tld, Z::Leaf, Z::Sib] {
        if let Some(s) = sc.spec(z) {
            if s.signed {
                rec.class(format!("keys/{}", s.nkeys));
                rec.class(match s.nx {
                    Nx::Nsec => "nx/nsec",
                    Nx::Nsec3 { .. } => "nx/nsec3",
                });
                if s.collide {
                    rec.class("keys/tag-collision");
                }
                if s.has_ds() {
                    rec.class(format!("ds/{:?}", s.ds_kind));
                    if s.ds_mask.count_ones() < s.nkeys as u32 {
                        rec.class("ds/subset-of-keys");
                    }
                }
            }
        }
    }
}


fn run_case(sc: &Scenario, pick: impl FnOnce(&Prepared) -> Result<Vec<Planned>, String>, rec: &mut Rec) -> CaseResult {
    let _clock = clock::VirtualClock::start(BASE);
    let p = prepare(sc);
    let planned = match pick(&p) {
        Ok(f) => f,
        Err(why) => {
            rec.discard(why);
            return Ok(());
        }
    };
    if planned.is_empty() {
        classify_scenario(&p, rec);
        rec.class("faults/none");
        rec.nontrivial();
        rec.note(describe(&p, &[]));
        return p.base_ok.clone();
    }
    // a scenario whose fault-free run is off (known finding or not) says nothing under faults
    if let Err(f) = &p.base_ok {
        rec.discard(format!("fault-free-run-failed:{}", f.sig));
        return Ok(());
    }
    // half of the cases (always for the duplicate injection, whose cold run equals add-record's)
    // meet a validator that has already validated the genuine responses to this query
    // (only when a fault sits on the top-level response: with cached verdicts on the genuine
    // RRsets the validator does not ask for the chain again, faults there would never be delivered)
    let warm = planned.iter().any(|f| matches!(f.kind, Kind::Top))
        && (planned.iter().any(|f| f.armed.fault.op == Op::AddRecordTwice) || fixed_hash(&[b"c07-warm", describe(&p, &planned).as_bytes()]) & 1 == 1);
    rec.class(if warm { "validator/warm-validation-cache" } else { "validator/cold" });
    let run = run_validation(&p.world, planned.iter().map(|f| f.armed.clone()).collect(), &p.query, warm);
    if let Some(why) = run.inapplicable {
        rec.discard(format!("fault-inapplicable:{why}"));
        return Ok(());
    }
    if run.log.iter().all(|e| e.tampered == 0) {
        rec.discard("fault-never-delivered");
        return Ok(());
    }
    {
        // every honestly served response is genuine data by construction
        let mut g = p.genuine.borrow_mut();
        for ex in &run.log {
            learn_genuine(&mut g, &ex.honest);
        }
    }
    let secure = query_status(&p.world, &p.query) == Some(true);
    rec.class(if secure { "status/secure" } else { "status/insecure" });
    let mut nt = false;
    for f in &planned {
        rec.class(format!("op/{}", op_label(&f.armed.fault.op)));
        rec.class(match f.kind {
            Kind::Top => "target/top-level-response",
            Kind::Chain if f.armed.qtype == RecordType::DS => "target/ds-response",
            Kind::Chain => "target/dnskey-response",
            Kind::Probe => "target/ns-probe-response",
        });
        nt |= f.consumed;
        if f.follow_up {
            rec.class("pair/follow-up-realised");
        }
    }
    rec.class(match &run.outcome {
        Outcome::Err(_) | Outcome::NsecErr(..) => "outcome/error",
        Outcome::Panic(_) => "outcome/panic",
        Outcome::Msg(m) => {
            let data: Vec<&Record> = m.answers.iter().chain(&m.authorities).filter(|r| r.record_type() != RecordType::RRSIG).collect();
            if data.iter().any(|r| r.proof == Proof::Bogus) {
                "outcome/bogus"
            } else if !data.is_empty() && data.iter().all(|r| r.proof == Proof::Secure) {
                "outcome/secure-genuine"
            } else if data.iter().any(|r| r.proof == Proof::Insecure) {
                "outcome/insecure"
            } else {
                "outcome/other"
            }
        }
    });
    if nt {
        rec.nontrivial();
        rec.note(describe(&p, &planned));
    }
    let g = p.genuine.borrow();
    judge(&p.world, &p.query, &run, &g, true).map_err(|mut f| {
        f.msg = format!("{}\n  case: {}", f.msg, describe(&p, &planned));
        f
    })
}

fn scenarios(seed: u64, n: usize) -> Vec<Scenario> {
    let mut s = [0u8; 32];
    for i in 0..4u64 {
        s[(i as usize) * 8..(i as usize) * 8 + 8].copy_from_slice(&fixed_hash(&[b"c07-scenarios", &seed.to_le_bytes(), &i.to_le_bytes()]).to_le_bytes());
    }
    let mut runner = TestRunner::new_with_rng(Config::default(), TestRng::from_seed(RngAlgorithm::ChaCha, &s));
    let strat = hier::scenario();
    (0..n).map(|_| strat.new_tree(&mut runner).expect("scenario").current()).collect()
}

fn constructive(f: &Fault) -> bool {
    matches!(
        f.op,
        Op::Replace { .. } | Op::Inject { .. } | Op::DropRrset | Op::DropRrsigs | Op::SwapDs | Op::AddRecord | Op::AddRecordOtherClass | Op::AddRecordTwice | Op::Empty | Op::StripDnssec | Op::DropNsec | Op::Replay { .. }
    )
}

fn pick_double(c: &DoubleCase, p: &Prepared) -> Result<Vec<Planned>, String> {
    if p.faults.len() < 2 {
        return Err("fewer-than-two-faults".into());
    }
    let target_type = |f: &Fault| {
        let resp = p.base_log.iter().position(|ex| f.hits(ex)).unwrap_or(0);
        let ex = &p.base_log[resp];
        (kind_of(resp, ex), ex.qtype, section_ref(&ex.honest, f.sec).get(f.idx as usize).map(|r| rrset_key(r).1))
    };
    let follow_up = || -> Result<Option<Vec<Planned>>, String> {
        // follow-up: b hits a response the validator asks for only because of a
        // faults that leave unsigned or foreign-signed data behind make the validator look for
        // zone cuts, DS RRsets and other keys
        let pool_a: Vec<&Fault> = p
            .faults
            .iter()
            .filter(|f| {
                let (kind, qt, rt) = target_type(f);
                match kind {
                    // unsigned data in the top-level response: zone-cut probes and DS look-ups
                    Kind::Top => f.sec != Sec::Ar && matches!(f.op, Op::Replace { sig: Sig::None } | Op::Inject { signed: false, .. } | Op::DropRrsigs | Op::StripDnssec),
                    // a foreign key in a DNSKEY RRset, unsigned DS / DNSKEY RRsets
                    Kind::Chain => {
                        (qt == RecordType::DNSKEY && rt == Some(RecordType::DNSKEY) && matches!(f.op, Op::AddRecord | Op::AddRecordOtherClass | Op::Replace { .. } | Op::DropRrsigs))
                            || (qt == RecordType::DNSKEY && matches!(f.op, Op::Inject { own: true, ns: false, .. } | Op::StripDnssec))
                            || (qt == RecordType::DS && matches!(f.op, Op::DropRrsigs | Op::StripDnssec | Op::Replace { sig: Sig::None }))
                    }
                    Kind::Probe => false,
                }
            })
            .collect();
        if pool_a.is_empty() {
            return Ok(None);
        }
        let a = pool_a[c.a as usize % pool_a.len()];
        let pa = plan_base(p, a).ok_or("fault-response-index-out-of-trace")?;
        if p.base_ok.is_err() {
            return Err("fault-free-run-failed".into());
        }
        let run_a = run_validation(&p.world, vec![pa.armed.clone()], &p.query, false);
        let base_keys: BTreeSet<(String, u16)> = p.base_log.iter().map(|e| (e.qname.to_lowercase().to_ascii(), u16::from(e.qtype))).collect();
        let new_idx: Vec<usize> = first_occurrences(&run_a.log, true)
            .into_iter()
            .filter(|i| !base_keys.contains(&(run_a.log[*i].qname.to_lowercase().to_ascii(), u16::from(run_a.log[*i].qtype))))
            .collect();
        if new_idx.is_empty() {
            return Ok(None);
        }
        // faults on the new exchanges only
        let sub_log: Vec<Exchange> = new_idx.iter().map(|i| run_a.log[*i].clone()).collect();
        let follow = enumerate_faults(&p.world, &sub_log, false);
        let pool_b: Vec<&Fault> = follow.iter().filter(|f| constructive(f)).collect();
        if pool_b.is_empty() {
            return Ok(None);
        }
        let b = pool_b[c.b as usize % pool_b.len()];
        let pb = plan(&sub_log, false, b).ok_or("fault-response-index-out-of-trace")?;
        Ok(Some(vec![pa, pb]))
    };
    if c.mode == 3 {
        // when the first fault provokes no new query, fall back to a constructive pair
        if let Some(v) = follow_up()? {
            return Ok(v);
        }
    }
    let (pool_a, pool_b): (Vec<&Fault>, Vec<&Fault>) = match c.mode {
        0 => (p.faults.iter().collect(), p.faults.iter().collect()),
        1 | 3 => (p.faults.iter().filter(|f| constructive(f)).collect(), p.faults.iter().filter(|f| constructive(f)).collect()),
        _ => (
            p.faults
                .iter()
                .filter(|f| {
                    target_type(f).0 == Kind::Top
                        && matches!(f.op, Op::Replace { sig: Sig::Attacker } | Op::Inject { signed: true, .. } | Op::Replace { sig: Sig::None } | Op::Inject { signed: false, .. })
                })
                .collect(),
            p.faults
                .iter()
                .filter(|f| {
                    let (kind, qt, rt) = target_type(f);
                    kind != Kind::Top
                        && ((qt == RecordType::DNSKEY && rt == Some(RecordType::DNSKEY) && matches!(f.op, Op::Replace { .. } | Op::AddRecord | Op::AddRecordOtherClass))
                            || (qt == RecordType::DS && rt == Some(RecordType::DS) && matches!(f.op, Op::Replace { .. } | Op::SwapDs | Op::AddRecord | Op::AddRecordOtherClass | Op::DropRrset))
                            || (qt == RecordType::DS && matches!(f.op, Op::Empty | Op::Replay { .. } | Op::DropNsec | Op::StripDnssec))
                            || (kind == Kind::Probe && matches!(f.op, Op::Inject { ns: true, .. })))
                })
                .collect(),
        ),
    };
    if pool_a.is_empty() || pool_b.is_empty() {
        return Err("fewer-than-two-faults".into());
    }
    let a = pool_a[c.a as usize % pool_a.len()].clone();
    let b = pool_b[c.b as usize % pool_b.len()].clone();
    if a == b {
        return Err("same-fault-twice".into());
    }
    if a.same_response(&b) && !(a.op.response_level() || b.op.response_level()) && a.sec == b.sec {
        // two record-level edits of one section: indices of the second would shift
        return Err("overlapping-record-edits".into());
    }
    // response-level operators after record-level ones, so that indices stay valid
    let mut v = vec![a, b];
    v.sort_by_key(|f| f.op.response_level());
    v.iter().map(|f| plan_base(p, f).ok_or_else(|| "fault-response-index-out-of-trace".to_string())).collect()
}

// ---------------------------------------------------------------------------------------------
// clause (d): the same through hickory's server. A small `ZoneHandler` of type External with
// `can_validate_dnssec() == true` sits under a real `Catalog`; it resolves through the real
// `DnssecDnsHandle` over the scripted upstream and hands the result over exactly as
// `ValidatingRecursor::resolve` does (resolver/src/recursor/mod.rs: NXDOMAIN and NODATA in error
// form, everything else as `AuthLookup::Response`). What is under test here is
// `build_forwarded_response` (catalog.rs): Secure => AD, Bogus and CD=0 => SERVFAIL without data.

struct ValidatingAdapter {
    origin: LowerName,
    handle: DnssecDnsHandle<Upstream>,
    /// what the validating handle returned for the client's query
    seen: Mutex<Option<HandleSaw>>,
}

#[derive(Clone, Copy, Debug, Default)]
struct HandleSaw {
    ok: bool,
    /// a record that answers the query is marked Bogus
    bogus_relevant: bool,
    positive: bool,
}

#[async_trait::async_trait]
impl ZoneHandler for ValidatingAdapter {
    fn zone_type(&self) -> ZoneType {
        ZoneType::External
    }
    fn axfr_policy(&self) -> AxfrPolicy {
        AxfrPolicy::Deny
    }
    fn can_validate_dnssec(&self) -> bool {
        true
    }
    fn origin(&self) -> &LowerName {
        &self.origin
    }
    async fn lookup(&self, name: &LowerName, rtype: RecordType, _request_info: Option<&RequestInfo<'_>>, lookup_options: LookupOptions) -> LookupControlFlow<AuthLookup> {
        use hickory_resolver::recursor::RecursorError;
        let query = Query::new(name.into(), rtype);
        let mut options = DnsRequestOptions::default();
        options.use_edns = true;
        options.edns_set_dnssec_ok = true;
        let result = self.handle.lookup(query.clone(), options).first_answer().await;
        let response = match result {
            Ok(r) => r,
            Err(e) => {
                *self.seen.lock().unwrap() = Some(HandleSaw::default());
                return LookupControlFlow::Continue(Err(LookupError::from(RecursorError::from(e))));
            }
        };
        *self.seen.lock().unwrap() = Some(HandleSaw {
            ok: true,
            bogus_relevant: relevant(&query, &response.answers).iter().any(|r| r.proof == Proof::Bogus),
            positive: !response.answers.is_empty(),
        });
        // from here on: ValidatingRecursor::resolve, line by line
        if response.response_code == ResponseCode::NXDomain {
            let Err(dns_error) = DnsError::from_response(response) else {
                return LookupControlFlow::Continue(Err(LookupError::from(RecursorError::from("unable to build ProtoError from response {response:?}"))));
            };
            LookupControlFlow::Continue(Err(LookupError::from(RecursorError::Net(NetError::from(dns_error)))))
        } else if response.answers.is_empty() && !response.authorities.is_empty() && response.response_code == ResponseCode::NoError {
            let mut no_records = hickory_net::NoRecords::new(query.clone(), ResponseCode::NoError);
            no_records.soa = response.soa().as_ref().map(|record| Box::new(record.to_owned()));
            no_records.authorities = Some(
                response
                    .authorities
                    .iter()
                    .filter_map(|x| match x.record_type() {
                        RecordType::SOA => None,
                        _ => Some(x.clone()),
                    })
                    .collect(),
            );
            LookupControlFlow::Continue(Err(LookupError::from(RecursorError::from(NetError::from(no_records)))))
        } else {
            let message = response.into_message();
            LookupControlFlow::Continue(Ok(AuthLookup::Response(message.maybe_strip_dnssec_records(lookup_options.dnssec_ok))))
        }
    }
    async fn nsec_records(&self, _name: &LowerName, _lookup_options: LookupOptions) -> LookupControlFlow<AuthLookup> {
        LookupControlFlow::Continue(Err(LookupError::from(std::io::Error::other("unimplemented"))))
    }
    async fn nsec3_records(&self, _info: Nsec3QueryInfo<'_>, _lookup_options: LookupOptions) -> LookupControlFlow<AuthLookup> {
        LookupControlFlow::Continue(Err(LookupError::from(std::io::Error::other("unimplemented"))))
    }
    fn nx_proof_kind(&self) -> Option<&NxProofKind> {
        None
    }
    fn metrics_label(&self) -> &'static str {
        "c07-validating-adapter"
    }
}

#[derive(Clone, Debug, Serialize, Deserialize)]
pub struct ServerCase {
    pub sc: Scenario,
    /// index into the scenario's single-fault list (modulo its length); None = no fault
    pub fault: Option<u32>,
    /// the client's CD bit
    pub cd: bool,
}

struct ServerRun {
    response: Message,
    saw: Option<HandleSaw>,
    run: Run,
}

fn run_server(world: &Arc<World>, armed: Vec<Armed>, q: &Query, cd: bool) -> Result<ServerRun, Fail> {
    clock::set_virtual_nanos(QUERY_AFTER * 1_000_000_000);
    let up = Upstream(Arc::new(UpInner { world: world.clone(), enabled: std::sync::atomic::AtomicBool::new(true), armed, log: Mutex::new(vec![]), inapplicable: Mutex::new(None) }));
    let mut anchors = TrustAnchors::empty();
    let az = world.zone(world.sc.anchor.zone);
    for (i, k) in az.keys.iter().enumerate() {
        if world.sc.anchor.mask & (1 << i) != 0 {
            anchors.insert(&k.pk);
        }
    }
    let adapter = Arc::new(ValidatingAdapter {
        origin: LowerName::new(&Name::root()),
        handle: DnssecDnsHandle::with_trust_anchor(up.clone(), Arc::new(anchors)),
        seen: Mutex::new(None),
    });
    let mut catalog = Catalog::new();
    let handler: Arc<dyn ZoneHandler> = adapter.clone();
    catalog.upsert(LowerName::new(&Name::root()), vec![handler]);
    let mut m = Message::query();
    m.add_query(q.clone());
    m.metadata.recursion_desired = true;
    m.metadata.checking_disabled = cd;
    m.metadata.id = 0x4242;
    let mut edns = Edns::new();
    edns.set_max_payload(4096).set_dnssec_ok(true);
    m.set_edns(edns);
    let req = Request::from_bytes(m.to_vec().expect("encode"), SocketAddr::from(([127, 0, 0, 1], 5301)), Protocol::Tcp).expect("request");
    let cap = Capture(Arc::new(Mutex::new(None)));
    let res = crate::core::catch(|| futures_executor::block_on(catalog.handle_request::<_, SimTime>(&req, cap.clone())));
    let log = std::mem::take(&mut *up.0.log.lock().unwrap_or_else(|e| e.into_inner()));
    let inapplicable = *up.0.inapplicable.lock().unwrap_or_else(|e| e.into_inner());
    clock::set_virtual_nanos(0);
    if let Err(p) = res {
        // the validator panics are recorded by the handle-level subs; here only the precondition
        let run = Run { outcome: Outcome::Panic(crate::core::panic_fail(&p)), log, inapplicable };
        let mut f = crate::core::panic_fail(&p);
        let dnskey_sig_without_key = run.log.iter().filter(|e| e.tampered > 0).any(|e| {
            let d = &e.delivered;
            d.answers.iter().any(|r| rrset_key(r) == (r.name.to_lowercase(), RecordType::DNSKEY, true)) && !d.answers.iter().any(|r| r.record_type() == RecordType::DNSKEY)
        });
        if dnskey_sig_without_key && p.0.contains("Option::unwrap()") && p.1.contains("dnssec/mod.rs") {
            f.sig = "panic-verify-dnskey-rrset-rrsig-without-dnskey-records".into();
        }
        return Err(f);
    }
    let buf = cap.0.lock().unwrap().take().ok_or_else(|| Fail::new("server-sent-no-response", "catalog produced no response"))?;
    let response = Message::from_vec(&buf).map_err(|e| Fail::new("server-response-undecodable", e.to_string()))?;
    let saw = *adapter.seen.lock().unwrap();
    if std::env::var_os("C07_TRACE").is_some() {
        eprintln!("---- server handling of {q} CD={cd}");
        for (i, ex) in log.iter().enumerate() {
            eprintln!("  [{i}] upstream <{} {}> served by zone {}{}", ex.qname, ex.qtype, ex.zone, if ex.tampered > 0 { "  ** TAMPERED **" } else { "" });
            eprintln!("      {}", show_msg(&ex.delivered).replace('\n', "\n  "));
        }
        eprintln!("  handle saw: {saw:?}");
        eprintln!("  => server response AD={} {}", response.metadata.authentic_data, show_msg(&response));
    }
    Ok(ServerRun { response, saw, run: Run { outcome: Outcome::Err("n/a".into()), log, inapplicable } })
}

fn server_case(c: &ServerCase, rec: &mut Rec) -> CaseResult {
    let _clock = clock::VirtualClock::start(BASE);
    let p = prepare(&c.sc);
    if let Err(f) = &p.base_ok {
        rec.discard(format!("fault-free-run-failed:{}", f.sig));
        return Ok(());
    }
    let planned: Vec<Planned> = match c.fault {
        None => vec![],
        Some(i) => {
            if p.faults.is_empty() {
                rec.discard("no-faults");
                return Ok(());
            }
            vec![plan_base(&p, &p.faults[i as usize % p.faults.len()]).ok_or_else(|| Fail::new("harness-bad-fault-index", "index"))?]
        }
    };
    let faulted = !planned.is_empty();
    let world = &p.world;
    let q = &p.query;
    if q.query_type == RecordType::SOA && p.base_log.first().is_some_and(|e| class_of(q, &e.honest) != Class::Positive) {
        // ValidatingRecursor::resolve (copied into the adapter) turns a *negative* answer to an
        // SOA query into an error: DnsError::from_response counts the authority SOA as an answer.
        // A completeness matter of the recursor, outside C07.
        rec.discard("negative-answer-to-soa-query-is-an-error-in-the-recursor");
        return Ok(());
    }
    let sr = run_server(world, planned.iter().map(|f| f.armed.clone()).collect(), q, c.cd)?;
    if let Some(why) = sr.run.inapplicable {
        rec.discard(format!("fault-inapplicable:{why}"));
        return Ok(());
    }
    if faulted && sr.run.log.iter().all(|e| e.tampered == 0) {
        rec.discard("fault-never-delivered");
        return Ok(());
    }
    let secure = query_status(world, q) == Some(true);
    let resp = &sr.response;
    let honest_top = sr.run.log.first().map(|e| &e.honest).ok_or_else(|| Fail::new("harness-no-upstream-exchange", "no upstream exchange"))?;
    let (class, honest_class) = (class_of(q, resp), class_of(q, honest_top));
    let (rel, honest_rel) = (relevant(q, &resp.answers), relevant(q, &honest_top.answers));
    let ad = resp.metadata.authentic_data;
    let rcode = resp.metadata.response_code;
    let genuine_outcome = class == honest_class && rrsets_genuine(&rel, &honest_rel);
    rec.class(if secure { "status/secure" } else { "status/insecure" });
    rec.class(if c.cd { "client/cd=1" } else { "client/cd=0" });
    rec.class(if faulted { "faults/one" } else { "faults/none" });
    rec.class(format!("rcode/{rcode}"));
    rec.class(if ad { "ad/1" } else { "ad/0" });
    for f in &planned {
        rec.class(format!("op/{}", op_label(&f.armed.fault.op)));
    }
    if !faulted || planned.iter().any(|f| f.consumed) {
        rec.nontrivial();
        rec.note(format!("{} | CD={} -> rcode={rcode} AD={}", describe(&p, &planned), c.cd as u8, ad as u8));
    }
    let ctx = || format!("{} | CD={}\n  server response: {}", describe(&p, &planned), c.cd as u8, show_msg(resp));

    // AD => the chain is unbroken and the data are the zone's  (RFC 4035 3.2.3)
    if ad {
        vensure!(secure, sig_for(world, "ad-set-on-insecure-chain", &sr.run), "AD=1 for {q} whose chain is not Secure\n  {}", ctx());
        vensure!(genuine_outcome, sig_for(world, "ad-set-on-non-genuine-answer", &sr.run), "AD=1 for {q}, but the answer is not the zone's\n  {}", ctx());
    }
    if !faulted {
        vensure!(genuine_outcome, "faultfree-server-answer-differs", "{q}: no fault, answer differs\n  {}", ctx());
        if !secure {
            vensure!(!ad, "faultfree-ad-on-insecure", "{q}\n  {}", ctx());
        } else {
            // hickory summarises over all records of the section including the RRSIGs it did not
            // use, so AD needs single-key zones; classify, do not insist
            rec.class(if ad { "faultfree-secure/ad" } else { "faultfree-secure/no-ad" });
            let single_key = [Z::Root, Z::Tld, Z::Leaf, Z::Sib].iter().all(|z| world.sc.spec(*z).is_none_or(|s| !s.signed || s.nkeys == 1));
            if single_key {
                vensure!(ad, "faultfree-secure-single-key-without-ad", "{q}: Secure chain, one key per zone, yet AD=0\n  {}", ctx());
            }
        }
        return Ok(());
    }
    // Bogus and CD=0 => SERVFAIL without data (RFC 4035 3.2.2 / 5.5)
    if let Some(saw) = sr.saw {
        if saw.ok && saw.positive && saw.bogus_relevant && !c.cd {
            vensure!(
                rcode == ResponseCode::ServFail && resp.answers.is_empty(),
                sig_for(world, "bogus-outcome-not-mapped-to-servfail", &sr.run),
                "{q}: the validator marked the outcome Bogus, CD=0, but the client got rcode={rcode} with {} answers\n  {}",
                resp.answers.len(),
                ctx()
            );
        }
    }
    if secure && !c.cd && matches!(rcode, ResponseCode::NoError | ResponseCode::NXDomain) {
        // whatever reaches a CD=0 client from a Secure chain without SERVFAIL is the zone's data
        let dnskeys: Vec<&&Record> = rel.iter().filter(|r| r.record_type() == RecordType::DNSKEY).collect();
        let k2 = q.query_type == RecordType::DNSKEY && !dnskeys.is_empty() && dnskeys.iter().all(|r| directly_authenticated(world, r));
        vensure!(
            class == honest_class && rrsets_genuine(&rel, &honest_rel),
            if k2 { K2.to_string() } else { sig_for(world, "client-got-non-genuine-answer-without-servfail", &sr.run) },
            "{q}: secure chain, CD=0, rcode={rcode}: genuine {honest_class:?}, client sees {class:?}\n  {}",
            ctx()
        );
    }
    Ok(())
}

pub fn check() -> Option<Check> {
    let single = enumerate(
        "single_faults",
        |env: &Env| {
            let n = env.cases(150, 4000) as usize;
            let scs = scenarios(env.seed, n);
            let it = scs.into_iter().flat_map(|sc| {
                let faults = {
                    let _clock = clock::VirtualClock::start(BASE);
                    let p = prepare(&sc);
                    if p.base_ok.is_ok() {
                        p.faults.clone()
                    } else {
                        vec![]
                    }
                };
                let sc2 = sc.clone();
                std::iter::once(SingleCase { sc: sc.clone(), fault: None, also: vec![] })
                    .chain(faults.into_iter().map(move |f| SingleCase { sc: sc2.clone(), fault: Some(f), also: vec![] }))
            });
            (Box::new(it) as Box<dyn Iterator<Item = SingleCase> + Send>, false)
        },
        |c: &SingleCase, rec: &mut Rec| {
            run_case(
                &c.sc,
                |p| {
                    let mut v = vec![];
                    if let Some(f) = &c.fault {
                        v.push(plan_base(p, f).ok_or("fault-response-index-out-of-trace")?);
                    }
                    for e in &c.also {
                        v.push(plan_base(p, e).ok_or("fault-unparsable")?);
                    }
                    Ok(v)
                },
                rec,
            )
        },
    );

    let double = prop(
        "double_faults",
        10_000,
        300_000,
        |_t: Tier| {
            (hier::scenario(), any::<u32>(), any::<u32>(), prop_oneof![2 => Just(0u8), 3 => Just(1u8), 3 => Just(2u8), 3 => Just(3u8)])
                .prop_map(|(sc, a, b, mode)| DoubleCase { sc, a, b, mode })
        },
        |c: &DoubleCase, rec: &mut Rec| {
            rec.class(match c.mode {
                0 => "pair/uniform",
                1 => "pair/constructive",
                2 => "pair/forged-chain-link",
                _ => "pair/follow-up",
            });
            run_case(&c.sc, |p| pick_double(c, p), rec)
        },
    );

    let server = prop(
        "server_ad_servfail",
        3_000,
        100_000,
        |_t: Tier| {
            (hier::scenario(), prop::option::weighted(0.9, any::<u32>()), any::<bool>()).prop_map(|(sc, fault, cd)| ServerCase { sc, fault, cd })
        },
        server_case,
    );

    Some(Check {
        id: "C07",
        level: "fault_enumeration",
        rule: "scenario = generated hierarchy root/t./l.t.(+s.t.) x query; single_faults enumerates, per scenario, every (upstream response of the fault-free trace, section, record, operator) tampering; double_faults samples pairs (uniform, attacker-constructive, forged chain link, and follow-up faults on queries that only the first fault provokes). Non-trivial = distinct (scenario, fault set) whose fault lands on a record the validator consumed (any record of the top-level response; answer / NSEC / NSEC3 / SOA records of DNSKEY and DS sub-queries; the NS RRset of a zone-cut probe) or is a whole-response operator, plus the fault-free run of each scenario",
        assumptions: vec![
            "honest zone data and signatures come from hickory's own InMemoryZoneHandler signer (TBS correctness is C05's subject)",
            "the upstream DnsHandle either returns every response as Ok(DnsResponse) (DnssecClient style, 70 %) or maps it through DnsError::from_response (name-server-pool style, 30 %)",
            "the upstream drops the NSEC3 that hickory's authoritative server attaches to positive non-wildcard answers; the root zone uses NSEC (hickory's NSEC3 signer yields no proof under the root); CNAMEs are queried only for types their target has",
            "universe is small: <= 4 zones, 3 levels, Ed25519 keys only, NSEC3 without opt-out, no wildcards or empty non-terminals (C08/C09)",
            "a fault tampers with the response to one query every time that query is asked (consistent on-path attacker); each faulted run uses a fresh DnssecDnsHandle; validator clock = signing time + 1 h, signatures valid 30 days",
            "a partial key set as trust anchor is generated only at the root; DS RRsets are published only in parents that are Secure per the model (hickory fails closed otherwise)",
            "the header rcode of a positive answer is not judged (no signature covers it; the property speaks of records)",
        ],
        subs: vec![single, double, server],
    })
}
