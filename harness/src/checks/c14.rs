//! C14 — Journal-backed zones survive a stop at any point.
//!
//! A C12 history runs on a `SqliteZoneHandler` with an on-disk journal (file under the case's temp
//! dir, tmpfs when available), starting with the initial `persist_to_journal` dump. The stop
//! points are the durable states of the journal: SQLite update/commit hooks on the journal's own
//! connection record the row count at every commit (with autocommitted INSERTs that is every row
//! count; rows written inside one transaction give one stop point). For every such k the journal
//! file is copied, rows with rowid > k are deleted through `rusqlite`, and the server is restarted
//! on it with `SqliteZoneHandler::try_from_config` (journal file present, TSIG key from a key file).
//!
//! Oracle. B_0, B_1, ... are the states of the *running* server at whole-message boundaries
//! (content and serial; C12 separately decides that they are the RFC 2136 states), r_i the row
//! count when message i had been answered. For stop point k >= r_0 let lo = max{i : r_i <= k} and
//! hi = min{i : r_i >= k}:
//!   * recovery returns Ok,
//!   * the recovered zone is one of B_lo ..= B_hi (never a mixture; at a boundary exactly B_lo),
//!     which includes "serial not lower than any serial answered before the stop",
//!   * the rest of the history, applied to the recovered handler (journal re-attached), yields the
//!     same answers and the same boundary states as the run without restart,
//!   * (thorough) stopping again inside that continuation satisfies the same conditions.
//! Stop points inside the initial dump (k < r_0): the complete initial zone or a refused recovery.
//!
//! Deviations are classed by *where* the stop fell and *what* came back; three positional classes
//! are known root causes (no transaction around an update's rows; SOA row written after the
//! in-memory apply; initial dump not atomic) and have their own signatures. Everything else
//! (failed recovery, wrong state at a boundary, diverging continuation) is a violation.

use std::sync::{Arc, Mutex};

use futures_executor::block_on;
use futures_util::FutureExt;
use hickory_proto::rr::{RData, RecordType, RrKey};
use hickory_server::store::sqlite::Journal;
use hickory_server::zone_handler::ZoneHandler;
use hickory_server::zone_handler::AxfrPolicy;
use proptest::prelude::*;
use serde::{Deserialize, Serialize};

use crate::checks::c12::known_sigs;
use crate::core::{prop, CaseResult, Check, Fail, Rec, Tier};
use crate::gen::update_driver::*;
use crate::gen::updates::{self, History};
use crate::refm::canon;
use crate::refm::update_ref::*;

#[derive(Clone, Debug, Serialize, Deserialize)]
pub struct Case {
    pub hist: History,
    pub salt: u16,
    /// second-level stop points are swept for first-level k with k % 3 == phase (thorough)
    pub phase: u8,
    /// the zone as first loaded also holds address records of a name-server host outside the zone
    /// (out-of-zone glue, which the zone-file loader accepts and the initial dump journals)
    #[serde(default)]
    pub glue: bool,
    /// that many additional host records in the initial zone (a dump of more than 1000 rows)
    #[serde(default)]
    pub bulk: u16,
}

/// C12 findings that wreck the zone or the process are kept out of C14 histories: "delete all
/// RRsets" aimed at the apex is redirected to a host name
fn sanitize(mut h: History) -> History {
    // only while that C12 defect is still recorded as known (it was repaired in /repo: no-op now)
    if !c12_known("delete-all-at-name-origin-test-inverted") {
        return h;
    }
    let o = updates::origin();
    for m in &mut h.msgs {
        for r in &mut m.updates {
            if r.class == C_ANY && r.rtype == T_ANY && canon::name_eq(&r.name, &o) {
                r.name = updates::name(1);
            }
        }
    }
    h
}

fn c12_known(sig: &str) -> bool {
    static K: std::sync::OnceLock<Vec<String>> = std::sync::OnceLock::new();
    K.get_or_init(|| crate::core::known_signatures("C12")).iter().any(|k| k == sig)
}

fn case_strategy(_t: Tier) -> impl Strategy<Value = Case> {
    // serial 2^32-1 panicked the live run (overflow on increment) while that C12 defect existed
    let allow_max_serial = !c12_known("panic:proto/src/rr/rdata/soa.rs:attempt-to-add-with-overflow");
    // 1 history in 25: one message (prerequisites removed, so that it is applied) adds 501-900 address
    // records at fresh names on top of what it does anyway: far more rows than any batch size a
    // journal writer might choose, all of them one UPDATE
    let bulk_update = prop_oneof![24 => Just(0u16), 1 => 501u16..900];
    (updates::history(6, allow_max_serial), any::<u16>(), 0u8..3, prop::bool::weighted(0.25), bulk_update).prop_map(|(hist, salt, phase, glue, bulk_update)| {
        let mut hist = sanitize(hist);
        if bulk_update > 0 && !hist.msgs.is_empty() {
            let j = salt as usize % hist.msgs.len();
            let m = &mut hist.msgs[j];
            m.prereqs.clear();
            m.full_prereq = None;
            for i in 0..bulk_update {
                m.updates.push(URr {
                    name: labels_of(&format!("u{i}.bulk.zone.test.")),
                    rtype: T_A,
                    class: 1,
                    ttl: 300,
                    rdata: vec![10, 8, (i >> 8) as u8, i as u8],
                });
            }
        }
        // 1 history in 16: a message ends with a "delete an RRset" RR (class ANY, TTL 0) of type NULL
        // that carries RDATA octets. Whatever the server makes of it (the live answer is C12's
        // business), the journal it writes while doing so must remain one it can recover from
        if salt % 16 == 3 && !hist.msgs.is_empty() {
            let j = (salt as usize / 16) % hist.msgs.len();
            let name = hist.msgs[j].updates.first().map(|r| r.name.clone()).unwrap_or_else(|| updates::name(1));
            hist.msgs[j].updates.push(URr { name, rtype: 10, class: C_ANY, ttl: 0, rdata: vec![3, 1, 4, 1, 5] });
        }
        Case { hist, salt, phase, glue, bulk: 0 }
    })
}

fn tmp_dir() -> std::io::Result<tempfile::TempDir> {
    if std::path::Path::new("/dev/shm").is_dir() {
        if let Ok(d) = tempfile::Builder::new().prefix("vcheck-c14-").tempdir_in("/dev/shm") {
            return Ok(d);
        }
    }
    tempfile::Builder::new().prefix("vcheck-c14-").tempdir()
}

fn rows_of(h: &Handler) -> Result<i64, Fail> {
    let g = block_on(h.journal());
    let j = g.as_ref().ok_or_else(|| Fail::new("harness", "no journal attached"))?;
    let conn = j.conn();
    let (count, max): (i64, Option<i64>) = conn
        .query_row("SELECT COUNT(*), MAX(_rowid_) FROM records", [], |r| Ok((r.get(0)?, r.get(1)?)))
        .map_err(|e| Fail::new("harness", format!("row count: {e}")))?;
    if max.unwrap_or(0) != count {
        return Err(Fail::new("harness", format!("journal rowids not contiguous: count {count}, max {max:?}")));
    }
    Ok(count)
}

/// the run of a (suffix of a) history on a live handler
struct Run {
    /// index of the first message applied in this run
    first: usize,
    /// rows[j] = journal rows when message first+j-1 had been answered; rows[0] = at the start
    rows: Vec<i64>,
    states: Vec<Snapshot>,
    /// answers[j] belongs to message first+j (states[j+1] follows it)
    answers: Vec<Applied>,
    /// message first+j wrote a post-update SOA row
    soa_row: Vec<bool>,
    /// journal rows present when the commit observer was installed
    #[allow(dead_code)]
    seen_from: i64,
    /// one entry per SQLite commit since then: (journal rows durable once that commit completed,
    /// SOA serial held in memory — what a query would be answered with — at that moment; None =
    /// not observable at that instant)
    seen: Vec<(i64, Option<u32>)>,
}

impl Run {
    /// the durable row counts (stop points) from `from` on, ascending; `start` = a row count known
    /// to be durable without a commit having been observed (the state the observer was installed on)
    fn stop_points(&self, from: i64, start: Option<i64>) -> Vec<i64> {
        let mut v: Vec<i64> = self.seen.iter().map(|c| c.0).filter(|r| *r >= from).collect();
        v.extend(start.filter(|s| *s >= from));
        v.sort();
        v.dedup();
        v
    }
}

#[derive(Default)]
struct Observed {
    /// highest rowid inserted so far (committed or not)
    rows: i64,
    /// rows as of the last commit (a rollback returns to it)
    durable: i64,
    commits: Vec<(i64, Option<u32>)>,
}

type SeenLog = Arc<Mutex<Observed>>;

/// the serial a query arriving now would see; never blocks (the zone lock may be held for writing)
fn peek_serial(h: &Handler) -> Option<u32> {
    let g = h.records().now_or_never()?;
    let key = RrKey::new(h.origin().clone(), RecordType::SOA);
    let set = g.get(&key)?;
    let r = set.records_without_rrsigs().next()?;
    match &r.data {
        RData::SOA(s) => Some(s.serial),
        _ => None,
    }
}

/// SQLite hooks on the journal connection: the update hook follows the row count, the commit hook
/// records (rows now durable, serial visible in memory) for every commit, the rollback hook
/// returns to the last durable row count
fn install_observer(h: &Arc<Handler>) -> Result<SeenLog, Fail> {
    let weak = Arc::downgrade(h);
    let g = block_on(h.journal());
    let j = g.as_ref().ok_or_else(|| Fail::new("harness", "no journal attached"))?;
    let conn = j.conn();
    let have: Option<i64> = conn
        .query_row("SELECT MAX(_rowid_) FROM records", [], |r| r.get(0))
        .map_err(|e| Fail::new("harness", format!("row count: {e}")))?;
    let have = have.unwrap_or(0);
    let log: SeenLog = Arc::new(Mutex::new(Observed {
        rows: have,
        durable: have,
        commits: vec![],
    }));
    let l = log.clone();
    conn.update_hook(Some(move |action: rusqlite::hooks::Action, _db: &str, table: &str, rowid: i64| {
        if table == "records" && action == rusqlite::hooks::Action::SQLITE_INSERT {
            if let Ok(mut o) = l.lock() {
                o.rows = o.rows.max(rowid);
            }
        }
    }))
    .map_err(|e| Fail::new("harness", format!("update hook: {e}")))?;
    let l = log.clone();
    conn.commit_hook(Some(move || {
        let seen = weak.upgrade().and_then(|h| peek_serial(&h));
        if let Ok(mut o) = l.lock() {
            o.durable = o.rows;
            let rows = o.rows;
            o.commits.push((rows, seen));
        }
        false
    }))
    .map_err(|e| Fail::new("harness", format!("commit hook: {e}")))?;
    let l = log.clone();
    conn.rollback_hook(Some(move || {
        if let Ok(mut o) = l.lock() {
            o.rows = o.durable;
        }
    }))
    .map_err(|e| Fail::new("harness", format!("rollback hook: {e}")))?;
    Ok(log)
}

fn apply_msgs(h: &Handler, c: &Case, first: usize, log: &SeenLog, seen_from: i64) -> Result<Result<Run, String>, Fail> {
    let key = test_key();
    let origin = updates::origin();
    let now0 = 1_700_000_000u64 + c.salt as u64;
    let mut run = Run {
        first,
        rows: vec![rows_of(h)?],
        states: vec![snapshot(h)],
        answers: vec![],
        soa_row: vec![],
        seen_from,
        seen: vec![],
    };
    for (i, msg) in c.hist.msgs.iter().enumerate().skip(first) {
        let serial_before = run.states.last().unwrap().zone.serial();
        let a = apply_signed(h, c.salt.wrapping_add(i as u16), &origin, msg, &key, now0 + i as u64);
        if let Applied::Panic(m, l) = &a {
            return Ok(Err(format!("{m} at {l}")));
        }
        run.answers.push(a);
        run.rows.push(rows_of(h)?);
        let s = snapshot(h);
        run.soa_row.push(s.zone.serial() != serial_before && run.rows[run.rows.len() - 1] > run.rows[run.rows.len() - 2]);
        run.states.push(s);
    }
    run.seen = log.lock().map(|l| l.commits.clone()).unwrap_or_default();
    // everything the journal holds now was seen being committed, in order
    let total = *run.rows.last().unwrap();
    let last = run.seen.last().map(|c| c.0).unwrap_or(seen_from);
    if last.max(seen_from) != total || run.seen.windows(2).any(|w| w[0].0 > w[1].0) {
        return Err(Fail::new(
            "harness",
            format!("commit observer out of step with the journal: {total} rows, commits at {:?}", run.seen.iter().map(|c| c.0).collect::<Vec<_>>()),
        ));
    }
    Ok(Ok(run))
}

fn cut_copy(src: &std::path::Path, dst: &std::path::Path, k: i64) -> Result<(), Fail> {
    std::fs::copy(src, dst).map_err(|e| Fail::new("harness", format!("copy journal: {e}")))?;
    let conn = rusqlite::Connection::open(dst).map_err(|e| Fail::new("harness", format!("open copy: {e}")))?;
    conn.execute("DELETE FROM records WHERE _rowid_ > ?1", [k])
        .map_err(|e| Fail::new("harness", format!("cut copy: {e}")))?;
    conn.close().map_err(|(_, e)| Fail::new("harness", format!("close copy: {e}")))?;
    Ok(())
}

enum Recovered {
    Ok(Arc<Handler>, SeenLog),
    Refused(String),
}

/// the restart itself: `SqliteZoneHandler::try_from_config` with the journal file in place (the
/// path the server binary takes; it opens the journal, recovers the zone from it and attaches it
/// for further updates). No zone file is configured: with a journal present it is not read.
fn recover(path: &std::path::Path, origin: &[Vec<u8>]) -> Result<Recovered, Fail> {
    use hickory_server::store::sqlite::{SqliteConfig, TsigKeyConfig};
    let dir = path.parent().ok_or_else(|| Fail::new("harness", "journal path without a directory"))?;
    let key = test_key();
    let key_file = dir.join("upd-key.bin");
    if !key_file.exists() {
        std::fs::write(&key_file, &key.secret).map_err(|e| Fail::new("harness", format!("key file: {e}")))?;
    }
    let config = SqliteConfig {
        zone_path: "no-such-zone-file.zone".into(),
        journal_path: path.to_path_buf(),
        allow_update: true,
        tsig_keys: vec![TsigKeyConfig {
            name: to_name(&key.name).to_ascii(),
            key_file,
            algorithm: hickory_alg(key.alg),
            fudge: 300,
        }],
    };
    let r = crate::core::catch(|| {
        block_on(Handler::try_from_config(
            to_name(origin),
            hickory_server::zone_handler::ZoneType::Primary,
            AxfrPolicy::Deny,
            false,
            Some(dir),
            &config,
            None,
        ))
    });
    match r {
        Err(p) => Err(crate::core::panic_fail(&p)),
        Ok(Err(e)) => Ok(Recovered::Refused(e)),
        Ok(Ok(h)) => {
            if block_on(h.journal()).is_none() {
                return Err(Fail::new("recovered-handler-has-no-journal-attached", "try_from_config returned a handler without journal: later updates would not be persisted"));
            }
            let h = Arc::new(h);
            let log = install_observer(&h)?;
            Ok(Recovered::Ok(h, log))
        }
    }
}

fn zdiff(a: &Zone, b: &Zone) -> String {
    let mut s = String::new();
    for (k, t) in &a.rrs {
        if b.rrs.get(k) != Some(t) {
            s.push_str(&format!("-[{} {} {} {}] ", canon::show(&k.0), t, type_name(k.1), show_rdata(k.1, &k.2)));
        }
    }
    for (k, t) in &b.rrs {
        if a.rrs.get(k) != Some(t) {
            s.push_str(&format!("+[{} {} {} {}] ", canon::show(&k.0), t, type_name(k.1), show_rdata(k.1, &k.2)));
        }
    }
    s
}

struct Ctx<'a> {
    c: &'a Case,
    dir: &'a std::path::Path,
    origin: Labels,
    deferred: Vec<(&'static str, String)>,
    crash_points: u64,
    interior_points: u64,
    recoveries: u64,
    continuations: u64,
    second_level: u64,
    strict: bool,
}

impl Ctx<'_> {
    fn known(&mut self, sig: &'static str, msg: String) -> CaseResult {
        if self.strict {
            return Err(Fail::new(sig, msg));
        }
        self.deferred.push((sig, msg));
        Ok(())
    }
}

/// sweep every stop point of `run` whose journal is at `jpath`; `k_from` = first stop point to
/// examine (0 at the first level; the rows already present at the second level)
fn sweep(cx: &mut Ctx<'_>, jpath: &std::path::Path, run: &Run, k_from: i64, level: u8, deeper: bool) -> CaseResult {
    let total = *run.rows.last().unwrap();
    let n = run.rows.len() - 1;
    let cpath = cx.dir.join(format!("cut-l{level}.sqlite"));
    for k in run.stop_points(k_from, Some(run.rows[0])) {
        cx.crash_points += 1;
        cut_copy(jpath, &cpath, k)?;
        let rec = recover(&cpath, &cx.origin)?;
        cx.recoveries += 1;
        let at = |what: &str| format!("level {level}, stop after row {k} of {total} ({what}); rows at boundaries {:?}", run.rows);
        let lo = (0..=n).rev().find(|i| run.rows[*i] <= k).unwrap_or(0);
        let hi = (0..=n).find(|i| run.rows[*i] >= k).unwrap_or(n);
        // messages that wrote no rows share a row count: then hi < lo and all those states qualify
        let (lo, hi) = (lo.min(hi), lo.max(hi));
        let interior = run.rows[lo] < k && k < run.rows[hi];
        if interior {
            cx.interior_points += 1;
        }
        let (h, log) = match rec {
            Recovered::Ok(h, log) => (h, log),
            Recovered::Refused(e) => {
                return Err(Fail::new(
                    "recovery-refused-own-journal",
                    format!("{}: recover_with_journal failed: {e}", at(if interior { "inside a message" } else { "message boundary" })),
                ));
            }
        };
        let s = snapshot(&h);
        // full snapshots: content, serial, and the empty RRset objects C12 reports (they steer later updates)
        let matching: Option<usize> = (lo..=hi).rev().find(|i| run.states[*i] == s);
        let Some(bi) = matching else {
            if interior {
                let msg_idx = run.first + hi - 1;
                let m = &cx.c.hist.msgs[msg_idx.min(cx.c.hist.msgs.len() - 1)];
                let before_soa_row = run.soa_row[hi - 1] && k == run.rows[hi] - 1;
                let prev = &run.states[hi - 1].zone;
                let next = &run.states[hi].zone;
                if before_soa_row && s.zone.masked() == next.masked() && s.zone.serial() != next.serial() {
                    cx.known(
                        "stop-before-soa-row-loses-serial-bump",
                        format!(
                            "{}: message #{msg_idx} {} recovered with its content applied but without the serial bump (recovered {:?}, previous boundary {:?}, the running server already had {:?})",
                            at("all update rows written, post-update SOA row not yet"),
                            m.show(),
                            s.zone.serial(),
                            prev.serial(),
                            next.serial()
                        ),
                    )?;
                    continue;
                }
                // only a strict prefix of the message's update rows is in the journal
                if !before_soa_row {
                    cx.known(
                        "stop-inside-update-rows-replays-partial-message",
                        format!(
                            "{}: message #{msg_idx} {} recovered half-applied: vs previous boundary {} / vs next boundary {}",
                            at("inside the rows of one UPDATE message"),
                            m.show(),
                            zdiff(prev, &s.zone),
                            zdiff(next, &s.zone)
                        ),
                    )?;
                    continue;
                }
            }
            return Err(Fail::new(
                "recovered-zone-not-a-boundary-state",
                format!(
                    "{}: recovered zone differs from boundary state {lo}: {}",
                    at(if interior { "inside a message" } else { "message boundary" }),
                    zdiff(&run.states[lo].zone, &s.zone)
                ),
            ));
        };
        // recovered serial never below a serial answered before the stop: states[lo] was answered
        if let (Some(rs), Some(ls)) = (s.zone.serial(), run.states[lo].zone.serial()) {
            if rs != ls && !serial_gt(rs, ls) {
                return Err(Fail::new("recovered-serial-regressed", format!("{}: serial {rs} after recovery, {ls} answered before", at("serial"))));
            }
        }
        // ... nor below a serial a query could have been answered with before the stop: the serial
        // held in memory when each row up to the one that was never written got committed
        if let Some(rs) = s.zone.serial() {
            // commits after boundary lo, up to and including the first one that did not happen
            let first_missing = run.seen.iter().map(|c| c.0).find(|r| *r > k);
            for (row, vis) in run.seen.iter().filter(|c| c.0 > run.rows[lo] && c.0 <= first_missing.unwrap_or(k)) {
                let (row, Some(vis)) = (*row, *vis) else { continue };
                if rs != vis && !serial_gt(rs, vis) {
                    let msg = format!(
                        "{}: recovered serial {rs}, but serial {vis} was already visible in memory when row {row} was committed",
                        at("serial visible before the stop")
                    );
                    let hi_msg = hi.max(1) - 1;
                    if interior && run.soa_row.get(hi_msg).copied().unwrap_or(false) && k == run.rows[hi] - 1 {
                        cx.known("stop-before-soa-row-loses-serial-bump", msg)?;
                        break;
                    }
                    return Err(Fail::new("recovered-serial-below-one-visible-before-the-stop", msg));
                }
            }
        }
        // the rest of the history behaves as if no restart had happened
        let next_msg = run.first + bi;
        if next_msg < cx.c.hist.msgs.len() {
            cx.continuations += 1;
            let cont = match apply_msgs(&h, cx.c, next_msg, &log, k)? {
                Ok(r) => r,
                Err(p) => return Err(Fail::new("continuation-panicked", format!("{}: {p}", at("continuation")))),
            };
            for j in 0..cont.answers.len() {
                let (want_a, want_s) = (&run.answers[bi + j], &run.states[bi + j + 1]);
                if cont.answers[j].accepted() != want_a.accepted() || &cont.states[j + 1] != want_s {
                    return Err(Fail::new(
                        "continuation-after-recovery-diverges",
                        format!(
                            "{}: after recovery to boundary {bi}, message #{} {} answered {} (without restart: {}), zone diff {}",
                            at("continuation"),
                            next_msg + j,
                            cx.c.hist.msgs[next_msg + j].show(),
                            cont.answers[j].show(),
                            want_a.show(),
                            zdiff(&want_s.zone, &cont.states[j + 1].zone)
                        ),
                    ));
                }
            }
            if deeper && level == 1 && (k % 3) as u8 == cx.c.phase && *cont.rows.last().unwrap() > cont.rows[0] {
                cx.second_level += 1;
                drop(h);
                let from = cont.rows[0] + 1;
                let jp2 = cx.dir.join("cut-l1-continued.sqlite");
                std::fs::copy(&cpath, &jp2).map_err(|e| Fail::new("harness", format!("copy: {e}")))?;
                sweep(cx, &jp2, &cont, from, 2, false)?;
            }
        }
    }
    Ok(())
}

#[derive(Clone, Copy, PartialEq, Eq)]
enum What {
    /// stop points inside the initial dump only (k < r_0)
    InitialDump,
    /// every stop point from the end of the initial dump on
    Updates,
    /// the same, plus a second stop inside the continuation
    UpdatesTwice,
}

fn sweep_dump(cx: &mut Ctx<'_>, jpath: &std::path::Path, run: &Run) -> CaseResult {
    let r0 = run.rows[0];
    let cpath = cx.dir.join("cut-dump.sqlite");
    for k in run.stop_points(0, Some(0)).into_iter().filter(|k| *k < r0) {
        cx.crash_points += 1;
        cx.interior_points += 1;
        cut_copy(jpath, &cpath, k)?;
        let rec = recover(&cpath, &cx.origin)?;
        cx.recoveries += 1;
        if let Recovered::Ok(h, _) = rec {
            let s = snapshot(&h);
            if s.zone != run.states[0].zone && k == 0 && s.zone.rrs.is_empty() {
                // nothing of the dump is durable yet: the journal file exists (schema only) and
                // recovery takes it for a zone without any record
                cx.known(
                    "stop-before-initial-dump-recovers-empty-zone",
                    format!("stop before the first commit of the {r0}-row initial dump: recovery of the empty journal succeeded with a zone holding no record (no SOA)"),
                )?;
            } else if s.zone != run.states[0].zone {
                cx.known(
                    "initial-dump-stop-recovers-partial-zone",
                    format!(
                        "stop after row {k} of the {r0}-row initial dump: recovery succeeded with a zone that is not the initial zone: {}",
                        zdiff(&run.states[0].zone, &s.zone)
                    ),
                )?;
            }
        }
    }
    Ok(())
}

fn body(c: &Case, rec: &mut Rec, what: What) -> CaseResult {
    let deeper = what == What::UpdatesTwice;
    let dir = tmp_dir().map_err(|e| Fail::new("harness", format!("tempdir: {e}")))?;
    let jpath = dir.path().join("journal.sqlite");
    let mut z0 = c.hist.init.build();
    if c.glue {
        rec.class("initial-zone:out-of-zone-glue");
        z0.insert(&labels_of("ns.other.test."), T_A, 300, &[198, 51, 100, 1]);
        z0.insert(&labels_of("ns.other.test."), T_A, 300, &[198, 51, 100, 2]);
    }
    if c.bulk > 0 {
        rec.class("initial-zone:more-than-1000-records");
        for i in 0..c.bulk {
            z0.insert(&labels_of(&format!("h{i}.bulk.zone.test.")), T_A, 300, &[10, 9, (i >> 8) as u8, i as u8]);
        }
    }
    if c.hist.msgs.iter().any(|m| m.updates.iter().any(|r| r.class == C_ANY && r.rtype == 10 && !r.rdata.is_empty())) {
        rec.class("history:class-any-type-null-rr-with-rdata");
    }
    if c.hist.msgs.iter().any(|m| m.updates.len() > 500) {
        rec.class("history:one-update-of-more-than-500-rrs");
    }
    let mut h = build_handler(&z0, AxfrPolicy::Deny).map_err(|e| Fail::new("harness-init", e))?;
    h.set_tsig_signers(vec![hickory_signer(&test_key(), 300)]);
    let journal = Journal::from_file(&jpath).map_err(|e| Fail::new("harness-init", e.to_string()))?;
    block_on(h.set_journal(journal));
    let h = Arc::new(h);
    let log = install_observer(&h)?;
    block_on(h.persist_to_journal()).map_err(|e| Fail::new("initial-dump-failed", e.to_string()))?;
    let run = match apply_msgs(&h, c, 0, &log, 0)? {
        Ok(r) => r,
        Err(p) => {
            // a panic of the running server is C12's subject
            rec.discard(format!("live-run-panicked:{}", p.split(" at ").next().unwrap_or("").chars().take(40).collect::<String>()));
            return Ok(());
        }
    };
    if run.states.iter().any(|s| invariant_violation(&s.zone).map(|v| v.0) == Some("zone-soa-count") && s.zone.serial().is_none()) {
        rec.discard("live-zone-lost-its-soa");
        return Ok(());
    }
    drop(h);
    let mut cx = Ctx {
        c,
        dir: dir.path(),
        origin: z0.origin.clone(),
        deferred: vec![],
        crash_points: 0,
        interior_points: 0,
        recoveries: 0,
        continuations: 0,
        second_level: 0,
        strict: rec.strict,
    };
    rec.count("commit_observations", run.seen.iter().filter(|s| s.1.is_some()).count() as u64);
    rec.count("commit_instants_not_observable", run.seen.iter().filter(|s| s.1.is_none()).count() as u64);
    rec.count("commits_holding_several_rows", run.seen.windows(2).filter(|w| w[1].0 - w[0].0 >= 2).count() as u64);
    let res = if what == What::InitialDump {
        let mut dump_only = Run {
            first: 0,
            rows: vec![run.rows[0]],
            states: vec![run.states[0].clone()],
            answers: vec![],
            soa_row: vec![],
            seen_from: 0,
            seen: run.seen.clone(),
        };
        // stop points 0 .. r_0 - 1 (r_0 itself is the first boundary, swept by the other subs)
        dump_only.rows[0] = run.rows[0];
        sweep_dump(&mut cx, &jpath, &dump_only)
    } else {
        sweep(&mut cx, &jpath, &run, run.rows[0], 1, deeper)
    };
    rec.count("stop_points", cx.crash_points);
    rec.count("stop_points_inside_a_message_or_the_dump", cx.interior_points);
    rec.count("recoveries", cx.recoveries);
    rec.count("continuations", cx.continuations);
    rec.count("second_level_sweeps", cx.second_level);
    res?;
    let multi_row = (1..run.rows.len()).any(|j| run.rows[j] - run.rows[j - 1] >= 2);
    rec.class(format!("msgs={}", c.hist.msgs.len()));
    rec.class(format!("journal-rows={}", match *run.rows.last().unwrap() {
        0..=5 => "<=5",
        6..=10 => "6-10",
        11..=20 => "11-20",
        _ => ">20",
    }));
    rec.class(format!("accepted-msgs={}", run.answers.iter().filter(|a| a.accepted()).count()));
    rec.class(if multi_row { "has-multi-row-message" } else { "no-multi-row-message" });
    for (sig, _) in &cx.deferred {
        rec.class(format!("finding:{sig}"));
    }
    if multi_row || (what == What::InitialDump && run.rows[0] >= 3) {
        rec.nontrivial();
        if rec.wants_note() {
            rec.note(format!("{} rows at boundaries {:?}", updates::show_history(&c.hist), run.rows));
        }
    }
    let known = known_sigs("C14");
    if let Some((sig, msg)) = cx.deferred.iter().find(|d| !known.iter().any(|k| k == d.0)).or(cx.deferred.first()) {
        let all: std::collections::BTreeSet<&str> = cx.deferred.iter().map(|d| d.0).collect();
        return Err(Fail::new(*sig, format!("{msg} [sweep continued; findings in this history: {all:?}] history: {}", updates::show_history(&c.hist))));
    }
    Ok(())
}

pub fn check() -> Option<Check> {
    let dump = prop(
        "initial_dump_stop_points",
        1_000,
        20_000,
        |t| (case_strategy(t), prop_oneof![30 => Just(0u16), 1 => 1001u16..1100]).prop_map(|(mut c, bulk)| {
            c.hist.msgs.clear();
            c.bulk = bulk;
            c
        }),
        |c: &Case, rec: &mut Rec| body(c, rec, What::InitialDump),
    );
    let sweep1 = prop("journal_stop_points", 9_000, 100_000, case_strategy, |c: &Case, rec: &mut Rec| body(c, rec, What::Updates));
    let sweep2 = prop("journal_stop_twice", 1_800, 20_000, case_strategy, |c: &Case, rec: &mut Rec| body(c, rec, What::UpdatesTwice));
    Some(Check {
        id: "C14",
        level: "fault_enumeration",
        rule: "C12 histories (1..6 signed UPDATE messages through ZoneHandler::update; apex delete-all redirected, serial 2^32-1 avoided) on a SqliteZoneHandler with an on-disk journal incl. the initial persist_to_journal dump (a quarter of the initial zones also hold out-of-zone glue; 1 dump case in 31 has more than 1000 records; 1 history in 25 holds one UPDATE that adds 501-900 records on top of its generated content; 1 in 16 has a message ending with a class-ANY type-NULL RR that carries RDATA); per history EVERY durable journal state is a stop point: the row count k after each SQLite commit as recorded by update/commit hooks on the journal's connection, which with this tree's autocommitted INSERTs is every k in 0..=rows (copy the file, DELETE rowid > k, restart through SqliteZoneHandler::try_from_config with that journal file in place - the path the server binary takes - and continue the remaining history on the handler it returns); journal_stop_twice additionally sweeps every stop point of the continuation for a third of the first-level points. Counters stop_points / recoveries / continuations give the number of (history, k) pairs. Non-trivial = distinct history containing at least one message that wrote >= 2 journal rows (so that some k lies strictly inside a message or between its update rows and its SOA row)",
        assumptions: vec![
            "a stop tears between SQLite commits (observed, not assumed); atomicity and durability of one SQLite commit are SQLite's and are trusted",
            "boundary states are those of the running server (C12 decides separately that they are the RFC 2136 states)",
            "concurrent queries racing an update are not explored; 'serial answered before the stop' is the serial of the last boundary at or before k",
        ],
        subs: vec![dump, sweep1, sweep2],
    })
}
