//! C05 — RRset signed data equals the RFC 4034/4035 canonical form.
//!
//! Oracle: `refm::tbs_ref::signed_data` (RFC 4035 §5.3.2 over RFC 4034 §6.2 canonical RDATA from
//! `refm::dnssec_wire`, §6.3 order, duplicates removed) compared octet for octet with hickory's
//! `TBS::from_input`; plus cross-signer checks in which one side is `ring` used directly over the
//! reference octets, so a deviation shared by hickory's signer and verifier cannot cancel out.

use std::time::Duration;

use hickory_proto::dnssec::crypto::{signing_key_from_der, Ed25519SigningKey};
use hickory_proto::dnssec::rdata::{SigInput, DNSKEY, RRSIG};
use hickory_proto::dnssec::{Algorithm, DnssecSigner, PublicKey, PublicKeyBuf, SigningKey, Verifier, TBS};
use hickory_proto::rr::{DNSClass, Record, RecordSet, RecordType, SerialNumber};
use proptest::prelude::*;
use rustls_pki_types::{PrivateKeyDer, PrivatePkcs8KeyDer};
use serde::{Deserialize, Serialize};

use crate::core::{enumerate, prop, CaseResult, Check, Env, Fail, Rec, Tier};
use crate::gen::names::{self, MName, Rel};
use crate::gen::rrsets::{self, LabelsChoice};
use crate::refm::tbs_ref::{self, RefKey, SigParams, TbsError};
use crate::refm::dnssec_wire::{MRdata, CLASS_IN};

// ---------------------------------------------------------------------------------------------
// cases

#[derive(Clone, Debug, Serialize, Deserialize)]
struct TbsCase {
    owner: MName,
    /// TTL carried by every record (RFC 2181 §5.2: one TTL per RRset)
    ttl: u32,
    rdatas: Vec<MRdata>,
    labels: LabelsChoice,
    /// `labels` is filled in from `labels` above when the case runs
    sig: SigParams,
    /// case flips applied to the owner for the `name` argument (records keep `owner`)
    name_arg_case: u64,
    /// records of another owner / type handed in alongside (must not be part of the signed data)
    noise: Vec<(MName, MRdata)>,
}

fn tbs_case() -> impl Strategy<Value = TbsCase> {
    (
        rrsets::owner(),
        rrsets::rrset_rdatas(),
        rrsets::labels_choice(),
        prop_oneof![3 => 0u32..100_000, 1 => any::<u32>()],
        prop_oneof![3 => Just(0u64), 1 => any::<u64>()],
        prop_oneof![
            5 => Just(vec![]),
            1 => proptest::collection::vec((rrsets::small_name(), rrsets::rrset_rdatas().prop_map(|mut v| v.remove(0))), 1..=2),
        ],
    )
        .prop_flat_map(|(owner, rdatas, labels, ttl, name_arg_case, noise)| {
            let rtype = rdatas[0].rtype();
            rrsets::sig_params(owner.clone(), rtype).prop_map(move |sig| TbsCase {
                owner: owner.clone(),
                ttl,
                rdatas: rdatas.clone(),
                labels,
                sig,
                name_arg_case,
                noise: noise.clone(),
            })
        })
}

fn sig_input(sig: &SigParams) -> SigInput {
    SigInput {
        type_covered: RecordType::from(sig.type_covered),
        algorithm: Algorithm::from_u8(sig.algorithm),
        num_labels: sig.labels,
        original_ttl: sig.original_ttl,
        sig_expiration: SerialNumber::new(sig.expiration),
        sig_inception: SerialNumber::new(sig.inception),
        key_tag: sig.key_tag,
        signer_name: sig.signer.to_name(),
    }
}

fn hx(b: &[u8]) -> String {
    crate::core::hexser::to_hex(b)
}

/// Explain a difference between hickory's octets and the reference. One signature per root
/// cause; whatever is not explained by a recognised cause gets a generic signature.
fn diagnose(c: &TbsCase, sig: &SigParams, got: &[u8]) -> Fail {
    let canon: Vec<Vec<u8>> = c.rdatas.iter().map(|r| r.canonical()).collect();
    let dedup = tbs_ref::signed_data(&c.owner.labels, CLASS_IN, sig, canon.clone(), true).expect("labels in range");
    let keep = tbs_ref::signed_data(&c.owner.labels, CLASS_IN, sig, canon, false).expect("labels in range");
    let head = format!(
        "owner {} type {} labels {} rdatas [{}]",
        c.owner.show(),
        sig.type_covered,
        sig.labels,
        c.rdatas.iter().map(|r| r.show()).collect::<Vec<_>>().join(" | ")
    );
    if !got.starts_with(&dedup.prefix) {
        return Fail::new(
            "tbs-rrsig-rdata-differs",
            format!("{head}: RRSIG_RDATA part: got {} expected {}", hx(&got[..got.len().min(dedup.prefix.len())]), hx(&dedup.prefix)),
        );
    }
    // split the remainder into RR images: every image starts with the same name image
    let name_len = crate::refm::canon::wire_len(&tbs_ref::signed_owner(&c.owner.labels, sig.labels).expect("labels in range"));
    let mut rest = &got[dedup.prefix.len()..];
    let mut got_rrs: Vec<Vec<u8>> = Vec::new();
    while !rest.is_empty() {
        if rest.len() < name_len + 10 {
            return Fail::new("tbs-malformed", format!("{head}: trailing {} octets do not form an RR image", rest.len()));
        }
        let rdlen = u16::from_be_bytes([rest[name_len + 8], rest[name_len + 9]]) as usize;
        let total = name_len + 10 + rdlen;
        if rest.len() < total {
            return Fail::new("tbs-malformed", format!("{head}: RR image with RDLENGTH {rdlen} overruns the buffer"));
        }
        got_rrs.push(rest[..total].to_vec());
        rest = &rest[total..];
    }
    let sorted = |v: &[Vec<u8>]| {
        let mut s = v.to_vec();
        s.sort();
        s
    };
    let has_dups = keep.rrs.len() != dedup.rrs.len();
    let case_matters = c.rdatas.iter().any(|r| r.case_sensitive_to_canon());
    let got_sorted = sorted(&got_rrs);
    if has_dups && got_rrs == keep.rrs {
        return Fail::new(
            "tbs-duplicate-rr-kept",
            format!(
                "{head}: {} RR images emitted, RFC 4034 §6.3 / the property require the {} distinct ones",
                got_rrs.len(),
                dedup.rrs.len()
            ),
        );
    }
    if got_sorted == sorted(&dedup.rrs) {
        // same RR images, other order
        return if case_matters {
            Fail::new(
                "tbs-rr-order-not-canonical",
                format!(
                    "{head}: RR images are the canonical ones but ordered {:?} instead of by canonical RDATA (RFC 4034 §6.3); \
                     RDATA names carry upper-case letters, i.e. the sort key is not the canonical form",
                    got_rrs.iter().map(|r| dedup.rrs.iter().position(|x| x == r).unwrap()).collect::<Vec<_>>()
                ),
            )
        } else {
            Fail::new("tbs-rr-order-wrong", format!("{head}: canonical RR images in non-canonical order although no case folding is involved"))
        };
    }
    if has_dups && got_sorted == sorted(&keep.rrs) {
        return if case_matters {
            Fail::new(
                "tbs-duplicate-rr-kept",
                format!("{head}: duplicates kept ({} images for {} distinct RRs) and, besides, ordered by a non-canonical key", got_rrs.len(), dedup.rrs.len()),
            )
        } else {
            Fail::new("tbs-rr-order-wrong", format!("{head}: duplicates kept and order wrong although no case folding is involved"))
        };
    }
    // types of RFC 4034 §6.2 item 3 for which hickory has no model: plain RDATA instead of folded?
    if matches!(c.rdatas[0], MRdata::NameOnly { .. } | MRdata::PrefName { .. } | MRdata::TwoNames { .. }) && case_matters {
        let raw: Vec<Vec<u8>> = c.rdatas.iter().map(|r| r.raw()).collect();
        // (with or without duplicate removal: the raw, case-preserved octets are what is compared)
        let alt = tbs_ref::signed_data(&c.owner.labels, CLASS_IN, sig, raw.clone(), false).expect("labels in range");
        let alt_dedup = tbs_ref::signed_data(&c.owner.labels, CLASS_IN, sig, raw, true).expect("labels in range");
        if got_sorted == sorted(&alt.rrs) || got_sorted == sorted(&alt_dedup.rrs) {
            return Fail::new(
                "tbs-rfc4034-listed-type-name-not-lowercased",
                format!(
                    "{head}: RDATA of type {} emitted with its embedded name(s) in original case; RFC 4034 §6.2 item 3 lists this type for down-casing",
                    sig.type_covered
                ),
            );
        }
    }
    let first_bad = got_rrs.iter().find(|r| !keep.rrs.contains(r));
    Fail::new(
        "tbs-rr-image-differs",
        format!(
            "{head}: got {} RR images, expected {}; first unexpected image {} ; expected images {:?}",
            got_rrs.len(),
            dedup.rrs.len(),
            first_bad.map(|r| hx(r)).unwrap_or_default(),
            dedup.rrs.iter().map(|r| hx(r)).collect::<Vec<_>>()
        ),
    )
}

struct Prepared {
    sig: SigParams,
    name_arg: hickory_proto::rr::Name,
    records: Vec<Record>,
    noise: Vec<Record>,
}

fn prepare(c: &TbsCase, rec: &mut Rec) -> Option<Prepared> {
    let mut sig = c.sig.clone();
    sig.labels = rrsets::resolve_labels(&c.owner, c.labels);
    let mut records = Vec::new();
    for rd in &c.rdatas {
        match rrsets::to_hickory_record(&c.owner, CLASS_IN, c.ttl, rd) {
            Ok(r) => records.push(r),
            Err(e) => {
                rec.discard(format!("hickory-decoder-rejects-{}", rd.kind()));
                rec.note(e);
                return None;
            }
        }
    }
    let mut noise = Vec::new();
    for (o, rd) in &c.noise {
        // noise must really be outside the RRset
        if rd.rtype() == sig.type_covered && crate::refm::canon::name_eq(&o.labels, &c.owner.labels) {
            continue;
        }
        if let Ok(r) = rrsets::to_hickory_record(o, CLASS_IN, c.ttl, rd) {
            noise.push(r);
        }
    }
    let name_arg = MName::fq(names::apply_rel(&c.owner.labels, &Rel::CaseFlip(c.name_arg_case))).to_name();
    Some(Prepared {
        sig,
        name_arg,
        records,
        noise,
    })
}

struct Shape {
    distinct: usize,
    has_dups: bool,
    order_differs: bool,
    case_matters: bool,
    reduced: bool,
}

fn shape(c: &TbsCase, sig: &SigParams) -> Shape {
    let canon: Vec<Vec<u8>> = c.rdatas.iter().map(|r| r.canonical()).collect();
    let sorted = tbs_ref::canonical_order(canon.clone(), false);
    let distinct = tbs_ref::canonical_order(canon.clone(), true).len();
    Shape {
        distinct,
        has_dups: distinct != canon.len(),
        order_differs: sorted != canon,
        case_matters: c.rdatas.iter().any(|r| r.case_sensitive_to_canon()),
        reduced: (sig.labels as usize) < tbs_ref::label_count(&c.owner.labels),
    }
}

fn classify(c: &TbsCase, sig: &SigParams, sh: &Shape, rec: &mut Rec) {
    rec.class(format!("type:{}", c.rdatas[0].kind()));
    rec.class(format!("members:{}", c.rdatas.len().min(6)));
    rec.class(if !sh.has_dups {
        "dups:none"
    } else if c.rdatas.iter().enumerate().any(|(i, r)| c.rdatas[..i].contains(r)) {
        "dups:exact"
    } else {
        "dups:case-variant"
    });
    // two members that differ only in the letter case of a name that is NOT folded (NSEC next
    // name, SVCB/HTTPS target): distinct RRs, both belong in the signed data
    let lower = |r: &MRdata| r.raw().to_ascii_lowercase();
    if !sh.has_dups && c.rdatas.iter().enumerate().any(|(i, r)| c.rdatas[..i].iter().any(|q| q != r && lower(q) == lower(r))) {
        rec.class("members:differ-only-in-case-of-an-unfolded-name");
    }
    rec.class(if sh.order_differs { "input-order:not-canonical" } else { "input-order:canonical" });
    rec.class(if sh.case_matters { "rdata-names:upper-case-present" } else { "rdata-names:no-folding-needed" });
    rec.class(match c.labels {
        LabelsChoice::Exact => "labels:exact",
        LabelsChoice::Fewer(_) if sh.reduced => "labels:fewer(wildcard-reduction)",
        LabelsChoice::Fewer(_) => "labels:exact",
        LabelsChoice::Greater(_) => "labels:above-owner",
    });
    rec.class(if c.owner.labels.is_empty() {
        "owner:root"
    } else if c.owner.labels[0] == b"*" {
        "owner:wildcard"
    } else if c.owner.labels.iter().any(|l| l.iter().any(|b| b.is_ascii_uppercase())) {
        "owner:upper-case-present"
    } else {
        "owner:other"
    });
    if c.ttl != sig.original_ttl {
        rec.class("ttl!=origttl");
    }
    if sig.inception > sig.expiration {
        rec.class("window:numerically-wrapped");
    }
    // NT rule of DESIGN §7 C05
    if sh.distinct >= 2 && (sh.order_differs || sh.has_dups || sh.case_matters || sh.reduced) {
        rec.nontrivial();
        if rec.wants_note() {
            rec.note(format!(
                "{} ttl {} [{}] ; RRSIG type {} alg {} labels {} origttl {} exp {} inc {} tag {} signer {}",
                c.owner.show(),
                c.ttl,
                c.rdatas.iter().map(|r| r.show()).collect::<Vec<_>>().join(" | "),
                sig.type_covered,
                sig.algorithm,
                sig.labels,
                sig.original_ttl,
                sig.expiration,
                sig.inception,
                sig.key_tag,
                sig.signer.show()
            ));
        }
    }
}

fn hickory_tbs(p: &Prepared) -> Result<Vec<u8>, String> {
    let input = sig_input(&p.sig);
    TBS::from_input(&p.name_arg, DNSClass::IN, &input, p.records.iter().chain(p.noise.iter()))
        .map(|t| t.as_ref().to_vec())
        .map_err(|e| e.to_string())
}

fn tbs_body(c: &TbsCase, rec: &mut Rec) -> CaseResult {
    let Some(p) = prepare(c, rec) else {
        return Ok(());
    };
    let sh = shape(c, &p.sig);
    classify(c, &p.sig, &sh, rec);
    let got = hickory_tbs(&p);
    let canon: Vec<Vec<u8>> = c.rdatas.iter().map(|r| r.canonical()).collect();
    match tbs_ref::signed_data(&c.owner.labels, CLASS_IN, &p.sig, canon, true) {
        Err(TbsError::LabelsExceedOwner) => {
            // RFC 4035 §5.3.2: "the RRSIG RR did not pass the necessary validation checks and MUST
            // NOT be used to authenticate this RRset"
            vensure!(
                got.is_err(),
                "tbs-built-for-labels-above-owner",
                "owner {} has {} labels, RRSIG Labels {}: signed data was produced",
                c.owner.show(),
                c.owner.labels.len(),
                p.sig.labels
            );
            Ok(())
        }
        Ok(reference) => {
            let got = match got {
                Ok(g) => g,
                Err(e) => vfail!(
                    "tbs-error-on-valid-rrset",
                    "owner {} labels {} [{}]: {e}",
                    c.owner.show(),
                    p.sig.labels,
                    c.rdatas.iter().map(|r| r.show()).collect::<Vec<_>>().join(" | ")
                ),
            };
            if got != reference.bytes() {
                return Err(diagnose(c, &p.sig, &got));
            }
            Ok(())
        }
    }
}

// ---------------------------------------------------------------------------------------------
// cross-signer cases

#[derive(Clone, Copy, Debug, PartialEq, Eq, Serialize, Deserialize)]
enum KeySel {
    /// the repository's fixture key for the algorithm
    Fixture,
    /// Ed25519 key derived from this number (only with algorithm 15)
    Seed(u16),
}

#[derive(Clone, Debug, Serialize, Deserialize)]
struct CryptoCase {
    base: TbsCase,
    key: KeySel,
    /// DNSKEY flags of the zone key (256 ZSK / 257 KSK)
    flags: u16,
    /// bit of the reference octets flipped for the negative control
    flip: u32,
    /// signing time for the hickory-signs direction (unix seconds, may lie just below 2^32)
    sign_at: u64,
    /// signature lifetime in seconds for the hickory-signs direction
    lifetime: u32,
}

fn crypto_case(tier: Tier) -> impl Strategy<Value = CryptoCase> {
    let _ = tier;
    (
        tbs_case(),
        prop_oneof![
            5 => Just(tbs_ref::ALG_ED25519),
            3 => Just(tbs_ref::ALG_ECDSAP256),
            2 => Just(tbs_ref::ALG_ECDSAP384),
            2 => Just(tbs_ref::ALG_RSASHA256),
            2 => Just(tbs_ref::ALG_RSASHA512),
        ],
        any::<u16>(),
        any::<bool>(),
        prop::sample::select(&[256u16, 257][..]),
        any::<u32>(),
        prop_oneof![
            4 => 1_500_000_000u64..2_000_000_000,
            1 => (u32::MAX as u64 - 100_000)..(u32::MAX as u64),
            1 => 0u64..100_000,
        ],
        prop_oneof![3 => 1u32..10_000_000, 1 => 0x7000_0000u32..0x7fff_fff0],
    )
        .prop_map(|(mut base, alg, seed, use_seed, flags, flip, sign_at, lifetime)| {
            base.sig.algorithm = alg;
            if let LabelsChoice::Greater(_) = base.labels {
                base.labels = LabelsChoice::Exact;
            }
            let key = if alg == tbs_ref::ALG_ED25519 && use_seed { KeySel::Seed(seed) } else { KeySel::Fixture };
            CryptoCase {
                base,
                key,
                flags,
                flip,
                sign_at,
                lifetime,
            }
        })
}

enum KeyRef {
    Shared(&'static RefKey),
    Own(RefKey),
}

impl std::ops::Deref for KeyRef {
    type Target = RefKey;
    fn deref(&self) -> &RefKey {
        match self {
            KeyRef::Shared(k) => k,
            KeyRef::Own(k) => k,
        }
    }
}

fn ref_key(alg: u8, sel: KeySel) -> KeyRef {
    match sel {
        KeySel::Fixture => KeyRef::Shared(tbs_ref::fixture_key(alg)),
        KeySel::Seed(n) => KeyRef::Own(RefKey::ed25519_from_seed(&tbs_ref::seed32(n as u64))),
    }
}

fn alg_name(a: u8) -> &'static str {
    match a {
        tbs_ref::ALG_ED25519 => "ED25519",
        tbs_ref::ALG_ECDSAP256 => "ECDSAP256SHA256",
        tbs_ref::ALG_ECDSAP384 => "ECDSAP384SHA384",
        tbs_ref::ALG_RSASHA256 => "RSASHA256",
        tbs_ref::ALG_RSASHA512 => "RSASHA512",
        tbs_ref::ALG_RSASHA1 => "RSASHA1",
        _ => "other",
    }
}

/// (2) a conforming third-party signer (ring over the reference octets) must be accepted by
/// hickory's verifier; a signature over other octets must not be.
fn third_party_signs_body(c: &CryptoCase, rec: &mut Rec) -> CaseResult {
    let alg = c.base.sig.algorithm;
    let key = ref_key(alg, c.key);
    let public = key.dns_public_key();
    let mut base = c.base.clone();
    base.sig.key_tag = tbs_ref::key_tag(&tbs_ref::dnskey_rdata(c.flags, 3, alg, &public));
    let Some(p) = prepare(&base, rec) else {
        return Ok(());
    };
    let sh = shape(&base, &p.sig);
    classify(&base, &p.sig, &sh, rec);
    rec.class(format!("alg:{}", alg_name(alg)));
    let canon: Vec<Vec<u8>> = base.rdatas.iter().map(|r| r.canonical()).collect();
    let reference = tbs_ref::signed_data(&base.owner.labels, CLASS_IN, &p.sig, canon, true)
        .expect("labels never above owner here")
        .bytes();
    let signature = key.sign(alg, &reference);
    let dnskey = DNSKEY::with_flags(c.flags, PublicKeyBuf::new(public.clone(), Algorithm::from_u8(alg)));
    let rrsig = RRSIG::from_sig(sig_input(&p.sig), signature);
    let verdict = dnskey.verify_rrsig(&p.name_arg, DNSClass::IN, &rrsig, p.records.iter().chain(p.noise.iter()));
    if let Err(e) = verdict {
        // tell "other octets were reconstructed" (explained by the byte comparison) from a
        // rejection of the right octets
        match hickory_tbs(&p) {
            Ok(got) if got != reference => return Err(diagnose(&base, &p.sig, &got)),
            Ok(_) => vfail!(
                "third-party-signature-rejected",
                "{} signature by ring over the RFC 4035 §5.3.2 octets rejected although hickory reconstructs the same octets: {e}",
                alg_name(alg)
            ),
            Err(e2) => vfail!("tbs-error-on-valid-rrset", "{e2}"),
        }
    }
    // negative control: signature over octets that differ in one bit
    let mut other = reference.clone();
    let bit = c.flip as usize % (other.len() * 8);
    other[bit / 8] ^= 0x80 >> (bit % 8);
    let bad = RRSIG::from_sig(sig_input(&p.sig), key.sign(alg, &other));
    vensure!(
        dnskey.verify_rrsig(&p.name_arg, DNSClass::IN, &bad, p.records.iter()).is_err(),
        "verifier-accepts-signature-over-other-octets",
        "{}: signature over the reference octets with bit {bit} flipped was accepted",
        alg_name(alg)
    );
    Ok(())
}

fn hickory_signing_key(alg: u8, sel: KeySel) -> Result<Box<dyn SigningKey>, Fail> {
    match sel {
        KeySel::Seed(n) => {
            let kp = ring::signature::Ed25519KeyPair::from_seed_unchecked(&tbs_ref::seed32(n as u64))
                .map_err(|e| Fail::new("harness", format!("seed key: {e}")))?;
            Ok(Box::new(Ed25519SigningKey::from_ed25519(kp)))
        }
        KeySel::Fixture => {
            let der = PrivateKeyDer::Pkcs8(PrivatePkcs8KeyDer::from(tbs_ref::fixture_pkcs8(alg).to_vec()));
            signing_key_from_der(&der, Algorithm::from_u8(alg))
                .map_err(|e| Fail::new("signing-key-load-failed", format!("fixture key for {}: {e}", alg_name(alg))))
        }
    }
}

/// (3) hickory signs (RecordSet + DnssecSigner + RRSIG::from_rrset); ring must verify the
/// signature over the reference octets built from the RRSIG's own fields. (4) hickory must
/// accept its own signature for any record order.
fn hickory_signs_body(c: &CryptoCase, rec: &mut Rec) -> CaseResult {
    let alg = c.base.sig.algorithm;
    let mut base = c.base.clone();
    // a zone holds each RR once: canonical duplicates are not part of this direction
    let mut seen: Vec<Vec<u8>> = Vec::new();
    base.rdatas.retain(|r| {
        let k = r.canonical();
        if seen.contains(&k) {
            false
        } else {
            seen.push(k);
            true
        }
    });
    // the signer derives Labels itself (RFC 4034 §3.1.3)
    base.labels = LabelsChoice::Exact;
    base.noise.clear();
    base.name_arg_case = 0;
    let Some(p) = prepare(&base, rec) else {
        return Ok(());
    };
    let owner_name = base.owner.to_name();
    let rtype = RecordType::from(base.rdatas[0].rtype());
    let mut set = RecordSet::new(owner_name.clone(), rtype, 0);
    for r in &p.records {
        set.insert(r.clone(), 0);
    }
    if set.records_count() != base.rdatas.len() {
        rec.discard("recordset-merged-or-refused-records");
        return Ok(());
    }
    let key = ref_key(alg, c.key);
    let public = key.dns_public_key();
    let hk_key = hickory_signing_key(alg, c.key)?;
    let hk_public = hk_key
        .to_public_key()
        .map_err(|e| Fail::new("signing-key-public-part-failed", e.to_string()))?;
    // RFC 8080 §3 / RFC 6605 §4 / RFC 3110 §2 public key formats
    vensure!(
        hk_public.public_bytes() == public.as_slice(),
        "dnskey-public-key-format-differs",
        "{}: hickory {} reference {}",
        alg_name(alg),
        hx(hk_public.public_bytes()),
        hx(&public)
    );
    let dnskey = DNSKEY::with_flags(c.flags, hk_public);
    let signer = DnssecSigner::new(dnskey.clone(), hk_key, base.sig.signer.to_name(), Duration::from_secs(c.lifetime as u64));
    let inception = time::OffsetDateTime::from_unix_timestamp(c.sign_at as i64).expect("timestamp in range");
    let rrsig = match RRSIG::from_rrset(&set, DNSClass::IN, inception, &signer) {
        Ok(r) => r,
        Err(e) => vfail!("signer-error-on-valid-rrset", "{} {}: {e}", base.owner.show(), alg_name(alg)),
    };
    let i = rrsig.input();
    let made = SigParams {
        type_covered: u16::from(i.type_covered),
        algorithm: u8::from(i.algorithm),
        labels: i.num_labels,
        original_ttl: i.original_ttl,
        expiration: i.sig_expiration.get(),
        inception: i.sig_inception.get(),
        key_tag: i.key_tag,
        signer: MName::from_name(&i.signer_name),
    };
    // the fields a conforming signer must produce (RFC 4034 §3.1.1 – §3.1.7)
    let want_tag = tbs_ref::key_tag(&tbs_ref::dnskey_rdata(c.flags, 3, alg, &public));
    vensure!(
        made.type_covered == base.rdatas[0].rtype()
            && made.algorithm == alg
            && made.labels as usize == tbs_ref::label_count(&base.owner.labels)
            && made.original_ttl == base.ttl
            && made.inception == c.sign_at as u32
            && made.expiration == (c.sign_at + c.lifetime as u64) as u32
            && made.key_tag == want_tag
            && crate::refm::canon::name_eq(&made.signer.labels, &base.sig.signer.labels),
        "signer-rrsig-field-wrong",
        "owner {} ttl {} sign_at {} lifetime {}: RRSIG fields {:?}, expected type {} alg {alg} labels {} tag {want_tag}",
        base.owner.show(),
        base.ttl,
        c.sign_at,
        c.lifetime,
        made,
        base.rdatas[0].rtype(),
        tbs_ref::label_count(&base.owner.labels)
    );
    let sh = shape(&base, &made);
    classify(&base, &made, &sh, rec);
    rec.class(format!("alg:{}", alg_name(alg)));
    let canon: Vec<Vec<u8>> = base.rdatas.iter().map(|r| r.canonical()).collect();
    let reference = tbs_ref::signed_data(&base.owner.labels, CLASS_IN, &made, canon, true)
        .expect("labels == owner labels")
        .bytes();
    if !tbs_ref::verify_with_dns_key(alg, &public, &reference, rrsig.sig()) {
        let mut p2 = Prepared {
            sig: made.clone(),
            name_arg: owner_name.clone(),
            records: p.records.clone(),
            noise: vec![],
        };
        p2.sig.labels = made.labels;
        match hickory_tbs(&p2) {
            Ok(got) if got != reference => return Err(diagnose(&base, &made, &got)),
            Ok(_) => vfail!(
                "hickory-signature-not-verifiable-by-third-party",
                "{}: ring rejects hickory's signature although the octets agree (signature format?) sig {}",
                alg_name(alg),
                hx(rrsig.sig())
            ),
            Err(e) => vfail!("tbs-error-on-valid-rrset", "{e}"),
        }
    }
    // (4) own verifier, records handed over in reverse order
    let rev: Vec<&Record> = p.records.iter().rev().collect();
    if let Err(e) = dnskey.verify_rrsig(&owner_name, DNSClass::IN, &rrsig, rev.into_iter()) {
        vfail!("hickory-rejects-own-signature", "{} {}: {e}", base.owner.show(), alg_name(alg));
    }
    Ok(())
}

// ---------------------------------------------------------------------------------------------
// fixed small RRsets: every member order of a few hand-picked sets (exhaustive small scope)

#[derive(Clone, Debug, Serialize, Deserialize)]
struct PermCase {
    set: usize,
    perm: Vec<usize>,
}

fn fixed_sets() -> Vec<(MName, Vec<MRdata>)> {
    let n = |s: &str| MName::fq(s.split('.').filter(|l| !l.is_empty()).map(|l| l.as_bytes().to_vec()).collect());
    vec![
        (n("example.com"), vec![MRdata::A(vec![10, 0, 0, 2]), MRdata::A(vec![10, 0, 0, 1]), MRdata::A(vec![9, 255, 0, 0])]),
        (n("Example.COM"), vec![MRdata::Ns(n("ns2.example.com")), MRdata::Ns(n("ns1.example.com")), MRdata::Ns(n("a.ns.example.com"))]),
        (
            n("example.com"),
            vec![
                MRdata::Txt(vec![b"b".to_vec()]),
                MRdata::Txt(vec![b"a".to_vec(), b"".to_vec()]),
                MRdata::Txt(vec![b"a".to_vec()]),
                MRdata::Txt(vec![b"".to_vec()]),
            ],
        ),
        (
            n("*.example.com"),
            vec![
                MRdata::Mx { pref: 10, exchange: n("mx2.example.com") },
                MRdata::Mx { pref: 10, exchange: n("mx1.example.com") },
                MRdata::Mx { pref: 5, exchange: n("z.example.com") },
                MRdata::Mx { pref: 256, exchange: n("a.example.com") },
            ],
        ),
        (
            n("_sip._tcp.example.com"),
            vec![
                MRdata::Srv { priority: 0, weight: 5, port: 5060, target: n("sip2.example.com") },
                MRdata::Srv { priority: 0, weight: 5, port: 5060, target: n("sip1.example.com") },
                MRdata::Srv { priority: 0, weight: 5, port: 443, target: n("sip1.example.com") },
            ],
        ),
    ]
}

fn perms(n: usize) -> Vec<Vec<usize>> {
    fn rec(cur: &mut Vec<usize>, used: &mut Vec<bool>, out: &mut Vec<Vec<usize>>) {
        if cur.len() == used.len() {
            out.push(cur.clone());
            return;
        }
        for i in 0..used.len() {
            if !used[i] {
                used[i] = true;
                cur.push(i);
                rec(cur, used, out);
                cur.pop();
                used[i] = false;
            }
        }
    }
    let mut out = Vec::new();
    rec(&mut Vec::new(), &mut vec![false; n], &mut out);
    out
}

// ---------------------------------------------------------------------------------------------
// RSASHA1 (5) and RSASHA1-NSEC3-SHA1 (7): hickory verifies these but cannot sign them, and ring
// cannot produce SHA-1 signatures either. Fixed vectors: the reference octets of a few fixed
// RRsets were signed once with the OpenSSL CLI (`openssl dgst -sha1 -sign`, PKCS#1 v1.5, which is
// deterministic) using the repository's rsa_2048 fixture key; the signatures are kept below.
// Regenerate: VERIF_C05_DUMP=<dir> vcheck C05 --sub rsasha1_fixed_vectors writes <dir>/v<N>.tbs.

#[derive(Clone, Debug, Serialize, Deserialize)]
struct Sha1Vector {
    n: usize,
}

/// (fixed set, algorithm number, member order reversed, Labels reduced to 1 = wildcard form)
const SHA1_SHAPES: &[(usize, u8, bool, bool)] = &[
    (0, 5, false, false),
    (1, 5, true, false),
    (2, 5, false, false),
    (3, 5, true, true),
    (0, 7, true, false),
    (1, 7, false, true),
    (3, 7, false, false),
    (4, 7, true, false),
];

const SHA1_SIGS: &[&str] = &[
    "475514c1581cdaa8ad69f4de8b1f6af841cd54baaeff550c0179b9fb99e3b6c3cbae853695a9a5101ed0bd648dede97725a82907722e67ee941c9e6bead21aa5b35e030b7dc74dca3f4a54348ff391243d6d50fb92c03d3a19dec2e850c88551b5838a9e8f8a25ab35552a8ffefc5124c82a78d5896ee16217b9f050208db575567873625433d0f2aeefc5767ed48f3ebf1ebbe5be2969832c5ccd79dd117df277fd9661afc20e053f9a9b91cd373bbff62356bc19f873debfef4f8f4a0f41e73578105afb3ea28810d50786441b42320ddb2936ae0b3447a86f4c6212f30831b9f14ac782f67aa540fd6f43b98b4b0b054bdc242961719199f671b6fa769ec3",
    "093a6db1a02dbd841741b959eef142873f50fa50b2f328ff5f199c38880467fba5a4a512d77579461d5199a84559b82fd4b61f0aeef448562f472c032f08597a8f5d35a70703a34a2e96c1b71128b7a3d358ed19014dad93e5a17513237ff3cb2724e4a0489ad4eed7e517a38d189b27493cfdd87acc17a78b97f5aa552e3bb2081563f33ac137b73a06e6368cbb221971b97e9de74ae196516f7059dc453fe502a5e4694c80086c9b9b742571b9ba284fea3de5b0408aef63484dad57d63b4016712bbe7a3660ecd6b3c7e195bd533be196e9fae4843177b9b834bf4c721002d665b5f2091b1bd86c83ce564064a088e669ce63bf7f7b9d7f243302b833baf4",
    "ab5bf9b18a9a49dc557b331d19e44354f70d7c03976eb2658f630d4b1c07cc6c106abd5e278750c7f28c66479d698b0b09b44dd28859e07917c421d24020e7efef62b2f1b7ca8ea0e459464debfeb7e74784a7ef17b1215383c9ea8e4bbd1e8b37d239c6637b0f82acb1a1ae3947d6ed4c6c0adb93134b5ca852d168b158eb8c740585aecf1a973e9eeb0b00698109e30a0b7bf9baa0cc6517c1780ebffcef440706179fe35be736cd9137efa132baf88f7c5bcc163e9f98754a9ca10b489d7c4f38b33d40f04eba1e8c16dbef58bc03b314ec5dc910ba193199ff86beeee13cb0341917b926bd4e3714f881c8f68f9b063896263b6a9d83e7be0bf6cadb41c5",
    "2aad0e82766ae4be1e341cc6731487977c33945f3f8670f0fc2f073852900d592ac7cfd1d8a1da68fa456a46d656ee209b483d189070a71db4df8e921eae6f98b65102d0a80b5dbeaf77e60abbc56be55c39d5a2bb58d45f4348dbf4b0d792a2d975ffb54333c8de626970f6233a9a9c724ea14ceaf325dc487b06af39be9076d342e253263542a1a7635bd8a1a0d30def21c1860341b9f44dae8a0ecfa64e841faf5fb4b11a89c90822ebb126c83b7c618389e5962b855c1b37b34e39d8c3194d20b64a5226ed203dfb7ace4763c72f1517fc5fc7eca3b4315cb1cf866d74cf716399cee0bab2a349bb059c68e87d720aa72de068a86544748a5b040eff02a5",
    "59d303d27f679ddf42df79b4739196fbf2236753229fb6243aefac9d5bf00c1018a93a46af45a1f8b66f6755d79fcf541223ba45fd42b779df7325e3d08aa4e5d7e7abd62ea515b5744710b9614d9a315ff4bec1a23c74b193de71f18e203860539651c1022c69847e25036526037abf7164665f797182556d05d1656b351d5abe3340f0a30f72ed7b5b28cd672b736cd4c0a52e9606202ba57f944214b6589d04bbbb6bd14ed001583304571db8a47ee1fbc52b273efa9e5e6ee47a6ff5cb77f599f9e01a0dfc18d9e79ac7a46557fda7042536cf793a754fa67c503a2f1acce3e8fb1135427eb5abaaa572ebd7aca36c81ec76d6bfdb953cec6b57d3ef29f5",
    "13136fd756ecd72545dbd2d865e6232a7cc28487a5ad4649ca0a427bd2d8fe2aedd3f4466b0aeb6a5d2f4aa89bd89c14ae1703ca862dd194e4f7c428f077d4444508522405e4c3eb10bfa3dfc9f8952630b7190a286a579c259948d104ad76c5c60b2880546f72bfaeb12c62365b588cc4758628537b79ca58db7a6a1f9f02eefb1c57cdca2d353531a27c194c9ef99e952a500152b9f09d6626e275ca5555c5430feb7342cbf4800de899dc39267be2632679625263a3876afa22654f5d63ec0444a8566f7994706cfd54288642d2b96161f306a42e792a50e137ffc46730c2c0e8016a4efdcb295c502154b2cec6a623b4d60fa041633e35fd0b1154ecd088",
    "4baacaed7ae87cbd23601acd15203beedb0368ddeb9069f60f0a13b6092859c7b2c999bf2c7321c759f63a3fed853e47ee5539ffde28b79c213bd516bc38e9e702a6db0e327ed2e3447e5c06dbd7fb63f1c7fa41ac4dca8efae63668d11d810df7127296b27fd68e9feb05c62fbc7eefacf2b71f6914b3de0f1ce5c9151f47ac233ffe070a486c03babd8eb93b49c7a2cf6a693093b32d9501b1d12755016154092295bd62ebcfcf23dee5fff7e8883db02c6882559fde2d94978b79a49adefcb8c6112c38d2ef55d6ca190db1d6366265117809c57b78d5b6ba2bf0514b16992080fdd2d7a3e4575e6a4dfe7ea4bcd65459b7e9bf14a106beb75bd1acd3bf0b",
    "b18a1ca925b35af72e9eb50e43d1b1719e94b6e48b76a9cb084c8a89573f289ac738a99991196b273e0843f3fa72915e71488809c29ee8f64bfdc575c1d5b9bf2aac1b44c8080c13b42fa80c235752c99d73e2ed394ee0bb5e4f65f128c98fe9ee05838eea75ffc96bcea2a1bc1eaa59e83755e0babee16cf22ae78c0644fe701b0bd7f4bb0f8eb86b48ba1c4eab9b040585f8e7168607c56c93c388414b817c85bba37f37735c9fed7d73602dd8bb8dd81937294bcf6e9f7872eedfe05659471d34f3d9912d5e90d01874cf8c29e4cc0d725a48a11101ee3087617fac8bc5d21e2aa1697d438a1348b3f81ffd3d72228a0231a49e736130554f056e72309cde",
];

fn sha1_vector_body(v: &Sha1Vector, rec: &mut Rec) -> CaseResult {
    let (set, alg, reversed, reduced) = SHA1_SHAPES[v.n];
    let (owner, mut rdatas) = fixed_sets().swap_remove(set);
    if reversed {
        rdatas.reverse();
    }
    let key = tbs_ref::fixture_key(alg);
    let public = key.dns_public_key();
    let rtype = rdatas[0].rtype();
    let case = TbsCase {
        owner: owner.clone(),
        ttl: 300,
        rdatas,
        labels: if reduced { LabelsChoice::Fewer(1) } else { LabelsChoice::Exact },
        sig: SigParams {
            type_covered: rtype,
            algorithm: alg,
            labels: 0,
            original_ttl: 3600,
            expiration: 1_700_086_400,
            inception: 1_700_000_000,
            key_tag: tbs_ref::key_tag(&tbs_ref::dnskey_rdata(256, 3, alg, &public)),
            signer: MName::fq(owner.labels[owner.labels.len() - 2..].to_vec()),
        },
        name_arg_case: 0,
        noise: vec![],
    };
    let Some(p) = prepare(&case, rec) else {
        return Ok(());
    };
    let canon: Vec<Vec<u8>> = case.rdatas.iter().map(|r| r.canonical()).collect();
    let reference = tbs_ref::signed_data(&case.owner.labels, CLASS_IN, &p.sig, canon, true).expect("labels in range").bytes();
    if let Ok(dir) = std::env::var("VERIF_C05_DUMP") {
        std::fs::write(format!("{dir}/v{}.tbs", v.n), &reference).map_err(|e| Fail::new("harness", e.to_string()))?;
        rec.discard("dump-mode");
        return Ok(());
    }
    let Some(sig_hex) = SHA1_SIGS.get(v.n) else {
        rec.discard("no-vector-recorded");
        return Ok(());
    };
    let signature = crate::core::hexser::from_hex(sig_hex).map_err(|e| Fail::new("harness", e))?;
    // the vector itself must be right: ring verifies it over the reference octets
    vensure!(
        tbs_ref::verify_with_dns_key(alg, &public, &reference, &signature),
        "harness-sha1-vector-stale",
        "vector {} does not verify over the reference octets with ring (regenerate it)",
        v.n
    );
    rec.class(format!("alg:{alg}"));
    rec.nontrivial();
    let dnskey = DNSKEY::with_flags(256, PublicKeyBuf::new(public, Algorithm::from_u8(alg)));
    let rrsig = RRSIG::from_sig(sig_input(&p.sig), signature.clone());
    if let Err(e) = dnskey.verify_rrsig(&p.name_arg, DNSClass::IN, &rrsig, p.records.iter()) {
        match hickory_tbs(&p) {
            Ok(got) if got != reference => return Err(diagnose(&case, &p.sig, &got)),
            _ => vfail!("third-party-signature-rejected", "RSA/SHA-1 (algorithm {alg}) vector {} rejected: {e}", v.n),
        }
    }
    let mut bad = signature;
    bad[17] ^= 0x04;
    let rrsig = RRSIG::from_sig(sig_input(&p.sig), bad);
    vensure!(
        dnskey.verify_rrsig(&p.name_arg, DNSClass::IN, &rrsig, p.records.iter()).is_err(),
        "verifier-accepts-corrupted-signature",
        "RSA/SHA-1 vector {} accepted with one signature bit flipped",
        v.n
    );
    Ok(())
}

// ---------------------------------------------------------------------------------------------

pub fn check() -> Option<Check> {
    let tbs = prop("tbs_bytes", 160_000, 1_000_000, |_| tbs_case(), tbs_body);
    let third = prop("third_party_signs", 16_000, 100_000, crypto_case, third_party_signs_body);
    let own = prop("hickory_signs", 16_000, 100_000, crypto_case, hickory_signs_body);
    let fixed = enumerate(
        "fixed_sets_all_orders",
        |_env: &Env| {
            let mut cases = Vec::new();
            for (i, (_, rds)) in fixed_sets().iter().enumerate() {
                for p in perms(rds.len()) {
                    cases.push(PermCase { set: i, perm: p });
                }
            }
            (Box::new(cases.into_iter()) as Box<dyn Iterator<Item = PermCase> + Send>, true)
        },
        |c: &PermCase, rec: &mut Rec| {
            let (owner, rds) = fixed_sets().swap_remove(c.set);
            let rdatas: Vec<MRdata> = c.perm.iter().map(|i| rds[*i].clone()).collect();
            let rtype = rdatas[0].rtype();
            let case = TbsCase {
                owner: owner.clone(),
                ttl: 300,
                rdatas,
                labels: LabelsChoice::Exact,
                sig: SigParams {
                    type_covered: rtype,
                    algorithm: tbs_ref::ALG_ED25519,
                    labels: 0,
                    original_ttl: 3600,
                    expiration: 1_700_086_400,
                    inception: 1_700_000_000,
                    key_tag: 12345,
                    signer: MName::fq(owner.labels[owner.labels.len() - 2..].to_vec()),
                },
                name_arg_case: 0,
                noise: vec![],
            };
            tbs_body(&case, rec)?;
            // and through the verifier with a third-party signature
            third_party_signs_body(
                &CryptoCase {
                    base: case,
                    key: KeySel::Seed(1),
                    flags: 256,
                    flip: 77,
                    sign_at: 0,
                    lifetime: 0,
                },
                rec,
            )
        },
    );
    let sha1 = enumerate(
        "rsasha1_fixed_vectors",
        |_env: &Env| (Box::new((0..SHA1_SHAPES.len()).map(|n| Sha1Vector { n })) as Box<dyn Iterator<Item = Sha1Vector> + Send>, true),
        sha1_vector_body,
    );
    Some(Check {
        id: "C05",
        level: "exploration",
        rule: "RRsets of one type out of A, AAAA, NS, CNAME, PTR, MX, SOA, TXT, HINFO, SRV, NAPTR, CAA, TLSA, SSHFP, DS, DNSKEY, NSEC, NSEC3PARAM, \
               RFC 4034 §6.2-listed types hickory has no model for (MD MF MB MG MR DNAME / AFSDB RT KX / MINFO RP) and opaque types; 1..6 members built \
               from a pool of related mixed-case names and small repeating numbers, 0..2 injected duplicates (exact or case variant), arbitrary member order; \
               owners plain / wildcard / arbitrary octets / root in mixed case; RRSIG tuples with Labels exact, fewer (wildcard reduction) or above the owner, \
               OrigTTL != TTL, arbitrary and wrapped inception/expiration, mixed-case signer. hickory gets the records through its wire decoder. \
               Compared: TBS::from_input octets vs the reference; ring-signed reference octets through DNSKEY::verify_rrsig (plus a one-bit negative control); \
               RRSIG::from_rrset output verified by ring over the reference octets and by hickory itself; algorithms 15, 13, 14, 8, 10. \
               Non-trivial = distinct case AND >= 2 distinct RDATAs AND (input order != canonical order OR a duplicate present OR an upper-case letter in a \
               foldable RDATA name OR wildcard reduction applies)",
        assumptions: vec![
            "all members of an RRset carry the same TTL (RFC 2181 §5.2); class IN only",
            "RSASHA1 / RSASHA1-NSEC3-SHA1 (verify-only in hickory, ring cannot produce SHA-1 signatures) are exercised by 8 fixed vectors signed once with the OpenSSL CLI, not by generated cases",
            "CNAME, SOA and NSEC RRsets are generated with one member; RDATA of zero octets is not generated (hickory maps it to its RFC 2136 Update0 form)",
            "the crypto primitives of ring are trusted; independence concerns the signed octets, key and signature formats",
            "signed data above 65,535 octets is outside the domain (cannot travel in a DNS message)",
        ],
        subs: vec![tbs, third, own, fixed, sha1],
    })
}
