//! C01 — Wire decoding is total: any bytes give Ok or Err, never a panic or hang.
//!
//! Every entry point that takes network bytes is fed (i) valid model encodings, (ii) byte
//! mutations of them, (iii) adversarial families built by construction (pointer chains, deep
//! label stacks, length-boundary names, header counts far beyond the body, RDLENGTH games) and
//! (iv) random bytes. Oracle: no panic; Ok ⇒ every decoded name ≤ 255 octets / labels 1..63;
//! deterministic work bound on the name-decoding loop (hook counter) `steps ≤ 128·|b| + 1024`;
//! a coarse wall budget per call turns non-termination into a violation (termination IS the claim).

use std::net::SocketAddr;
use std::time::Duration;

use hickory_net::xfer::Protocol;
use hickory_proto::op::{DnsResponse, Header, Message, MessageRequest, Query};
use hickory_proto::rr::rdata::tsig::TsigAlgorithm;
use hickory_proto::rr::{Name, RData, Record, RecordType, TSigner};
use hickory_proto::serialize::binary::{BinDecodable, BinDecoder};
use hickory_proto::verif_hooks;
use hickory_server::server::Request;
use proptest::collection::vec;
use proptest::prelude::*;
use serde::{Deserialize, Serialize};

use crate::checks::codec_util::{self as cu, Mutation};
use crate::core::{prop_hang, CaseResult, Check, Fail, Rec};
use crate::gen::msg;
use crate::refm::wire_ref::{self as w, Compress, MMessage};

#[derive(Clone, Debug, Serialize, Deserialize)]
enum Source {
    /// a valid model encoding, optionally mutated
    Model { m: MMessage, mode: u8, fold_case: bool, muts: Vec<Mutation> },
    Bytes(#[serde(with = "crate::core::hexser")] Vec<u8>),
    /// `len` pseudo-random octets expanded from `seed`, with a plausible header in front
    Random { seed: u64, len: u32, header: bool },
    /// [root] [chain of `chain` pointers, each to the previous] then `refs` questions (or records)
    /// whose name is a pointer to the chain's head
    PointerChain { chain: u16, refs: u16, as_records: bool, label_before_chain: u8 },
    /// a name of `labels` one-octet labels, then `refs` references to it
    DeepLabels { labels: u8, refs: u16, label_len: u8 },
    /// header counts far beyond what the body holds
    Counts { counts: [u16; 4], #[serde(with = "crate::core::hexser")] body: Vec<u8> },
    /// a single name of total wire length around the limit, optionally finished through a pointer
    LongName { first_labels: Vec<u8>, via_pointer: bool, tail_labels: Vec<u8> },
    /// an OPT pseudo-RR whose options carry arbitrary (mostly malformed-in-a-plausible-way) payloads
    /// for the option codes hickory interprets
    OptOptions { options: Vec<(u16, Vec<u8>)>, payload: u16, ttl: u32 },
    /// a region of pointer slots forming an arbitrary graph (cycles, self loops, forward edges),
    /// placed in the RDATA of a leading NULL record, then names pointing into it
    PointerGraph { edges: Vec<u8>, entry: Vec<u8>, label_slots: u8 },
    /// one record whose RDLENGTH disagrees with its RDATA in a chosen way
    Rdlen { rtype: u16, #[serde(with = "crate::core::hexser")] rdata: Vec<u8>, declared: u16, trailing: u8 },
}

#[derive(Clone, Debug, Serialize, Deserialize)]
struct Case {
    entry: u8,
    /// offset selector for the record / name / RDATA entry points
    off: u16,
    /// record type selector for the RDATA entry point
    rtype: u16,
    src: Source,
}

const ENTRY_NAMES: [&str; 9] = ["message", "request", "response", "header+query", "record", "name", "rdata", "tsig-verify", "message-request"];

fn xorshift_bytes(seed: u64, len: usize) -> Vec<u8> {
    let mut s = seed | 1;
    let mut out = Vec::with_capacity(len + 8);
    while out.len() < len {
        s ^= s << 13;
        s ^= s >> 7;
        s ^= s << 17;
        out.extend_from_slice(&s.to_le_bytes());
    }
    out.truncate(len);
    out
}

fn materialise(src: &Source) -> (Vec<u8>, &'static str) {
    match src {
        Source::Model { m, mode, fold_case, muts } => {
            let mode = match mode % 3 {
                0 => Compress::None,
                1 => Compress::Standard,
                _ => Compress::Everywhere,
            };
            let mut b = w::encode_message(m, mode, *fold_case).bytes;
            b.truncate(65_535);
            for mu in muts {
                cu::apply_mutation(&mut b, mu);
            }
            (b, if muts.is_empty() { "valid" } else { "mutated" })
        }
        Source::Bytes(b) => (b.clone(), "raw"),
        Source::Random { seed, len, header } => {
            let mut b = xorshift_bytes(*seed, (*len as usize).min(65_535));
            if *header && b.len() >= 12 {
                // plausible counts so that the body is actually walked
                b[2] &= 0x7f;
                b[4] = 0;
                b[5] = 1;
                b[6] = 0;
                b[7] &= 0x07;
                b[8] = 0;
                b[9] &= 0x03;
                b[10] = 0;
                b[11] &= 0x03;
            }
            (b, "random")
        }
        Source::PointerChain { chain, refs, as_records, label_before_chain } => {
            // header | NULL record (owner root) whose RDATA holds: [labels] 0x00 then `chain` pointers,
            // each pointing at the previous one | `refs` NS/CNAME records whose owner and RDATA are
            // pointers to the head of the chain. Pointers only ever point backwards.
            let mut out = vec![0u8; 12];
            out.push(0);
            out.extend_from_slice(&[0, 10, 0, 1, 0, 0, 0, 0]);
            let len_at = out.len();
            out.extend_from_slice(&[0, 0]);
            let region_at = out.len();
            for i in 0..*label_before_chain {
                out.push(1);
                out.push(b'a' + (i % 26));
            }
            out.push(0);
            let mut last = region_at;
            for _ in 0..*chain {
                if out.len() + 2 > 0x3fff {
                    break;
                }
                let at = out.len();
                out.extend_from_slice(&(0xC000u16 | last as u16).to_be_bytes());
                last = at;
            }
            let region_len = out.len() - region_at;
            out[len_at..len_at + 2].copy_from_slice(&(region_len as u16).to_be_bytes());
            let head = (0xC000u16 | last as u16).to_be_bytes();
            let mut n = 0u16;
            for _ in 0..*refs {
                if out.len() + 14 > 65_535 {
                    break;
                }
                out.extend_from_slice(&head);
                out.extend_from_slice(&[0, if *as_records { 2 } else { 5 }, 0, 1, 0, 0, 0, 0, 0, 2]);
                out.extend_from_slice(&head);
                n += 1;
            }
            out[6..8].copy_from_slice(&(1 + n).to_be_bytes());
            (out, "pointer-chain")
        }
        Source::DeepLabels { labels, refs, label_len } => {
            let mut out = vec![0u8; 12];
            out.push(0);
            out.extend_from_slice(&[0, 10, 0, 1, 0, 0, 0, 0]);
            let ll = (*label_len).clamp(1, 63) as usize;
            let nl = (*labels as usize).min(253 / (ll + 1)).max(1);
            let region_len = nl * (ll + 1) + 1;
            out.extend_from_slice(&(region_len as u16).to_be_bytes());
            let at = out.len();
            for i in 0..nl {
                out.push(ll as u8);
                out.extend(std::iter::repeat_n(b'a' + (i % 26) as u8, ll));
            }
            out.push(0);
            let mut n = 0u16;
            for _ in 0..*refs {
                if out.len() + 14 > 65_535 {
                    break;
                }
                let p = (0xC000u16 | at as u16).to_be_bytes();
                out.extend_from_slice(&p);
                out.extend_from_slice(&[0, 2, 0, 1, 0, 0, 0, 0, 0, 2]);
                out.extend_from_slice(&p);
                n += 1;
            }
            out[6..8].copy_from_slice(&(1 + n).to_be_bytes());
            (out, "deep-labels")
        }
        Source::Counts { counts, body } => {
            let mut out = vec![0u8; 12];
            for (i, c) in counts.iter().enumerate() {
                out[4 + 2 * i..6 + 2 * i].copy_from_slice(&c.to_be_bytes());
            }
            out.extend_from_slice(body);
            (out, "counts-beyond-body")
        }
        Source::LongName { first_labels, via_pointer, tail_labels } => {
            // header | question: name built from first_labels (+ pointer to an earlier tail, or inline tail)
            let mut out = vec![0u8; 12];
            out[5] = 1;
            let emit = |out: &mut Vec<u8>, ls: &[u8]| {
                for (i, l) in ls.iter().enumerate() {
                    let l = (*l).clamp(1, 70) as usize; // 64..70 are invalid label lengths on purpose
                    out.push(l as u8);
                    out.extend(std::iter::repeat_n(b'a' + (i % 26) as u8, l));
                }
            };
            if *via_pointer {
                // tail first, inside a leading NULL answer? pointers must go backwards, and the question
                // comes first on the wire — so use two questions: the first holds the tail
                out[5] = 2;
                let tail_at = out.len();
                emit(&mut out, tail_labels);
                out.push(0);
                out.extend_from_slice(&[0, 1, 0, 1]);
                emit(&mut out, first_labels);
                out.extend_from_slice(&(0xC000u16 | tail_at as u16).to_be_bytes());
                out.extend_from_slice(&[0, 1, 0, 1]);
            } else {
                emit(&mut out, first_labels);
                emit(&mut out, tail_labels);
                out.push(0);
                out.extend_from_slice(&[0, 1, 0, 1]);
            }
            (out, "length-boundary-name")
        }
        Source::OptOptions { options, payload, ttl } => {
            let mut out = vec![0u8; 12];
            out[11] = 1;
            out.push(0);
            out.extend_from_slice(&[0, 41]);
            out.extend_from_slice(&payload.to_be_bytes());
            out.extend_from_slice(&ttl.to_be_bytes());
            let mut rd = Vec::new();
            for (c, d) in options {
                rd.extend_from_slice(&c.to_be_bytes());
                rd.extend_from_slice(&(d.len() as u16).to_be_bytes());
                rd.extend_from_slice(d);
            }
            out.extend_from_slice(&(rd.len() as u16).to_be_bytes());
            out.extend_from_slice(&rd);
            (out, "opt-options")
        }
        Source::PointerGraph { edges, entry, label_slots } => {
            let mut out = vec![0u8; 12];
            out.push(0);
            out.extend_from_slice(&[0, 10, 0, 1, 0, 0, 0, 0]);
            let len_at = out.len();
            out.extend_from_slice(&[0, 0]);
            let region_at = out.len();
            // slot i lives at region_at + 2*i; slots below `label_slots` hold "\x01a" (a label) instead
            let n = edges.len().max(1);
            for (i, e) in edges.iter().enumerate() {
                if (i as u8) < *label_slots {
                    out.extend_from_slice(&[0, 0]); // two root labels: a terminating slot
                } else {
                    let target = region_at + 2 * (*e as usize % n);
                    out.extend_from_slice(&(0xC000u16 | target as u16).to_be_bytes());
                }
            }
            let region_len = out.len() - region_at;
            out[len_at..len_at + 2].copy_from_slice(&(region_len as u16).to_be_bytes());
            let mut cnt = 0u16;
            for e in entry {
                let target = region_at + 2 * (*e as usize % n);
                let p = (0xC000u16 | target as u16).to_be_bytes();
                out.extend_from_slice(&p);
                out.extend_from_slice(&[0, 2, 0, 1, 0, 0, 0, 0, 0, 2]);
                out.extend_from_slice(&p);
                cnt += 1;
            }
            out[6..8].copy_from_slice(&(1 + cnt).to_be_bytes());
            (out, "pointer-graph")
        }
        Source::Rdlen { rtype, rdata, declared, trailing } => {
            let mut out = vec![0u8; 12];
            out[7] = 1;
            out.push(3);
            out.extend_from_slice(b"www");
            out.push(0);
            out.extend_from_slice(&rtype.to_be_bytes());
            out.extend_from_slice(&[0, 1, 0, 0, 0, 60]);
            out.extend_from_slice(&declared.to_be_bytes());
            out.extend_from_slice(rdata);
            out.extend(std::iter::repeat_n(0xAA, *trailing as usize));
            (out, "rdlength-games")
        }
    }
}

const RTYPES: &[u16] = &[
    1, 2, 5, 6, 10, 12, 13, 15, 16, 24, 25, 28, 33, 35, 37, 41, 43, 44, 46, 47, 48, 50, 51, 52, 53, 59, 60, 61, 62, 64, 65, 250, 251, 252, 255, 257, 65305, 0, 3, 99, 65280,
];

fn tsigner() -> TSigner {
    TSigner::new(vec![7u8; 32], TsigAlgorithm::HmacSha256, Name::from_ascii("key.example.").unwrap(), 300).expect("signer")
}

fn check_names<'a>(names: impl IntoIterator<Item = &'a Name>) -> Result<usize, Fail> {
    let mut n = 0;
    for name in names {
        n += 1;
        if let Err(e) = cu::check_name_limits(name) {
            return Err(Fail::new("decoded-name-over-limit", format!("{e}: {:?}", name)));
        }
    }
    Ok(n)
}

fn record_names(r: &Record) -> Vec<&Name> {
    let mut v = vec![&r.name];
    cu::names_in_rdata(&r.data, &mut v);
    v
}

/// longest pointer-to-pointer chain in the packet (independent scan): a pointer at offset p whose
/// target is itself a pointer extends the chain
fn longest_pointer_chain(b: &[u8]) -> usize {
    let n = b.len().min(0x4000);
    let mut depth = vec![0u16; n + 1];
    let mut best = 0usize;
    for p in 0..n.saturating_sub(1) {
        if b[p] & 0xC0 == 0xC0 {
            let t = ((b[p] & 0x3f) as usize) << 8 | b[p + 1] as usize;
            if t < p {
                let d = depth[t].saturating_add(1);
                depth[p] = d;
                best = best.max(d as usize);
            }
        }
    }
    best
}

fn body(c: &Case, rec: &mut Rec) -> CaseResult {
    let (bytes, family) = materialise(&c.src);
    let entry = (c.entry as usize) % ENTRY_NAMES.len();
    let ename = ENTRY_NAMES[entry];
    let src: SocketAddr = "192.0.2.1:53".parse().unwrap();
    verif_hooks::reset_name_decode_steps();
    let off = if bytes.is_empty() { 0 } else { (c.off as usize) % bytes.len() };
    // (outcome, number of names checked, consumed ≥ 12 octets before failing?)
    let (ok, names): (bool, usize) = match entry {
        0 => match Message::from_vec(&bytes) {
            Ok(m) => (true, cu::check_message_names(&m).map_err(|e| Fail::new("decoded-name-over-limit", e))?),
            Err(_) => (false, 0),
        },
        1 => match Request::from_bytes(bytes.clone(), src, Protocol::Udp) {
            Ok(r) => {
                let m: &MessageRequest = &r;
                let mut v: Vec<&Name> = Vec::new();
                let qn: Name = m.queries.original().name.clone();
                check_names([&qn])?;
                for rr in m.answers.iter().chain(&m.authorities).chain(&m.additionals) {
                    v.extend(record_names(rr));
                }
                (true, 1 + check_names(v)?)
            }
            Err(_) => (false, 0),
        },
        2 => match DnsResponse::from_buffer(bytes.clone()) {
            Ok(r) => (true, cu::check_message_names(&r).map_err(|e| Fail::new("decoded-name-over-limit", e))?),
            Err(_) => (false, 0),
        },
        3 => {
            let mut dec = BinDecoder::new(&bytes);
            match Header::read(&mut dec) {
                Ok(h) => {
                    let mut n = 0;
                    let mut ok = true;
                    for _ in 0..h.counts.queries.min(64) {
                        match Query::read(&mut dec) {
                            Ok(q) => n += check_names([&q.name])?,
                            Err(_) => {
                                ok = false;
                                break;
                            }
                        }
                    }
                    (ok, n)
                }
                Err(_) => (false, 0),
            }
        }
        4 => {
            let mut dec = BinDecoder::new(&bytes).clone(off as u16);
            match Record::read(&mut dec) {
                Ok(r) => (true, check_names(record_names(&r))?),
                Err(_) => (false, 0),
            }
        }
        5 => {
            let mut dec = BinDecoder::new(&bytes).clone(off as u16);
            match Name::read(&mut dec) {
                Ok(n) => (true, check_names([&n])?),
                Err(_) => (false, 0),
            }
        }
        6 => {
            let mut dec = BinDecoder::new(&bytes).clone(off as u16);
            let len = (c.rtype as usize / 64) % (dec.len() + 1);
            let rt = RecordType::from(RTYPES[c.rtype as usize % RTYPES.len()]);
            match dec.split_off(len) {
                Ok(sub) => match RData::read(sub, rt) {
                    Ok(d) => {
                        let mut v = Vec::new();
                        cu::names_in_rdata(&d, &mut v);
                        (true, check_names(v)?)
                    }
                    Err(_) => (false, 0),
                },
                Err(_) => (false, 0),
            }
        }
        7 => {
            // callers hand verify_message_byte only bytes that already parsed as a message
            if Message::from_vec(&bytes).is_ok() {
                verif_hooks::reset_name_decode_steps();
                let s = tsigner();
                (s.verify_message_byte(&bytes, None, true).is_ok(), 0)
            } else {
                rec.class("tsig-verify/not-a-message");
                (false, 0)
            }
        }
        _ => {
            let mut dec = BinDecoder::new(&bytes);
            match Header::read(&mut dec) {
                Ok(h) => match MessageRequest::read(&mut dec, h) {
                    Ok(m) => {
                        let mut v: Vec<&Name> = Vec::new();
                        for rr in m.answers.iter().chain(&m.authorities).chain(&m.additionals) {
                            v.extend(record_names(rr));
                        }
                        (true, check_names(v)?)
                    }
                    Err(_) => (false, 0),
                },
                Err(_) => (false, 0),
            }
        }
    };
    let steps = verif_hooks::name_decode_steps();
    let bound = 128 * bytes.len() as u64 + 1024;
    rec.count("name_decode_steps", steps);
    rec.count("input_octets", bytes.len() as u64);
    if steps > bound {
        let chain = longest_pointer_chain(&bytes);
        let sig = if chain > 127 { "name-decode-superlinear-long-pointer-chains" } else { "decode-work-superlinear" };
        vfail!(
            sig,
            "{ename} on {} octets ({family}): {steps} name-decoding steps > 128·|b|+1024 = {bound}; longest pointer-to-pointer chain {chain}",
            bytes.len()
        );
    }
    rec.class(format!("entry={ename}/{}", if ok { "ok" } else { "err" }));
    rec.class(format!("family={family}"));
    rec.class(match bytes.len() {
        0..=12 => "len<=12",
        13..=64 => "len<=64",
        65..=1024 => "len<=1024",
        1025..=8192 => "len<=8192",
        _ => "len>8192",
    });
    let adversarial = !matches!(family, "valid" | "mutated" | "raw" | "random");
    let _ = "opt-options and pointer-graph count as adversarial families";
    if (ok && names >= 1) || (!ok && bytes.len() > 12 && steps > 0) || adversarial {
        rec.nontrivial();
        if rec.wants_note() {
            rec.note(format!(
                "{ename}({family}, {} octets{}) -> {} [{} names, {steps} steps] {}",
                bytes.len(),
                if matches!(entry, 4..=6) { format!(", off {off}") } else { String::new() },
                if ok { "Ok" } else { "Err" },
                names,
                crate::core::hexser::to_hex(&bytes[..bytes.len().min(48)])
            ));
        }
    }
    Ok(())
}

fn source(heavy: bool) -> BoxedStrategy<Source> {
    let model = (
        prop_oneof![6 => msg::message_with(msg::SizeClass::Small, false), 2 => msg::message_with(msg::SizeClass::Small, true), 2 => msg::message_with(msg::SizeClass::Medium, false)],
        0u8..3,
        any::<bool>(),
        prop_oneof![3 => Just(vec![]), 5 => vec(cu::mutation(), 1..4)],
    )
        .prop_map(|(m, mode, fold_case, muts)| Source::Model { m, mode, fold_case, muts });
    let raw = prop_oneof![
        2 => vec(any::<u8>(), 0..=12),
        3 => vec(any::<u8>(), 13..=64),
        1 => vec(prop::sample::select(vec![0u8, 1, 0xc0, 0x0c, 0x3f, 0x40, 0xff, 41, 250, 46]), 12..=80),
    ]
    .prop_map(Source::Bytes);
    let random = (any::<u64>(), prop_oneof![3 => 400u32..600, 2 => 3_000u32..5_000, if heavy { 1 } else { 0 } => Just(65_535u32)], any::<bool>())
        .prop_map(|(seed, len, header)| Source::Random { seed, len, header });
    let (max_chain, max_refs) = if heavy { (8_190u16, 4_000u16) } else { (400u16, 300u16) };
    let chain = (prop_oneof![1u16..=130, 100u16..=max_chain], 1u16..=max_refs, any::<bool>(), 0u8..3)
        .prop_map(|(chain, refs, as_records, label_before_chain)| Source::PointerChain { chain, refs, as_records, label_before_chain });
    let deep = (prop_oneof![Just(127u8), Just(126u8), 1u8..=127], 1u16..=max_refs, prop_oneof![Just(1u8), Just(63u8), 1u8..=63])
        .prop_map(|(labels, refs, label_len)| Source::DeepLabels { labels, refs, label_len });
    let counts = (prop_oneof![Just([65_535u16; 4]), any::<[u16; 4]>(), Just([1u16, 65_535, 0, 0]), Just([0u16, 0, 0, 65_535])], vec(any::<u8>(), 0..40))
        .prop_map(|(counts, body)| Source::Counts { counts, body });
    let long = (vec(prop_oneof![Just(63u8), Just(64u8), Just(62u8), 1u8..=63], 0..6), any::<bool>(), vec(prop_oneof![Just(63u8), Just(61u8), Just(60u8), Just(59u8), Just(1u8), 1u8..=63], 0..5))
        .prop_map(|(first_labels, via_pointer, tail_labels)| Source::LongName { first_labels, via_pointer, tail_labels });
    let rdlen = (prop::sample::select(RTYPES.to_vec()), vec(any::<u8>(), 0..40), prop_oneof![Just(0u16), 0u16..48, Just(65_535u16)], 0u8..4)
        .prop_map(|(rtype, rdata, declared, trailing)| Source::Rdlen { rtype, rdata, declared, trailing });
    // EDNS options: codes hickory interprets (3 NSID, 5 DAU, 8 client subnet) with every kind of
    // inconsistent payload (family / prefix / address-length mismatches), plus others
    let ecs = (prop_oneof![3 => Just(1u16), 3 => Just(2u16), 1 => any::<u16>()], any::<u8>(), any::<u8>(), vec(any::<u8>(), 0..20)).prop_map(|(fam, sp, sc, addr)| {
        let mut v = fam.to_be_bytes().to_vec();
        v.push(sp);
        v.push(sc);
        v.extend(addr);
        (8u16, v)
    });
    let opt_one = prop_oneof![
        4 => ecs,
        1 => vec(any::<u8>(), 0..6).prop_map(|v| (8u16, v)),
        2 => vec(any::<u8>(), 0..40).prop_map(|v| (5u16, v)),
        2 => vec(any::<u8>(), 0..40).prop_map(|v| (3u16, v)),
        2 => (prop::sample::select(vec![1u16, 2, 4, 6, 7, 9, 10, 11, 12, 13, 14, 15, 16, 17, 65001]), vec(any::<u8>(), 0..40)).prop_map(|(c, v)| (c, v)),
    ];
    let opts = (vec(opt_one, 1..4), any::<u16>(), any::<u32>()).prop_map(|(options, payload, ttl)| Source::OptOptions { options, payload, ttl });
    let graph = (vec(any::<u8>(), 1..8), vec(any::<u8>(), 1..4), 0u8..3).prop_map(|(edges, entry, label_slots)| Source::PointerGraph { edges, entry, label_slots });
    prop_oneof![
        8 => model,
        3 => raw,
        2 => random,
        2 => chain,
        1 => deep,
        1 => counts,
        2 => long,
        2 => rdlen,
        3 => opts,
        2 => graph,
    ]
    .boxed()
}

fn case(heavy: bool) -> impl Strategy<Value = Case> {
    (0u8..9, any::<u16>(), any::<u16>(), source(heavy)).prop_map(|(entry, off, rtype, src)| Case { entry, off, rtype, src })
}

/// fuzz entry: first 5 octets select entry point / offset / type, the rest is the input
pub fn fuzz_one(data: &[u8]) -> CaseResult {
    if data.len() < 5 {
        return Ok(());
    }
    let c = Case {
        entry: data[0],
        off: u16::from_le_bytes([data[1], data[2]]),
        rtype: u16::from_le_bytes([data[3], data[4]]),
        src: Source::Bytes(data[5..].to_vec()),
    };
    let mut rec = Rec::default();
    body(&c, &mut rec)
}

fn fuzz_seeds() -> Vec<Vec<u8>> {
    // structured seeds: a few adversarial-family members and golden-style packets for every entry
    let mut out = Vec::new();
    let srcs = vec![
        Source::PointerChain { chain: 40, refs: 20, as_records: true, label_before_chain: 1 },
        Source::DeepLabels { labels: 127, refs: 10, label_len: 1 },
        Source::Counts { counts: [1, 65_535, 0, 0], body: vec![0, 0, 1, 0, 1] },
        Source::LongName { first_labels: vec![63, 63], via_pointer: true, tail_labels: vec![63, 61] },
        Source::Rdlen { rtype: 16, rdata: vec![3, b'a', b'b', b'c'], declared: 4, trailing: 0 },
        Source::Rdlen { rtype: 46, rdata: vec![0, 1, 13, 2, 0, 0, 0, 60, 0, 0, 0, 2, 0, 0, 0, 1, 0, 7, 0, 1, 2, 3], declared: 22, trailing: 0 },
    ];
    for (i, src) in srcs.iter().enumerate() {
        let (b, _) = materialise(src);
        for entry in [0u8, 1, 4, 6, 8] {
            let mut v = vec![entry, (12 + i) as u8, 0, i as u8, 0];
            v.extend_from_slice(&b);
            out.push(v);
        }
    }
    out
}

pub fn check() -> Option<Check> {
    let fuzz: Box<dyn crate::core::Sub> = Box::new(crate::core::FuzzSub {
        name: "fz_decode",
        target: "fz_decode",
        runs_thorough: 6_000_000,
        max_len: 65_535,
        oracle: fuzz_one,
        seeds: fuzz_seeds,
    });
    let light = prop_hang("decode_total", 200_000, 5_000_000, Duration::from_secs(20), |_| case(false), body);
    // 64 KB inputs, full-length pointer chains: fewer, heavier cases
    let heavy = prop_hang("decode_total_heavy", 1_500, 60_000, Duration::from_secs(20), |_| case(true), body);
    Some(Check {
        id: "C01",
        level: "exploration",
        rule: "entry points {Message::from_vec, Request::from_bytes, DnsResponse::from_buffer, Header+Query::read, Record::read@offset, Name::read@offset, RData::read(split_off(len), type) for 41 type codes, TSigner::verify_message_byte (on bytes that parse as a message), MessageRequest::read} × sources {valid model encodings (3 compression modes, case-folded pointer targets), 1..3 byte mutations of them (bit flip, byte set, truncate, extend, count edit, pointer injection, RDLENGTH / label-length edit, insert, delete, duplicate record), raw short strings, pseudo-random bodies up to 65,535 octets, pointer chains up to 8,190 hops referenced by up to 4,000 names, 127-label names referenced many times, header counts of 65,535 on tiny bodies, names around 253..256 octets with labels 62..70 with/without a pointer, RDLENGTH games}. Non-trivial = distinct case AND (decoded Ok with ≥1 name, or failed after reading past the header with the name decoder having run, or belongs to an adversarial family)",
        assumptions: vec![
            "'time proportional to the input length' is decided as deterministic work: iterations of the name-decoding loop (hook counter) ≤ 128·|b|+1024 per call; a 20 s wall budget per call only catches outright non-termination",
            "allocation size is not examined (header counts pre-allocate; noted in DESIGN.md §10)",
            "verify_message_byte is only fed bytes that Message::from_vec accepts, as its callers do",
        ],
        subs: vec![light, heavy, fuzz],
    })
}
