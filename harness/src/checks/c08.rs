//! C08 — not built yet (stub).

use crate::core::Check;

pub fn check() -> Option<Check> {
    None
}
