//! C08 — NSEC denial of existence is sound and complete.
//!
//! Soundness (semantic): for a model zone Z, a query q, a claim c (NXDOMAIN / NODATA /
//! wildcard-expanded answer) and *any* non-empty subset of Z's genuine NSEC chain,
//! `verify_nsec(..) == Secure` ⇒ c is TRUE in Z according to the truth predicate of
//! `refm::zonemodel` (RFC 1034 §4.3.2 + RFC 4592 + RFC 4035 §3.1.4 — not a re-reading of RFC 4035
//! §5.4).  Completeness: for every (Z, q) whose truth is negative or wildcard-expanded, the NSECs
//! hickory's own server attaches make `verify_nsec` (and, sampled, the real `DnssecDnsHandle`)
//! accept the response.

use std::cell::RefCell;
use std::rc::Rc;

use hickory_net::dnssec::verif_hooks::verify_nsec;
use hickory_proto::dnssec::rdata::NSEC;
use hickory_proto::op::{Query, ResponseCode};
use hickory_proto::rr::{Name, Record};
use proptest::prelude::*;
use serde::{Deserialize, Serialize};

use crate::core::{enumerate, prop, CaseResult, Check, Env, Fail, Rec, Tier};
use crate::gen::zonebuild::{self as zb, abs_q, hk_nsec, rtype, to_name, wild_answers, HkZone, NxKind};
use crate::gen::nzones::{self as zones, masks_for, ZText};
use crate::refm::zonemodel::{nsec_chain, show, ty, Claim, NsecRec, Truth, Zone};

/// signatures of the deviations recorded as known findings (one per root cause); anything else
/// found in the same case is reported first so that it can never hide behind them
pub const NARROW_SIGS: [&str; 14] = [
    "nsec-ent-treated-as-nonexistent",
    "nsec-ancestor-delegation-nsec-accepted",
    "nsec-no-soa-parent-assumed-closest-encloser",
    "nsec-wildcard-answer-closer-encloser-exists",
    "nsec-query-below-wildcard-label",
    "nsec-ent-nodata-rejected",
    "nsec-server-no-proof-in-apex-only-zone",
    "nsec-server-proof-lacks-closest-encloser-wildcard-cover",
    "nsec-server-proof-lacks-wildcard-nsec",
    "nsec-wildcard-answer-one-label-expansion-rejected",
    "nsec-wildcard-answer-wraparound-cover-rejected-without-soa",
    "server-nxdomain-when-wildcard-exists-without-type",
    "server-wildcard-synthesis-ignores-closest-encloser",
    "server-no-synthesis-for-asterisk-qname",
];

pub fn pick_deviation(mut devs: Vec<Fail>, narrow: &[&str]) -> CaseResult {
    if devs.is_empty() {
        return Ok(());
    }
    devs.sort_by_key(|f| narrow.contains(&f.sig.as_str()));
    if std::env::var_os("VERIF_TRIAGE").is_some() {
        for d in devs {
            let _ = triage(d);
        }
        return Ok(());
    }
    Err(devs.swap_remove(0))
}

/// development aid (VERIF_TRIAGE=1): do not stop at deviations, print the first few per
/// signature and a total per signature at exit; never set in a real run
pub fn triage(f: Fail) -> CaseResult {
    use std::collections::BTreeMap;
    use std::sync::Mutex;
    static SEEN: Mutex<BTreeMap<String, u64>> = Mutex::new(BTreeMap::new());
    if std::env::var_os("VERIF_TRIAGE").is_none() {
        return Err(f);
    }
    let mut m = SEEN.lock().unwrap();
    let n = m.entry(f.sig.clone()).or_default();
    *n += 1;
    if *n <= 3 || n.is_power_of_two() {
        eprintln!("TRIAGE {} #{}: {}", f.sig, n, f.msg);
    }
    Ok(())
}

// ---------------------------------------------------------------------------------------------
// per-thread fixture cache (enumerations are zone-major, so the last zone is reused)

pub struct SoundCtx {
    pub zone: Zone,
    pub apex: Name,
    pub chain: Vec<NsecRec>,
    pub hk: Vec<(Name, NSEC)>,
}

thread_local! {
    static SOUND: RefCell<Option<(ZText, Rc<SoundCtx>)>> = const { RefCell::new(None) };
    static HK: RefCell<Option<(ZText, Rc<(Zone, HkZone)>)>> = const { RefCell::new(None) };
}

pub fn parse_zone(z: &ZText) -> Result<Zone, Fail> {
    Zone::parse(z.as_str()).map_err(|e| Fail::new("harness-bad-zone-text", format!("{e}: {}", z.as_str())))
}

fn sound_ctx(z: &ZText) -> Result<Rc<SoundCtx>, Fail> {
    SOUND.with(|c| {
        let mut c = c.borrow_mut();
        if let Some((k, v)) = c.as_ref() {
            if k == z {
                return Ok(v.clone());
            }
        }
        let zone = parse_zone(z)?;
        let chain = nsec_chain(&zone);
        let hk = chain.iter().map(hk_nsec).collect();
        let v = Rc::new(SoundCtx {
            apex: to_name(&zone.apex),
            zone,
            chain,
            hk,
        });
        *c = Some((z.clone(), v.clone()));
        Ok(v)
    })
}

fn hk_ctx(z: &ZText) -> Result<Rc<(Zone, HkZone)>, Fail> {
    HK.with(|c| {
        let mut c = c.borrow_mut();
        if let Some((k, v)) = c.as_ref() {
            if k == z {
                return Ok(v.clone());
            }
        }
        let zone = parse_zone(z)?;
        let hz = zb::build_hk_zone(&zone, &NxKind::Nsec).map_err(|e| Fail::new("harness-zone-build", e))?;
        let v = Rc::new((zone, hz));
        *c = Some((z.clone(), v.clone()));
        Ok(v)
    })
}

// ---------------------------------------------------------------------------------------------
// soundness

#[derive(Clone, Debug, Serialize, Deserialize)]
pub struct SoundCase {
    pub zone: ZText,
    /// query name relative to the apex (`@` = apex)
    pub q: ZText,
    /// query types evaluated
    pub qtypes: Vec<u16>,
    /// 0 = all non-empty subsets of the chain; otherwise seed of the sampled subset list
    pub mask_seed: u64,
}

pub const QTYPES4: [u16; 4] = [ty::A, ty::TXT, ty::DS, ty::NS];

pub struct ClaimCase {
    pub claim: Claim,
    pub rcode: ResponseCode,
    pub answers: Vec<Record>,
}

/// the claims that can be put to a validator for (q, qtype): NXDOMAIN, NODATA, and every
/// wildcard-expanded answer for which a genuine RRSIG exists in the zone
pub fn claims_for(zone: &Zone, q: &[Vec<u8>], qn: &Name, apex: &Name, qtype: u16) -> Vec<ClaimCase> {
    let mut v = vec![
        ClaimCase {
            claim: Claim::NxDomain,
            rcode: ResponseCode::NXDomain,
            answers: vec![],
        },
        ClaimCase {
            claim: Claim::NoData,
            rcode: ResponseCode::NoError,
            answers: vec![],
        },
    ];
    for (i, w) in zone.wild_candidates(q, qtype).into_iter().enumerate() {
        let answers = wild_answers(qn, apex, w.answer_type, w.labels);
        if i == 0 && w.answer_type != ty::CNAME {
            v.push(ClaimCase {
                claim: Claim::NxWithWildAnswer { labels: w.labels },
                rcode: ResponseCode::NXDomain,
                answers: answers.clone(),
            });
        }
        v.push(ClaimCase {
            claim: Claim::WildAnswer { labels: w.labels },
            rcode: ResponseCode::NoError,
            answers,
        });
    }
    v
}

fn render_subset(chain: &[NsecRec], mask: u32) -> String {
    chain
        .iter()
        .enumerate()
        .filter(|(i, _)| mask >> i & 1 == 1)
        .map(|(_, r)| {
            format!(
                "{} NSEC {} ({})",
                show(&r.owner),
                show(&r.next),
                r.types.iter().map(|t| ty::mnemonic(*t)).collect::<Vec<_>>().join(" ")
            )
        })
        .collect::<Vec<_>>()
        .join("; ")
}

pub fn classify_unsound(cx: &SoundCtx, q: &[Vec<u8>], claim: Claim, truth: &Truth, soa: bool, mask: u32) -> String {
    use crate::refm::zonemodel::{is_wildcard_name, Exist};
    let in_subset = |owner: &[Vec<u8>]| {
        cx.chain
            .iter()
            .enumerate()
            .any(|(i, r)| mask >> i & 1 == 1 && crate::refm::canon::name_eq(&r.owner, owner))
    };
    // the true closest encloser, where the name does not exist
    let ce = match truth {
        Truth::NxDomain { ce } | Truth::WildAnswer { ce, .. } | Truth::WildNoData { ce, .. } => Some(ce),
        _ => None,
    };
    // an existing proper ancestor of q below the apex whose leftmost label is `*`
    let star_ancestor = (cx.zone.apex.len() + 1..q.len()).any(|len| {
        let anc = &q[q.len() - len..];
        is_wildcard_name(anc) && cx.zone.exist(anc) != Exist::No
    });
    match (claim, truth) {
        // RFC 4035 §5.4 / RFC 6840 §4.1: an ancestor delegation NSEC must not be used for the
        // delegation owner (other than DS) or anything below it
        (_, Truth::Referral { cut, .. }) if in_subset(cut) => "nsec-ancestor-delegation-nsec-accepted".into(),
        // without an SOA in the authority section the parent of the query name is taken as the
        // closest encloser although nothing proves that it exists
        (Claim::NxDomain | Claim::NoData, _) if !soa && !star_ancestor && ce.is_some_and(|ce| ce.len() + 1 < q.len()) => {
            "nsec-no-soa-parent-assumed-closest-encloser".into()
        }
        // RFC 4035 §5.4 / RFC 4592 §2.2.2: a name covered by an NSEC whose next name is a
        // descendant of it exists (as an empty non-terminal) — for the query name or for the
        // source of synthesis
        (Claim::NxDomain | Claim::WildAnswer { .. } | Claim::NxWithWildAnswer { .. }, Truth::NoData { ent: true, .. })
        | (Claim::NxDomain, Truth::WildNoData { wildcard_is_ent: true, .. })
            if !star_ancestor =>
        {
            "nsec-ent-treated-as-nonexistent".into()
        }
        // RFC 4035 §5.3.4: a wildcard-expanded answer needs proof that no closer match exists;
        // here the true closest encloser is longer than the one the RRSIG Labels field claims
        (Claim::WildAnswer { labels }, _) if !star_ancestor && ce.is_some_and(|ce| ce.len() > labels as usize) => {
            "nsec-wildcard-answer-closer-encloser-exists".into()
        }
        // RFC 4592 §2.1.1/§3.3.1: `*` is an ordinary label in the domain tree; hickory's
        // Name::num_labels() does not count a leading `*`, which derails the closest-encloser
        // arithmetic for names below an existing `*` node
        _ if star_ancestor => "nsec-query-below-wildcard-label".into(),
        _ => format!("nsec-unsound-{}-when-{}", claim.kind(), truth.kind()),
    }
}

fn sound_body(c: &SoundCase, rec: &mut Rec) -> CaseResult {
    let cx = sound_ctx(&c.zone)?;
    let q = abs_q(&cx.zone, c.q.as_str());
    let qn = to_name(&q);
    let k = cx.chain.len();
    let masks: Vec<u32> = if c.mask_seed == 0 {
        (1..(1u32 << k)).collect()
    } else {
        masks_for(k, c.mask_seed, 48)
    };
    rec.class(zb::pos_class(&cx.zone, &q));
    rec.class(format!("chain-len-{}", k.min(9)));
    let mut devs: Vec<Fail> = Vec::new();
    let (mut calls, mut secure, mut true_claims, mut false_claims, mut secure_true) = (0u64, 0u64, 0u64, 0u64, 0u64);
    let mut full_rejects = 0u64;
    for &qtype in &c.qtypes {
        let truth = cx.zone.truth(&q, qtype);
        rec.count(format!("truth/{}", truth.kind()), 1);
        let query = Query::new(qn.clone(), rtype(qtype));
        for cc in claims_for(&cx.zone, &q, &qn, &cx.apex, qtype) {
            let expected = cx.zone.claim_true(&q, qtype, cc.claim);
            if expected {
                true_claims += 1;
            } else {
                false_claims += 1;
            }
            for soa in [Some(&cx.apex), None] {
                let mut worst: Option<u32> = None;
                for &mask in &masks {
                    let sel: Vec<(&Name, &NSEC)> = cx
                        .hk
                        .iter()
                        .enumerate()
                        .filter(|(i, _)| mask >> i & 1 == 1)
                        .map(|(_, (n, d))| (n, d))
                        .collect();
                    let p = verify_nsec(&query, soa, cc.rcode, &cc.answers, &sel);
                    calls += 1;
                    if p.is_secure() {
                        secure += 1;
                        if expected {
                            secure_true += 1;
                        } else if worst.is_none_or(|w| mask.count_ones() < w.count_ones()) {
                            worst = Some(mask);
                        }
                    } else if expected && soa.is_some() && mask == (1u32 << k) - 1 {
                        full_rejects += 1;
                    }
                }
                if let Some(mask) = worst {
                    let sig = classify_unsound(&cx, &q, cc.claim, &truth, soa.is_some(), mask);
                    devs.push(Fail::new(
                        sig,
                        format!(
                            "zone [{}] query {} {} claim {:?} soa={} accepted as Secure on {{{}}} but the truth is {}",
                            cx.zone.render(),
                            qn,
                            ty::mnemonic(qtype),
                            cc.claim,
                            soa.map(|n| n.to_string()).unwrap_or_else(|| "-".into()),
                            render_subset(&cx.chain, mask),
                            truth
                        ),
                    ));
                }
            }
        }
    }
    rec.count("verify_calls", calls);
    rec.count("secure_verdicts", secure);
    rec.count("secure_on_true_claim", secure_true);
    rec.count("claims_true", true_claims);
    rec.count("claims_false", false_claims);
    rec.count("true_claim_rejected_with_full_chain", full_rejects);
    // NT (DESIGN §7 C08): some evaluated (claim, subset) is Secure, or a proper subset of a
    // sufficient proof (a true claim exists, subsets of the full chain are tried), or the claim
    // is false — at least one of NXDOMAIN / NODATA is false for every query, so every in-zone
    // case counts; out-of-zone names are trivial.
    if !matches!(cx.zone.pos(&q), crate::refm::zonemodel::Pos::Out) {
        rec.nontrivial();
        if secure > 0 && rec.wants_note() {
            rec.note(format!(
                "zone [{}] q={} types={:?}: {} verify_nsec calls over {} subsets, {} Secure ({} on true claims)",
                cx.zone.render(),
                qn,
                c.qtypes,
                calls,
                masks.len(),
                secure,
                secure_true
            ));
        }
    }
    pick_deviation(devs, &NARROW_SIGS)
}

fn enum_cases(max_nodes: usize, stride: usize, offset: usize) -> Box<dyn Iterator<Item = SoundCase> + Send> {
    let zones = zones::enum_zones(zones::APEX2, &zones::U2_NAMES, max_nodes);
    let qs: Vec<ZText> = zones::Q2_NAMES.iter().map(|s| ZText::new(s)).collect();
    Box::new(
        zones
            .into_iter()
            .enumerate()
            .filter(move |(i, _)| i % stride == offset % stride)
            .flat_map(move |(_, z)| {
                let qs = qs.clone();
                qs.into_iter().map(move |q| SoundCase {
                    zone: z.clone(),
                    q,
                    qtypes: QTYPES4.to_vec(),
                    mask_seed: 0,
                })
            }),
    )
}

fn sampled_sound(max_nodes: usize) -> impl Strategy<Value = SoundCase> {
    (zones::zone_text(max_nodes), zones::qpick(), zones::qtype_pick(), 1u64..u64::MAX).prop_map(
        |(zone, pick, qtype, seed)| {
            let q = match Zone::parse(zone.as_str()) {
                Ok(z) => zones::resolve_q(&pick, &zb::owners_rel(&z)),
                Err(_) => "@".into(),
            };
            SoundCase {
                zone,
                q: ZText::new(&q),
                qtypes: vec![qtype],
                mask_seed: seed,
            }
        },
    )
}

// ---------------------------------------------------------------------------------------------
// completeness against hickory's own server

#[derive(Clone, Debug, Serialize, Deserialize)]
pub struct CompCase {
    pub zone: ZText,
    pub q: ZText,
    pub qtype: u16,
}

#[derive(Debug, PartialEq, Eq)]
pub enum ServerKind {
    Referral,
    NxDomain,
    NoData,
    WildAnswer(u8),
    Positive,
    Other(String),
}

pub fn server_kind(p: &zb::NegParts) -> ServerKind {
    if p.referral {
        ServerKind::Referral
    } else if p.rcode == ResponseCode::NXDomain && p.answers.is_empty() {
        ServerKind::NxDomain
    } else if p.rcode == ResponseCode::NoError && p.answers.is_empty() {
        ServerKind::NoData
    } else if p.rcode == ResponseCode::NoError {
        match p.wildcard_rrsig_labels {
            Some(l) => ServerKind::WildAnswer(l),
            None => ServerKind::Positive,
        }
    } else {
        ServerKind::Other(format!("{:?}", p.rcode))
    }
}

/// does the server's answer have the shape the truth predicts (otherwise the deviation is an
/// authoritative-answer matter, property C10, and this property says nothing)
pub fn kinds_agree(truth: &Truth, k: &ServerKind) -> bool {
    match (truth, k) {
        (Truth::NxDomain { .. }, ServerKind::NxDomain) => true,
        (Truth::NoData { .. } | Truth::WildNoData { .. }, ServerKind::NoData) => true,
        (Truth::WildAnswer { ce, .. }, ServerKind::WildAnswer(l)) => ce.len() == *l as usize,
        _ => false,
    }
}

/// which NSEC of the genuine chain covers `name` (owner < name < next, the last record wraps)
fn model_cover<'a>(chain: &'a [NsecRec], name: &[Vec<u8>]) -> Option<&'a NsecRec> {
    use crate::refm::zonemodel::cmp_names;
    use std::cmp::Ordering::*;
    chain.iter().enumerate().find_map(|(i, r)| {
        let after_owner = cmp_names(name, &r.owner) == Greater;
        let before_next = cmp_names(name, &r.next) == Less;
        (after_owner && (before_next || i + 1 == chain.len())).then_some(r)
    })
}

/// Signature of a rejected server proof, by root cause. The model chain tells whether the
/// records RFC 4035 §3.1.3 requires were attached at all (server side) or were attached and
/// still rejected (validator side).
fn classify_incomplete(zone: &Zone, q: &[Vec<u8>], truth: &Truth, parts: &zb::NegParts) -> String {
    use crate::refm::zonemodel::{is_wildcard_name, wildcard_of, Exist};
    let chain = nsec_chain(zone);
    let attached = |r: &NsecRec| {
        let o = to_name(&r.owner);
        parts.nsecs.iter().any(|(n, _)| *n == o)
    };
    let star_ancestor = (zone.apex.len() + 1..q.len()).any(|len| {
        let anc = &q[q.len() - len..];
        is_wildcard_name(anc) && zone.exist(anc) != Exist::No
    });
    if star_ancestor {
        // same root cause as on the soundness side: Name::num_labels() ignores a leading `*`
        return "nsec-query-below-wildcard-label".into();
    }
    let q_cover = model_cover(&chain, q);
    let q_cover_attached = q_cover.is_some_and(attached);
    match truth {
        // RFC 4035 §3.1.3.2 / RFC 4592: NODATA for an empty non-terminal is proven by the NSEC
        // that covers it (its next name is a descendant)
        Truth::NoData { ent: true, .. } if q_cover_attached => "nsec-ent-nodata-rejected".into(),
        Truth::NxDomain { ce } => {
            let w_cover = model_cover(&chain, &wildcard_of(ce));
            if q_cover_attached && !w_cover.is_some_and(attached) && q.len() > ce.len() + 1 {
                // the server picks the NSEC around the *parent* of qname, not the one covering
                // the wildcard at the closest encloser: a deviation only when the closest encloser
                // lies above the parent (when it IS the parent, the NSEC around the parent is the
                // right one, and its absence is a different defect)
                "nsec-server-proof-lacks-closest-encloser-wildcard-cover".into()
            } else {
                "nsec-incomplete-nxdomain".into()
            }
        }
        Truth::WildAnswer { ce, .. } if q_cover_attached => {
            if q.len() == ce.len() + 1 {
                // without an SOA the parent of qname is taken as closest encloser and `*.parent`
                // (= the wildcard that was expanded) is required to be covered
                "nsec-wildcard-answer-one-label-expansion-rejected".into()
            } else if q_cover.is_some_and(|r| crate::refm::canon::name_eq(&r.next, &zone.apex)) {
                // the last NSEC of the chain covers by wrap-around, which is only recognised
                // when an SOA name is available; positive answers carry none
                "nsec-wildcard-answer-wraparound-cover-rejected-without-soa".into()
            } else {
                "nsec-incomplete-wild-answer".into()
            }
        }
        Truth::WildNoData { ce, .. } => {
            let w = wildcard_of(ce);
            let w_match = chain.iter().find(|r| crate::refm::canon::name_eq(&r.owner, &w));
            if q_cover_attached && !w_match.is_some_and(attached) {
                "nsec-server-proof-lacks-wildcard-nsec".into()
            } else {
                "nsec-incomplete-wild-nodata".into()
            }
        }
        t => format!("nsec-incomplete-{}", t.kind()),
    }
}

fn render_nsecs(n: &[(Name, NSEC)]) -> String {
    n.iter()
        .map(|(o, d)| {
            format!(
                "{} NSEC {} ({})",
                o,
                d.next_domain_name(),
                d.type_bit_maps().map(|t| t.to_string()).collect::<Vec<_>>().join(" ")
            )
        })
        .collect::<Vec<_>>()
        .join("; ")
}

/// The server's answer does not have the shape RFC 1034 §4.3.2 / RFC 4592 prescribe (the claim it
/// makes is false in the zone) and the validator — rightly — does not accept it. The property's
/// "for every signed zone and every query" is violated all the same; the root cause lies in the
/// authoritative lookup (property C10's subject), one signature per cause.
pub fn shape_sig(q: &[Vec<u8>], truth: &Truth, sk: &ServerKind) -> String {
    match (truth, sk) {
        // RFC 4592 §2.1.3 (and §3.3.1): an asterisk label in a *query* name is not special; the
        // server refuses to synthesise for any qname whose first label is `*`
        (Truth::WildAnswer { .. }, ServerKind::NxDomain | ServerKind::NoData)
            if crate::refm::zonemodel::is_wildcard_name(q) =>
        {
            "server-no-synthesis-for-asterisk-qname".into()
        }
        // no NODATA for "wildcard matches but has no such type" (RFC 4592 §3.3.1 / §2.2.3:
        // the source of synthesis exists, possibly as an empty non-terminal)
        (Truth::WildNoData { .. }, ServerKind::NxDomain) => "server-nxdomain-when-wildcard-exists-without-type".into(),
        // wildcard synthesis is tried whenever the exact lookup finds nothing: for existing
        // names without the type, for empty non-terminals, and from wildcards above the closest
        // encloser (RFC 4592 §3.3.1)
        (_, ServerKind::WildAnswer(_)) => "server-wildcard-synthesis-ignores-closest-encloser".into(),
        (t, k) => format!("server-answers-{k:?}-when-{}", t.kind()).replace(|c: char| c.is_ascii_digit(), "N"),
    }
}

fn comp_body(c: &CompCase, rec: &mut Rec) -> CaseResult {
    let cx = hk_ctx(&c.zone)?;
    let (zone, hz) = (&cx.0, &cx.1);
    let q = abs_q(zone, c.q.as_str());
    let qn = to_name(&q);
    let truth = zone.truth(&q, c.qtype);
    if !truth.is_negative_or_wild() {
        rec.discard(format!("truth-{}", truth.kind()));
        return Ok(());
    }
    let m = zb::ask(hz, &qn, rtype(c.qtype)).map_err(|e| Fail::new("harness-ask", e))?;
    let parts = zb::split_response(&m);
    let sk = server_kind(&parts);
    let agree = kinds_agree(&truth, &sk);
    rec.class(format!("truth-{}", truth.kind()));
    rec.class(format!("attached-nsecs-{}", parts.nsecs.len()));
    rec.class(if agree { "server-shape-as-truth" } else { "server-shape-differs" });
    rec.nontrivial();
    let query = Query::new(qn.clone(), rtype(c.qtype));
    let sel: Vec<(&Name, &NSEC)> = parts.nsecs.iter().map(|(n, d)| (n, d)).collect();
    let render = || {
        format!(
            "zone [{}] query {} {} truth {}: server answered {:?} (rcode={:?} answers={} soa={:?}) nsecs {{{}}}",
            zone.render(),
            qn,
            ty::mnemonic(c.qtype),
            truth,
            sk,
            parts.rcode,
            parts.answers.len(),
            parts.soa_name.as_ref().map(|n| n.to_string()),
            render_nsecs(&parts.nsecs)
        )
    };
    // `verify_response` calls verify_nsec only when NSECs are present; without any, a negative
    // or wildcard response ends up Bogus
    let p = if sel.is_empty() {
        None
    } else {
        Some(verify_nsec(&query, parts.soa_name.as_ref(), parts.rcode, &parts.answers, &sel))
    };
    if rec.wants_note() {
        rec.note(format!("{} -> {:?}", render(), p));
    }
    // names compare without regard to letter case (RFC 4343): same verdict for another spelling
    // of the SOA owner or of the query name
    if let (Some(d), Some(soa)) = (p, parts.soa_name.as_ref()) {
        let upper = |n: &Name| Name::from_ascii(n.to_ascii().to_ascii_uppercase()).unwrap_or_else(|_| n.clone());
        let d_soa = verify_nsec(&query, Some(&upper(soa)), parts.rcode, &parts.answers, &sel);
        let d_q = verify_nsec(&Query::new(upper(&query.name), query.query_type), Some(soa), parts.rcode, &parts.answers, &sel);
        if d_soa != d || d_q != d {
            return triage(Fail::new(
                "nsec-verdict-depends-on-letter-case",
                format!("{}: verdict {d:?}; with the SOA owner in upper case {d_soa:?}; with the query name in upper case {d_q:?}", render()),
            ));
        }
    }
    let secure = p.is_some_and(|p| p.is_secure());
    match (agree, secure) {
        (true, true) => Ok(()),
        (true, false) if sel.is_empty() => {
            // a zone whose only owner is the apex has the single NSEC apex -> apex (RFC 4034 §4.1.1)
            let sig = if zone.tree_owners().len() == 1 {
                "nsec-server-no-proof-in-apex-only-zone"
            } else {
                "nsec-server-attached-no-nsec"
            };
            triage(Fail::new(sig, render()))
        }
        (true, false) => triage(Fail::new(
            classify_incomplete(zone, &q, &truth, &parts),
            format!("{} -> verify_nsec = {:?}", render(), p),
        )),
        (false, false) => triage(Fail::new(
            shape_sig(&q, &truth, &sk),
            format!("{} -> verify_nsec = {:?} (the claim is false in the zone)", render(), p),
        )),
        (false, true) => {
            // a false claim made by the server itself and accepted: soundness
            let claim = match sk {
                ServerKind::NxDomain => Claim::NxDomain,
                ServerKind::NoData => Claim::NoData,
                ServerKind::WildAnswer(l) => Claim::WildAnswer { labels: l },
                _ => Claim::NoData,
            };
            let chain = nsec_chain(zone);
            let mut mask = 0u32;
            for (i, r) in chain.iter().enumerate() {
                let o = to_name(&r.owner);
                if parts.nsecs.iter().any(|(n, _)| *n == o) {
                    mask |= 1 << i;
                }
            }
            let scx = SoundCtx {
                zone: zone.clone(),
                apex: hz.apex.clone(),
                hk: vec![],
                chain,
            };
            triage(Fail::new(
                classify_unsound(&scx, &q, claim, &truth, parts.soa_name.is_some(), mask),
                format!("{} -> verify_nsec = Secure although the claim is false in the zone", render()),
            ))
        }
    }
}

fn comp_enum_cases(max_nodes: usize, stride: usize) -> Box<dyn Iterator<Item = CompCase> + Send> {
    let zl = zones::enum_zones(zones::APEX2, &zones::U2_NAMES, max_nodes);
    Box::new(zl.into_iter().enumerate().filter(move |(i, _)| i % stride == 0).flat_map(|(_, zt)| {
        let zone = Zone::parse(zt.as_str()).expect("enumerated zones parse");
        let mut v = Vec::new();
        for qs in zones::Q2_NAMES {
            let q = abs_q(&zone, qs);
            for t in QTYPES4 {
                if zone.truth(&q, t).is_negative_or_wild() {
                    v.push(CompCase {
                        zone: zt.clone(),
                        q: ZText::new(qs),
                        qtype: t,
                    });
                }
            }
        }
        v.into_iter()
    }))
}

/// sampled (zone, query) whose truth is positive (the RRset, or a CNAME, exists at the name)
pub fn sampled_positive(max_nodes: usize) -> impl Strategy<Value = CompCase> {
    (
        zones::zone_text(max_nodes),
        proptest::collection::vec((zones::qpick(), zones::qtype_pick()), 8),
    )
        .prop_map(|(zone, picks)| {
            let mut chosen: Option<(String, u16)> = None;
            if let Ok(z) = Zone::parse(zone.as_str()) {
                let owners = zb::owners_rel(&z);
                for (p, t) in &picks {
                    let q = zones::resolve_q(p, &owners);
                    if matches!(z.truth(&abs_q(&z, &q), *t), Truth::Positive) {
                        chosen = Some((q, *t));
                        break;
                    }
                }
                if chosen.is_none() {
                    // every owner has some type: ask for the first type of the first owner
                    for o in &owners {
                        for t in [ty::A, ty::TXT, ty::NS, ty::CNAME, ty::SOA] {
                            if matches!(z.truth(&abs_q(&z, o), t), Truth::Positive) {
                                chosen = Some((o.clone(), t));
                                break;
                            }
                        }
                        if chosen.is_some() {
                            break;
                        }
                    }
                }
            }
            let (q, qtype) = chosen.unwrap_or(("@".into(), ty::SOA));
            CompCase { zone, q: ZText::new(&q), qtype }
        })
}

/// sampled (zone, query) with negative / wildcard truth: the query is *constructed* from the
/// zone (candidate pool filtered by the truth predicate), not rejected
pub fn sampled_comp(max_nodes: usize) -> impl Strategy<Value = CompCase> {
    (
        zones::zone_text(max_nodes),
        proptest::collection::vec((zones::qpick(), zones::qtype_pick()), 6),
    )
        .prop_map(|(zone, picks)| {
            let parsed = Zone::parse(zone.as_str());
            let mut chosen: Option<(String, u16)> = None;
            let mut first: Option<(String, u16)> = None;
            if let Ok(z) = &parsed {
                let owners = zb::owners_rel(z);
                for (p, t) in &picks {
                    let q = zones::resolve_q(p, &owners);
                    if first.is_none() {
                        first = Some((q.clone(), *t));
                    }
                    if z.truth(&abs_q(z, &q), *t).is_negative_or_wild() {
                        chosen = Some((q, *t));
                        break;
                    }
                }
            }
            let (q, qtype) = chosen.or(first).unwrap_or(("@".into(), ty::TXT));
            CompCase {
                zone,
                q: ZText::new(&q),
                qtype,
            }
        })
}

// ---------------------------------------------------------------------------------------------
// end to end: the same responses through the real DnssecDnsHandle (real signatures, trust
// anchor = zone key, validator clock = virtual clock)

#[derive(Debug)]
pub enum E2eVerdict {
    /// Ok(response); `all_secure` = every answer/authority record carries Proof::Secure
    Accepted { all_secure: bool, rcode: ResponseCode, answers: usize },
    /// Err(DnsError::Nsec { proof })
    NsecRejected(String),
    OtherError(String),
}

pub fn e2e_query(hz: &HkZone, qn: &Name, qtype: u16, limits: Option<(u16, u16)>) -> Result<E2eVerdict, Fail> {
    e2e_query_opt(hz, qn, qtype, limits.map(|(s, h)| (Some(s), Some(h))))
}

/// as `e2e_query`, with each limit optionally left at the builder's default (soft 100, hard 500)
pub fn e2e_query_opt(hz: &HkZone, qn: &Name, qtype: u16, limits: Option<(Option<u16>, Option<u16>)>) -> Result<E2eVerdict, Fail> {
    use futures_util::StreamExt;
    use hickory_net::dnssec::DnssecDnsHandle;
    use hickory_net::xfer::DnsHandle;
    use hickory_net::{DnsError, NetError};
    use hickory_proto::dnssec::Proof;
    use hickory_proto::op::DnsRequestOptions;
    use hickory_proto::rr::RecordType;

    let mut sim = crate::sim::Sim::new(zb::T0 + 60);
    let handle = zb::CatalogHandle {
        catalog: hz.catalog.clone(),
        log: Default::default(),
    };
    let mut dh = DnssecDnsHandle::with_trust_anchor(handle, zb::trust_anchor(hz)).validation_cache_size(256);
    if let Some((soft, hard)) = limits {
        dh = dh.nsec3_iteration_limits(soft, hard);
    }
    let query = Query::new(qn.clone(), rtype(qtype));
    let fut = async move {
        let mut s = dh.lookup(query, DnsRequestOptions::default());
        s.next().await
    };
    let r = sim
        .run(fut, 10_000)
        .map_err(|e| Fail::new("harness-sim", format!("simulation ended with {e:?}")))?;
    Ok(match r {
        None => E2eVerdict::OtherError("empty response stream".into()),
        Some(Ok(resp)) => {
            let all_secure = resp
                .answers
                .iter()
                .chain(resp.authorities.iter())
                .filter(|r| r.record_type() != RecordType::OPT)
                .all(|r| r.proof == Proof::Secure);
            E2eVerdict::Accepted {
                all_secure,
                rcode: resp.metadata.response_code,
                answers: resp.answers.len(),
            }
        }
        Some(Err(NetError::Dns(DnsError::Nsec { proof, .. }))) => E2eVerdict::NsecRejected(format!("{proof:?}")),
        Some(Err(e)) => E2eVerdict::OtherError(e.to_string()),
    })
}

fn e2e_body(c: &CompCase, rec: &mut Rec) -> CaseResult {
    let cx = hk_ctx(&c.zone)?;
    let (zone, hz) = (&cx.0, &cx.1);
    let q = abs_q(zone, c.q.as_str());
    let qn = to_name(&q);
    let truth = zone.truth(&q, c.qtype);
    if !truth.is_negative_or_wild() {
        rec.discard(format!("truth-{}", truth.kind()));
        return Ok(());
    }
    // what the server says (for classification) and what the direct call says
    let m = zb::ask(hz, &qn, rtype(c.qtype)).map_err(|e| Fail::new("harness-ask", e))?;
    let parts = zb::split_response(&m);
    let sk = server_kind(&parts);
    let agree = kinds_agree(&truth, &sk);
    let sel: Vec<(&Name, &NSEC)> = parts.nsecs.iter().map(|(n, d)| (n, d)).collect();
    let direct = (!sel.is_empty()).then(|| {
        verify_nsec(
            &Query::new(qn.clone(), rtype(c.qtype)),
            parts.soa_name.as_ref(),
            parts.rcode,
            &parts.answers,
            &sel,
        )
    });
    let direct_secure = direct.is_some_and(|p| p.is_secure());
    let v = e2e_query(hz, &qn, c.qtype, None)?;
    let e2e_secure = matches!(v, E2eVerdict::Accepted { all_secure: true, .. });
    rec.class(format!("truth-{}", truth.kind()));
    rec.class(if agree { "server-shape-as-truth" } else { "server-shape-differs" });
    rec.class(format!("e2e-{}", match &v {
        E2eVerdict::Accepted { all_secure: true, .. } => "secure",
        E2eVerdict::Accepted { .. } => "accepted-not-all-secure",
        E2eVerdict::NsecRejected(_) => "nsec-rejected",
        E2eVerdict::OtherError(_) => "other-error",
    }));
    rec.nontrivial();
    let render = || {
        format!(
            "zone [{}] query {} {} truth {}: server answered {:?} nsecs {{{}}}; direct verify_nsec = {:?}; DnssecDnsHandle = {:?}",
            zone.render(),
            qn,
            ty::mnemonic(c.qtype),
            truth,
            sk,
            render_nsecs(&parts.nsecs),
            direct,
            v
        )
    };
    if rec.wants_note() {
        rec.note(render());
    }
    if let E2eVerdict::OtherError(e) = &v {
        return triage(Fail::new("nsec-e2e-other-error", format!("{}: {e}", render())));
    }
    // the end-to-end verdict must be the direct one (it additionally checks real signatures,
    // which are all genuine here)
    if e2e_secure != direct_secure {
        let sig = if e2e_secure { "nsec-e2e-secure-but-direct-not" } else { "nsec-e2e-rejects-what-direct-accepts" };
        return triage(Fail::new(sig, render()));
    }
    match (agree, e2e_secure) {
        (true, true) => Ok(()),
        (true, false) if sel.is_empty() => triage(Fail::new(
            if zone.tree_owners().len() == 1 { "nsec-server-no-proof-in-apex-only-zone" } else { "nsec-server-attached-no-nsec" },
            render(),
        )),
        (true, false) => triage(Fail::new(classify_incomplete(zone, &q, &truth, &parts), render())),
        (false, false) => triage(Fail::new(shape_sig(&q, &truth, &sk), render())),
        (false, true) => {
            let claim = match sk {
                ServerKind::NxDomain => Claim::NxDomain,
                ServerKind::NoData => Claim::NoData,
                ServerKind::WildAnswer(l) => Claim::WildAnswer { labels: l },
                _ => Claim::NoData,
            };
            let chain = nsec_chain(zone);
            let mut mask = 0u32;
            for (i, r) in chain.iter().enumerate() {
                let o = to_name(&r.owner);
                if parts.nsecs.iter().any(|(n, _)| *n == o) {
                    mask |= 1 << i;
                }
            }
            let scx = SoundCtx { zone: zone.clone(), apex: hz.apex.clone(), hk: vec![], chain };
            triage(Fail::new(
                classify_unsound(&scx, &q, claim, &truth, parts.soa_name.is_some(), mask),
                format!("{} although the claim is false in the zone", render()),
            ))
        }
    }
}

// ---------------------------------------------------------------------------------------------
// end to end, forged: the genuine NSEC of a wildcard owner `*.X` and its genuine RRSIG, both
// renamed to a name `q` below X, so that the signature verifies the way a wildcard-expanded RRset
// does (RRSIG Labels < labels of q). NSEC RRs are never synthesised (RFC 4035 2.3 / RFC 4592 4.3);
// read "per RFC 4035 5.4" such a record is no statement about q at all. Presented as the NODATA
// proof for (q, qtype): if the validator accepts it although (q, qtype) exists, or q does not
// exist, the claim was accepted without being entailed.

#[derive(Clone)]
struct ForgingHandle {
    inner: zb::CatalogHandle,
    qname: Name,
    qtype: hickory_proto::rr::RecordType,
    forged: std::sync::Arc<hickory_proto::op::Message>,
}

impl hickory_net::xfer::DnsHandle for ForgingHandle {
    type Response = <zb::CatalogHandle as hickory_net::xfer::DnsHandle>::Response;
    type Runtime = crate::sim::SimRt;

    fn send(&self, request: hickory_proto::op::DnsRequest) -> Self::Response {
        let hit = request.queries.first().is_some_and(|q| q.query_type == self.qtype && q.name.to_lowercase() == self.qname.to_lowercase());
        if !hit {
            return self.inner.send(request);
        }
        let mut m = (*self.forged).clone();
        m.metadata.id = request.metadata.id;
        Box::pin(futures_util::stream::once(async move {
            let bytes = m.to_vec().map_err(|e| hickory_net::NetError::from(format!("encode: {e}")))?;
            hickory_proto::op::DnsResponse::from_buffer(bytes).map_err(|e| hickory_net::NetError::from(format!("decode: {e}")))
        }))
    }
}

fn forged_expansion_body(c: &CompCase, rec: &mut Rec) -> CaseResult {
    use futures_util::StreamExt;
    use hickory_net::dnssec::DnssecDnsHandle;
    use hickory_net::xfer::DnsHandle;
    use hickory_proto::dnssec::rdata::DNSSECRData;
    use hickory_proto::dnssec::Proof;
    use hickory_proto::op::{DnsRequestOptions, Message, MessageType, OpCode};
    use hickory_proto::rr::{RData, RecordType};

    let cx = hk_ctx(&c.zone)?;
    let (zone, hz) = (&cx.0, &cx.1);
    let q = abs_q(zone, c.q.as_str());
    let qn = to_name(&q);
    // the closest wildcard owner *.X of the generated chain with X a proper ancestor of q
    let wild = hz
        .chain_nsec
        .iter()
        .map(|(n, _)| n)
        .filter(|n| n.is_wildcard() && n.base_name().zone_of(&qn) && n.base_name().num_labels() < qn.num_labels() && !qn.is_wildcard())
        .max_by_key(|n| n.num_labels())
        .cloned();
    let Some(wild) = wild else {
        rec.discard("no-wildcard-owner-above-the-query-name");
        return Ok(());
    };
    // its genuine NSEC + RRSIG, and the SOA + RRSIG, from honest negative answers of the server
    let is_sig_of = |r: &Record, t: RecordType| matches!(&r.data, RData::DNSSEC(DNSSECRData::RRSIG(s)) if s.input().type_covered == t);
    let mut nsec: Vec<Record> = vec![];
    let mut soa: Vec<Record> = vec![];
    for t in [RecordType::Unknown(65280), RecordType::MX, RecordType::TXT, RecordType::A] {
        let m = zb::ask(hz, &wild, t).map_err(|e| Fail::new("harness-ask", e))?;
        let own = |r: &&Record| r.name.to_lowercase() == wild.to_lowercase();
        let n: Vec<Record> = m.authorities.iter().filter(own).filter(|r| r.record_type() == RecordType::NSEC || is_sig_of(r, RecordType::NSEC)).cloned().collect();
        if n.iter().any(|r| r.record_type() == RecordType::NSEC) && n.iter().any(|r| r.record_type() == RecordType::RRSIG) {
            nsec = n;
            soa = m.authorities.iter().filter(|r| r.record_type() == RecordType::SOA || is_sig_of(r, RecordType::SOA)).cloned().collect();
            break;
        }
    }
    if nsec.is_empty() || soa.is_empty() {
        rec.discard("server-does-not-hand-out-the-wildcard-nsec");
        return Ok(());
    }
    let bitmap_has = nsec.iter().any(|r| match &r.data {
        RData::DNSSEC(DNSSECRData::NSEC(n)) => n.type_bit_maps().any(|t| u16::from(t) == c.qtype),
        _ => false,
    });
    if bitmap_has {
        rec.discard("wildcard-owns-the-query-type");
        return Ok(());
    }
    let mut forged = Message::new(0, MessageType::Response, OpCode::Query);
    forged.metadata.authoritative = true;
    forged.add_query(Query::new(qn.clone(), rtype(c.qtype)));
    for r in soa {
        forged.add_authority(r);
    }
    for mut r in nsec {
        r.name = qn.clone();
        forged.add_authority(r);
    }
    let truth = zone.truth(&q, c.qtype);
    rec.class(format!("truth-{}", truth.kind()));
    let claim_false = matches!(truth, Truth::Positive | Truth::NxDomain { .. } | Truth::WildAnswer { .. });
    rec.class(if claim_false { "forged-nodata-claim-is-false" } else { "forged-nodata-claim-happens-to-be-true-or-undecidable" });
    if claim_false {
        rec.nontrivial();
    }

    let mut sim = crate::sim::Sim::new(zb::T0 + 60);
    let handle = ForgingHandle {
        inner: zb::CatalogHandle { catalog: hz.catalog.clone(), log: Default::default() },
        qname: qn.clone(),
        qtype: rtype(c.qtype),
        forged: std::sync::Arc::new(forged),
    };
    let dh = DnssecDnsHandle::with_trust_anchor(handle, zb::trust_anchor(hz)).validation_cache_size(256);
    let query = Query::new(qn.clone(), rtype(c.qtype));
    let r = sim
        .run(
            async move {
                let mut s = dh.lookup(query, DnsRequestOptions::default());
                s.next().await
            },
            10_000,
        )
        .map_err(|e| Fail::new("harness-sim", format!("simulation ended with {e:?}")))?;
    let accepted = match &r {
        Some(Ok(resp)) => {
            resp.answers.is_empty()
                && resp.metadata.response_code == ResponseCode::NoError
                && resp.authorities.iter().filter(|r| r.record_type() == RecordType::NSEC).all(|r| r.proof == Proof::Secure)
                && resp.authorities.iter().any(|r| r.record_type() == RecordType::NSEC)
        }
        _ => false,
    };
    rec.class(if accepted { "forged-expansion-accepted" } else { "forged-expansion-rejected" });
    if rec.wants_note() {
        rec.note(format!("zone [{}] query {qn} {} truth {truth}: NSEC of {wild} renamed to the query name", zone.render(), ty::mnemonic(c.qtype)));
    }
    if accepted && claim_false {
        return triage(Fail::new(
            "nsec-wildcard-owner-nsec-accepted-under-expanded-name",
            format!(
                "zone [{}] query {qn} {} truth {truth}: NODATA accepted as Secure on the NSEC of {wild} presented under the owner name {qn} with its genuine RRSIG (a \"wildcard-expanded\" NSEC); outcome {:?}",
                zone.render(),
                ty::mnemonic(c.qtype),
                r.as_ref().map(|x| x.as_ref().map(|m| (m.metadata.response_code, m.authorities.iter().map(|a| (a.record_type(), a.proof)).collect::<Vec<_>>())).map_err(|e| e.to_string()))
            ),
        ));
    }
    Ok(())
}

// ---------------------------------------------------------------------------------------------
// end to end, proof removed: the server's honest answer holds a wildcard-expanded RRset -- asked
// for directly, or reached through an in-zone CNAME at the query name -- together with the NSEC
// that shows no closer match exists. With every NSEC (and its RRSIG) cut out of the authority
// section nothing entails "no closer match than the expanded wildcard exists" any more, so the
// expanded RRset must not come back Secure.

fn stripped_proof_body(c: &CompCase, rec: &mut Rec) -> CaseResult {
    use futures_util::StreamExt;
    use hickory_net::dnssec::DnssecDnsHandle;
    use hickory_net::xfer::DnsHandle;
    use hickory_proto::dnssec::rdata::DNSSECRData;
    use hickory_proto::dnssec::Proof;
    use hickory_proto::op::DnsRequestOptions;
    use hickory_proto::rr::{RData, RecordType};

    let zone = parse_zone(&c.zone)?;
    let mut q = abs_q(&zone, c.q.as_str());
    let mut qtype = c.qtype;
    if !matches!(zone.truth(&q, qtype), Truth::WildAnswer { .. }) {
        // the generated query is not answered from a wildcard: take a name below one of the zone's
        // wildcard owners instead (label `c` is not used by the zone generator)
        let pick = zone.nodes.iter().filter(|(o, t)| o.first().is_some_and(|l| l.as_slice() == b"*") && (t.contains(&ty::A) || t.contains(&ty::TXT))).find_map(|(o, t)| {
            let mut n = vec![b"c".to_vec()];
            n.extend(o[1..].iter().cloned());
            let ty_ = if t.contains(&ty::A) { ty::A } else { ty::TXT };
            matches!(zone.truth(&n, ty_), Truth::WildAnswer { .. }).then_some((n, ty_))
        });
        if let Some((n, t)) = pick {
            q = n;
            qtype = t;
        }
    }
    let c = &CompCase { zone: c.zone.clone(), q: c.q.clone(), qtype };
    let qn = to_name(&q);
    let truth = zone.truth(&q, c.qtype);
    if !matches!(truth, Truth::WildAnswer { .. }) || c.qtype == ty::CNAME {
        rec.discard(format!("truth-{}", truth.kind()));
        return Ok(());
    }
    let via_alias = crate::core::fixed_hash(&[b"c08-stripped", c.zone.as_str().as_bytes(), c.q.as_str().as_bytes()]) % 2 == 0;
    let alias = Name::from_ascii("zz-alias").unwrap().append_domain(&to_name(&zone.apex)).map_err(|e| Fail::new("harness-name", e.to_string()))?;
    let extra = vec![(alias.clone(), RData::CNAME(hickory_proto::rr::rdata::CNAME(qn.clone())))];
    let hz = zb::build_hk_zone_with(&zone, &NxKind::Nsec, &extra).map_err(|e| Fail::new("harness-zone-build", e))?;
    let asked = if via_alias { alias.clone() } else { qn.clone() };
    rec.class(if via_alias { "expanded-rrset-reached-through-a-cname-at-the-query-name" } else { "expanded-rrset-asked-for-directly" });

    let honest = zb::ask(&hz, &asked, rtype(c.qtype)).map_err(|e| Fail::new("harness-ask", e))?;
    let expanded = honest.answers.iter().any(|r| match &r.data {
        RData::DNSSEC(DNSSECRData::RRSIG(s)) => s.input().type_covered == rtype(c.qtype) && s.input().num_labels < r.name.num_labels(),
        _ => false,
    });
    let is_nsec = |r: &Record| r.record_type() == RecordType::NSEC || matches!(&r.data, RData::DNSSEC(DNSSECRData::RRSIG(s)) if s.input().type_covered == RecordType::NSEC);
    if !expanded || !honest.authorities.iter().any(|r| r.record_type() == RecordType::NSEC) {
        // covered by the completeness sub-properties and the known server-side findings
        rec.discard("server-answer-holds-no-expanded-rrset-with-nsec");
        return Ok(());
    }
    let mut forged = honest.clone();
    let kept: Vec<Record> = forged.authorities.iter().filter(|r| !is_nsec(r)).cloned().collect();
    forged.authorities = kept;
    rec.nontrivial();

    let run = |msg: hickory_proto::op::Message| -> Result<Option<Result<hickory_proto::op::DnsResponse, hickory_net::NetError>>, Fail> {
        let mut sim = crate::sim::Sim::new(zb::T0 + 60);
        let handle = ForgingHandle {
            inner: zb::CatalogHandle { catalog: hz.catalog.clone(), log: Default::default() },
            qname: asked.clone(),
            qtype: rtype(c.qtype),
            forged: std::sync::Arc::new(msg),
        };
        let dh = DnssecDnsHandle::with_trust_anchor(handle, zb::trust_anchor(&hz)).validation_cache_size(256);
        let query = Query::new(asked.clone(), rtype(c.qtype));
        sim.run(
            async move {
                let mut s = dh.lookup(query, DnsRequestOptions::default());
                s.next().await
            },
            10_000,
        )
        .map_err(|e| Fail::new("harness-sim", format!("simulation ended with {e:?}")))
    };
    let secure_expansion = |r: &Option<Result<hickory_proto::op::DnsResponse, hickory_net::NetError>>| match r {
        Some(Ok(resp)) => resp.answers.iter().any(|a| a.record_type() == rtype(c.qtype) && a.name.to_lowercase() == qn.to_lowercase() && a.proof == Proof::Secure),
        _ => false,
    };
    let with_proof = run(honest.clone())?;
    rec.class(if secure_expansion(&with_proof) { "with-the-nsec:secure" } else { "with-the-nsec:not-secure" });
    let without = run(forged)?;
    rec.class(if secure_expansion(&without) { "without-the-nsec:secure" } else { "without-the-nsec:not-secure" });
    if rec.wants_note() {
        rec.note(format!("zone [{}] + {alias} CNAME {qn}; asked {asked} {}", zone.render(), ty::mnemonic(c.qtype)));
    }
    if secure_expansion(&without) {
        return triage(Fail::new(
            "wildcard-expansion-secure-without-any-nsec",
            format!(
                "zone [{}] + {alias} CNAME {qn}: query {asked} {}: the wildcard-expanded RRset at {qn} came back Secure from a response whose NSEC records had been removed; outcome {:?}",
                zone.render(),
                ty::mnemonic(c.qtype),
                without.as_ref().map(|x| x.as_ref().map(|m| (m.metadata.response_code, m.answers.iter().map(|a| (a.record_type(), a.proof)).collect::<Vec<_>>())).map_err(|e| e.to_string()))
            ),
        ));
    }
    Ok(())
}

// ---------------------------------------------------------------------------------------------
// end to end, replayed expansion: the genuine RRset + RRSIG of a wildcard `*.X` (as the server
// hands it out for a name it really matches) is re-owned to a query name below X whose true
// answer for that type is negative -- something closer than `*.X` exists (another wildcard, an
// empty non-terminal, the name itself), or not. The forger may add any genuine record of the zone:
// every NSEC of the chain with its RRSIG goes into the authority section, and, where the server's
// honest answer for another type at the query name is itself a wildcard expansion (from the closer
// wildcard), that RRset is put in front of or behind the replayed one. No set of genuine NSECs
// entails a false claim, so the replayed RRset must not come back Secure.

fn replayed_expansion_body(c: &CompCase, rec: &mut Rec) -> CaseResult {
    use futures_util::StreamExt;
    use hickory_net::dnssec::DnssecDnsHandle;
    use hickory_net::xfer::DnsHandle;
    use hickory_proto::dnssec::rdata::DNSSECRData;
    use hickory_proto::dnssec::Proof;
    use hickory_proto::op::{DnsRequestOptions, Message, MessageType, OpCode};
    use hickory_proto::rr::{RData, RecordType};

    let cx = hk_ctx(&c.zone)?;
    let (zone, hz) = (&cx.0, &cx.1);
    let q = abs_q(zone, c.q.as_str());
    let qn = to_name(&q);
    if qn.is_wildcard() || q.len() <= zone.apex.len() {
        rec.discard("query-name-is-a-wildcard-or-the-apex");
        return Ok(());
    }
    // a type the true answer has nothing of, owned by a wildcard *.X with X a proper ancestor of q
    let mut pick: Option<(u16, Name, Vec<Record>)> = None;
    for t in [c.qtype, ty::A, ty::TXT] {
        if t != ty::A && t != ty::TXT {
            continue;
        }
        if !matches!(zone.truth(&q, t), Truth::NoData { at_cut: false, .. } | Truth::NxDomain { .. } | Truth::WildNoData { .. }) {
            continue;
        }
        for (o, types) in zone.nodes.iter() {
            if !(o.first().is_some_and(|l| l.as_slice() == b"*") && types.contains(&t)) {
                continue;
            }
            let base = &o[1..];
            if !(base.len() < q.len() && q[q.len() - base.len()..] == *base) {
                continue;
            }
            // a name the wildcard really answers (label `c` is not used by the zone generator)
            let mut n = vec![b"c".to_vec()];
            n.extend(base.iter().cloned());
            if !matches!(zone.truth(&n, t), Truth::WildAnswer { via_cname: false, .. }) {
                continue;
            }
            let donor = to_name(&n);
            let m = zb::ask(hz, &donor, rtype(t)).map_err(|e| Fail::new("harness-ask", e))?;
            let rrs: Vec<Record> = m
                .answers
                .iter()
                .filter(|r| r.name.to_lowercase() == donor.to_lowercase())
                .filter(|r| r.record_type() == rtype(t) || matches!(&r.data, RData::DNSSEC(DNSSECRData::RRSIG(s)) if s.input().type_covered == rtype(t)))
                .cloned()
                .collect();
            if rrs.iter().any(|r| r.record_type() == rtype(t)) && rrs.iter().any(|r| r.record_type() == RecordType::RRSIG) {
                pick = Some((t, to_name(o), rrs));
                break;
            }
        }
        if pick.is_some() {
            break;
        }
    }
    let Some((t, wild, replayed)) = pick else {
        rec.discard("no-wildcard-above-the-query-name-owns-a-type-the-name-lacks");
        return Ok(());
    };
    let truth = zone.truth(&q, t);
    rec.class(format!("truth-{}", truth.kind()));
    // every NSEC of the chain with its signature, as the server hands them out
    let mut authority: Vec<Record> = vec![];
    for (owner, _) in hz.chain_nsec.iter() {
        let m = zb::ask(hz, owner, RecordType::NSEC).map_err(|e| Fail::new("harness-ask", e))?;
        for r in m.answers.iter().filter(|r| r.name.to_lowercase() == owner.to_lowercase()) {
            if r.record_type() == RecordType::NSEC || matches!(&r.data, RData::DNSSEC(DNSSECRData::RRSIG(s)) if s.input().type_covered == RecordType::NSEC) {
                authority.push(r.clone());
            }
        }
    }
    if !authority.iter().any(|r| r.record_type() == RecordType::NSEC) {
        rec.discard("server-does-not-hand-out-nsec-records-on-request");
        return Ok(());
    }
    // the honest answer for the other type at the query name, if it is a wildcard expansion
    let other = if t == ty::A { ty::TXT } else { ty::A };
    let mut companion: Vec<Record> = vec![];
    if matches!(zone.truth(&q, other), Truth::WildAnswer { via_cname: false, .. }) {
        let m = zb::ask(hz, &qn, rtype(other)).map_err(|e| Fail::new("harness-ask", e))?;
        companion = m
            .answers
            .iter()
            .filter(|r| r.record_type() == rtype(other) || matches!(&r.data, RData::DNSSEC(DNSSECRData::RRSIG(s)) if s.input().type_covered == rtype(other)))
            .cloned()
            .collect();
    }
    let companion_first = crate::core::fixed_hash(&[b"c08-replayed", c.zone.as_str().as_bytes(), c.q.as_str().as_bytes()]) % 2 == 0;
    rec.class(match (companion.is_empty(), companion_first) {
        (true, _) => "answer:replayed-rrset-alone",
        (false, true) => "answer:expansion-of-the-closer-wildcard-then-replayed-rrset",
        (false, false) => "answer:replayed-rrset-then-expansion-of-the-closer-wildcard",
    });
    let mut forged = Message::new(0, MessageType::Response, OpCode::Query);
    forged.metadata.authoritative = true;
    forged.add_query(Query::new(qn.clone(), rtype(t)));
    let renamed: Vec<Record> = replayed
        .into_iter()
        .map(|mut r| {
            r.name = qn.clone();
            r
        })
        .collect();
    let (first, second) = if companion_first { (companion, renamed) } else { (renamed, companion) };
    for r in first.into_iter().chain(second) {
        forged.add_answer(r);
    }
    for r in authority {
        forged.add_authority(r);
    }
    rec.nontrivial();

    let mut sim = crate::sim::Sim::new(zb::T0 + 60);
    let handle = ForgingHandle {
        inner: zb::CatalogHandle { catalog: hz.catalog.clone(), log: Default::default() },
        qname: qn.clone(),
        qtype: rtype(t),
        forged: std::sync::Arc::new(forged),
    };
    let dh = DnssecDnsHandle::with_trust_anchor(handle, zb::trust_anchor(hz)).validation_cache_size(256);
    let query = Query::new(qn.clone(), rtype(t));
    let r = sim
        .run(
            async move {
                let mut s = dh.lookup(query, DnsRequestOptions::default());
                s.next().await
            },
            10_000,
        )
        .map_err(|e| Fail::new("harness-sim", format!("simulation ended with {e:?}")))?;
    let accepted = match &r {
        Some(Ok(resp)) => resp.answers.iter().any(|a| a.record_type() == rtype(t) && a.name.to_lowercase() == qn.to_lowercase() && a.proof == Proof::Secure),
        _ => false,
    };
    rec.class(if accepted { "replayed-expansion-accepted" } else { "replayed-expansion-rejected" });
    if rec.wants_note() {
        rec.note(format!("zone [{}] query {qn} {} truth {truth}: {} RRset of {wild} re-owned to the query name", zone.render(), ty::mnemonic(t), ty::mnemonic(t)));
    }
    if accepted {
        use crate::refm::zonemodel::{is_wildcard_name, Exist};
        // Two recorded defects of the validator already let a replayed expansion through, and both are
        // recognised by what the zone looks like, not by the verdict: (1) the query name lies below an
        // existing `*` node (Name::num_labels() does not count a leading asterisk); (2) a closer
        // encloser exists but no wildcard `*.<Y>` exists for any Y between the wildcard's parent and
        // the query name -- no_closer_matches asks only that those intermediate wildcards be covered
        // and never compares the proven closest encloser with the RRSIG Labels field. When such an
        // intermediate wildcard DOES exist, even that check must refuse: anything accepted then is new.
        let star_ancestor = (zone.apex.len() + 1..q.len()).any(|len| {
            let anc = &q[q.len() - len..];
            is_wildcard_name(anc) && zone.exist(anc) != Exist::No
        });
        let base_len = wild.num_labels() as usize; // labels of X (num_labels does not count the `*`)
        let closer_wildcard = (base_len + 1..q.len()).any(|len| {
            let mut w = vec![b"*".to_vec()];
            w.extend(q[q.len() - len..].iter().cloned());
            zone.exist(&w) != Exist::No
        });
        let sig = if star_ancestor {
            "nsec-query-below-wildcard-label"
        } else if !closer_wildcard {
            "nsec-wildcard-answer-closer-encloser-exists"
        } else {
            "replayed-wildcard-expansion-accepted-although-the-name-has-no-such-data"
        };
        rec.class(format!("accepted:{sig}"));
        return triage(Fail::new(
            sig,
            format!(
                "zone [{}] query {qn} {} truth {truth}: the {} RRset of {wild}, re-owned to the query name with its genuine RRSIG, came back Secure; outcome {:?}",
                zone.render(),
                ty::mnemonic(t),
                ty::mnemonic(t),
                r.as_ref().map(|x| x.as_ref().map(|m| (m.metadata.response_code, m.answers.iter().map(|a| (a.record_type(), a.proof)).collect::<Vec<_>>())).map_err(|e| e.to_string()))
            ),
        ));
    }
    Ok(())
}

// ---------------------------------------------------------------------------------------------
// the chain hickory generates = the chain RFC 4035 §2.3 prescribes (the property's state anchor)

#[derive(Clone, Debug, Serialize, Deserialize)]
pub struct ChainCase {
    pub zone: ZText,
}

/// type bitmap without the bits a validator must ignore (RFC 4035 §5.4: NSEC, RRSIG)
pub fn bitmap_core(t: impl Iterator<Item = u16>) -> Vec<u16> {
    let mut v: Vec<u16> = t.filter(|t| *t != ty::RRSIG && *t != ty::NSEC).collect();
    v.sort_unstable();
    v.dedup();
    v
}

fn chain_body(c: &ChainCase, rec: &mut Rec) -> CaseResult {
    let cx = hk_ctx(&c.zone)?;
    let (zone, hz) = (&cx.0, &cx.1);
    let model = nsec_chain(zone);
    rec.class(format!("chain-len-{}", model.len().min(9)));
    rec.class(if zone.cuts().is_empty() { "no-delegation" } else { "with-delegation" });
    if zone.nodes.iter().any(|(o, _)| matches!(zone.pos(o), crate::refm::zonemodel::Pos::BelowCut(_))) {
        rec.class("with-glue-or-occluded");
    }
    rec.nontrivial();
    let want: Vec<(Name, Name, Vec<u16>)> = model
        .iter()
        .map(|r| (to_name(&r.owner), to_name(&r.next), bitmap_core(r.types.iter().copied())))
        .collect();
    let mut got: Vec<(Name, Name, Vec<u16>)> = hz
        .chain_nsec
        .iter()
        .map(|(o, d)| (o.clone(), d.next_domain_name().clone(), bitmap_core(d.type_bit_maps().map(u16::from))))
        .collect();
    got.sort_by(|a, b| crate::refm::canon::name_cmp(
        &a.0.iter().map(|l| l.to_vec()).collect::<Vec<_>>(),
        &b.0.iter().map(|l| l.to_vec()).collect::<Vec<_>>(),
    ));
    if rec.wants_note() {
        rec.note(format!("zone [{}]: {} NSEC records, owners and next names as RFC 4035 2.3", zone.render(), got.len()));
    }
    let show = |v: &[(Name, Name, Vec<u16>)]| {
        v.iter()
            .map(|(o, n, t)| format!("{o} -> {n} ({})", t.iter().map(|t| ty::mnemonic(*t)).collect::<Vec<_>>().join(" ")))
            .collect::<Vec<_>>()
            .join("; ")
    };
    let owners = |v: &[(Name, Name, Vec<u16>)]| v.iter().map(|x| x.0.clone()).collect::<Vec<_>>();
    if owners(&want) != owners(&got) {
        return triage(Fail::new(
            "nsec-chain-owner-set-differs",
            format!("zone [{}]: expected {{{}}} got {{{}}}", zone.render(), show(&want), show(&got)),
        ));
    }
    if want.iter().zip(&got).any(|(w, g)| w.1 != g.1) {
        return triage(Fail::new(
            "nsec-chain-next-names-differ",
            format!("zone [{}]: expected {{{}}} got {{{}}}", zone.render(), show(&want), show(&got)),
        ));
    }
    if want.iter().zip(&got).any(|(w, g)| w.2 != g.2) {
        return triage(Fail::new(
            "nsec-chain-bitmaps-differ",
            format!("zone [{}]: expected {{{}}} got {{{}}}", zone.render(), show(&want), show(&got)),
        ));
    }
    Ok(())
}

// ---------------------------------------------------------------------------------------------

pub fn check() -> Option<Check> {
    // exhaustive sweep: every depth-2 zone with <= N owners x 32 query names x 4 types x every
    // claim x SOA present/absent x all 2^k - 1 subsets of the chain (k <= N + 1)
    let sound_enum = enumerate(
        "sound_enum",
        |env: &Env| match env.tier {
            Tier::Quick => (enum_cases(3, 1, 0), true),
            Tier::Thorough => (enum_cases(4, 1, 0), true),
        },
        sound_body,
    );
    // a deterministic slice of the next size class (zones with exactly N+1 owners)
    let sound_slice = enumerate(
        "sound_slice",
        |env: &Env| {
            let (n, stride) = match env.tier {
                Tier::Quick => (4usize, 48usize),
                Tier::Thorough => (5, 8),
            };
            let off = (env.seed % stride as u64) as usize;
            let it = enum_cases(n, stride, off).filter(move |c| c.zone.as_str().matches(':').count() == n);
            (Box::new(it) as Box<dyn Iterator<Item = SoundCase> + Send>, false)
        },
        sound_body,
    );
    let sound_sampled = prop("sound_sampled", 100_000, 4_000_000, |_t: Tier| sampled_sound(8), sound_body);
    let chain_enum = enumerate(
        "chain_enum",
        |env: &Env| {
            let n = match env.tier {
                Tier::Quick => 3,
                Tier::Thorough => 4,
            };
            (
                Box::new(zones::enum_zones(zones::APEX2, &zones::U2_NAMES, n).into_iter().map(|zone| ChainCase { zone }))
                    as Box<dyn Iterator<Item = ChainCase> + Send>,
                true,
            )
        },
        chain_body,
    );
    let chain_sampled = prop(
        "chain_sampled",
        5_000,
        200_000,
        |_t: Tier| zones::zone_text(10).prop_map(|zone| ChainCase { zone }),
        chain_body,
    );
    let comp_enum = enumerate(
        "complete_enum",
        |env: &Env| match env.tier {
            Tier::Quick => (comp_enum_cases(2, 1), true),
            Tier::Thorough => (comp_enum_cases(4, 1), true),
        },
        comp_body,
    );
    let comp_sampled = prop("complete_sampled", 20_000, 600_000, |_t: Tier| sampled_comp(8), comp_body);
    let comp_e2e = prop("complete_e2e", 5_000, 150_000, |_t: Tier| sampled_comp(6), e2e_body);
    let forged_e2e = prop("sound_forged_expansion_e2e", 20_000, 400_000, |_t: Tier| sampled_comp(6), forged_expansion_body);
    let stripped_e2e = prop("sound_stripped_proof_e2e", 12_000, 200_000, |_t: Tier| sampled_comp(6), stripped_proof_body);
    let replayed_e2e = prop("sound_replayed_expansion_e2e", 20_000, 400_000, |_t: Tier| sampled_comp(6), replayed_expansion_body);
    Some(Check {
        id: "C08",
        level: "exploration",
        rule: "soundness case = (zone over labels {a,b,*} to depth 3 with hosts, CNAMEs, wildcards at several depths, empty non-terminals, delegations +/-DS, glue/occluded names; query name in or just outside the zone incl. labels c ! ~ and `*` in query names; query types) evaluated for every claim (NXDOMAIN, NODATA, each wildcard-expanded answer for which a genuine RRSIG exists, NXDOMAIN+answer) x SOA name present/absent x every non-empty subset of the zone's genuine NSEC chain (all 2^k-1 subsets for k<=6, otherwise singletons, full, full-minus-one and 48 pseudo-random subsets); counted non-trivial when the query name is in the zone (then some evaluated claim is false, or some subset is Secure, or proper subsets of a sufficient proof are tried); counters give verify_nsec calls, Secure verdicts, true/false claims. sound_enum is the exhaustive depth-2 sweep (quick <=3 owners, thorough <=4 owners, i.e. k<=5), sound_slice a 1/48 (quick, 4 owners) resp. 1/8 (thorough, 5 owners) slice of the next size. chain_* compare the NSEC chain hickory generates with the RFC 4035 2.3 chain of the model. Completeness case = (zone, query) whose truth is negative or wildcard-expanded, answered by hickory's own signed zone through Catalog::handle_request and judged by verify_nsec (complete_enum exhaustive over depth-2 zones with <=2/<=4 owners x 32 names x 4 types; complete_sampled deeper zones) and by the real DnssecDnsHandle (complete_e2e); every such case is non-trivial. sound_forged_expansion_e2e: the genuine NSEC + RRSIG of a wildcard owner *.X renamed to a query name below X (its signature then verifies like a wildcard expansion) is presented to the real DnssecDnsHandle as NODATA proof; non-trivial when the claim is false in the zone (the type exists at the name, or the name does not exist). sound_stripped_proof_e2e: the server's honest wildcard-expanded answer (asked for directly, or reached through an in-zone CNAME added at zz-alias.<apex>) is handed to the real DnssecDnsHandle with every NSEC and its RRSIG removed from the authority section: the expanded RRset must not come back Secure.",
        assumptions: vec![
            "truth predicate = refm::zonemodel (RFC 1034 4.3.2, RFC 4592 existence/closest encloser/source of synthesis incl. ENT wildcards, RFC 4035 3.1.4 DS at the parent side); small scope: labels {a,b,*,c,!,~}, query depth <= 4, <= 10 owners",
            "answers passed to verify_nsec carry proof=Secure (state after a successful RRSIG check); wildcard answers only with RRSIGs that can verify (a genuine wildcard owner above the query name)",
            "delegation points own NS (+DS) only; CNAME targets are out of zone; no DNAME",
            "when the server's answer does not have the shape the truth predicts and the validator rejects it, the deviation is recorded under a server-* signature (root cause in the authoritative lookup, property C10) rather than discarded",
        ],
        subs: vec![
            sound_enum,
            sound_slice,
            sound_sampled,
            chain_enum,
            chain_sampled,
            comp_enum,
            comp_sampled,
            comp_e2e,
            forged_e2e,
            stripped_e2e,
            replayed_e2e,
        ],
    })
}
