//! C18 — A lookup succeeds if any configured server can answer, within the deadline.
//!
//! The real `NameServerPool::from_config` runs on the discrete-event runtime (`SimRt`, virtual
//! time) against a scripted internet: 1..4 servers, each with a behaviour on UDP and TCP, a
//! latency, a protocol configuration and a trust flag for negative answers. Busy back-pressure is
//! injected at the `ConnectionProvider` boundary (a thin wrapper around the stock provider that
//! answers the first n sends to a server with `NetError::Busy`; everything else goes through the
//! unmodified `DnsExchange<SimRt>` and the simulated sockets).
//!
//! Oracles (none shares code with hickory; replies are read with refm::dnswire):
//!  (i)   validity  — an Ok result is the reply of a contacted server whose behaviour can produce
//!        it for the caller's question; never a TC=1 body; NXDOMAIN only if an NXDOMAIN server was
//!        contacted (RFC 1035 §7.3, RFC 2308 §2.1).
//!  (ii)  liveness  — only where it does not depend on the pool's ordering: every faulty server
//!        fails fast and a healthy one exists and the worst-case serial cost fits the budget ⇒ Ok
//!        (or the NXDOMAIN of a server that is trusted for negatives); TC on UDP ⇒ the log shows a
//!        TCP exchange with that server (RFC 7766 §5: retry over TCP on truncation).
//!  (iii) deadline  — virtual completion time − start ≤ ResolverOpts::timeout.
//!  (iv)  de-duplication — k concurrent identical lookups produce exactly the upstream exchanges
//!        of one, all k get the same result, and a later identical lookup goes upstream again.

use std::cell::RefCell;
use std::collections::{BTreeMap, VecDeque};
use std::future::Future;
use std::io;
use std::net::{IpAddr, Ipv4Addr, SocketAddr};
use std::pin::Pin;
use std::rc::Rc;
use std::sync::{Arc, Mutex};
use std::time::Duration;

use futures_util::stream::{Stream, StreamExt};
use hickory_net::runtime::Time;
use hickory_net::xfer::{DnsExchange, DnsHandle};
use hickory_net::{DnsError, NetError, NoRecords};
use hickory_proto::op::{DnsRequest, DnsRequestOptions, DnsResponse, Query, ResponseCode};
use hickory_proto::rr::{Name, RecordType};
use hickory_resolver::config::{ConnectionConfig, NameServerConfig, ProtocolConfig, ResolverOpts, ServerOrderingStrategy};
use hickory_resolver::{ConnectionProvider, NameServerPool, PoolContext, TlsConfig};
use proptest::collection::vec;
use proptest::prelude::*;
use serde::{Deserialize, Serialize};

use crate::core::{prop, CaseResult, Check, Rec, Tier};
use crate::refm::dnswire as w;
use crate::sim::{self, Connect, ReadPoll, RecvPoll, Sim, SimNet, SimRt, SimTime, WritePoll};

const BASE_UNIX: u64 = 1_700_000_000;
const MS: u64 = 1_000_000;

const QNAMES: &[&str] = &["www.example.com.", "mail.example.org.", "a.b.c.test."];

// ---------------------------------------------------------------------------------------------
// case

#[derive(Clone, Copy, Debug, Serialize, Deserialize, PartialEq, Eq)]
enum TcpSide {
    /// full answer over TCP
    Full,
    /// connection refused
    Refused,
    /// accepts, reads the query, resets
    Reset,
    /// SYN is never answered
    Hang,
}

#[derive(Clone, Copy, Debug, Serialize, Deserialize, PartialEq, Eq)]
enum Beh {
    /// answers on UDP and TCP
    Answer,
    /// NXDOMAIN on UDP and TCP
    NxDomain,
    /// TC=1 on UDP; TCP as given
    Truncated { tcp: TcpSide },
    /// never replies on UDP; TCP: SYN unanswered, or accepted and then silent
    Silent { tcp_accepts: bool },
    /// UDP: send fails at once (`at_recv` false) or the receive fails after the latency (ICMP);
    /// TCP: connection refused
    IoError { at_recv: bool },
    /// TCP: accepts, reads the query, then resets (`clean` = closes without a reply instead);
    /// UDP: receive error after the latency
    Reset { clean: bool },
}

#[derive(Clone, Copy, Debug, Serialize, Deserialize, PartialEq, Eq)]
enum Protos {
    Both,
    UdpOnly,
    TcpOnly,
}

#[derive(Clone, Copy, Debug, Serialize, Deserialize)]
struct Server {
    beh: Beh,
    /// the first `busy` sends to this server are answered with NetError::Busy (back-pressure)
    busy: u8,
    lat_ms: u16,
    protos: Protos,
    trust_nx: bool,
}

#[derive(Clone, Copy, Debug, Serialize, Deserialize)]
struct Caller {
    q: u8,
    start_ms: u16,
    /// the caller drops its lookup after this many ms if it has not completed (0 = never)
    #[serde(default)]
    give_up_ms: u16,
}

#[derive(Clone, Debug, Serialize, Deserialize)]
struct PoolCase {
    servers: Vec<Server>,
    /// 0 = QueryStatistics, 1 = UserProvidedOrder, 2 = RoundRobin
    strategy: u8,
    num_concurrent_reqs: u8,
    timeout_ms: u32,
    connect_timeout_ms: u32,
    case_rand: bool,
    callers: Vec<Caller>,
    /// after everything completed, one more lookup identical to caller 0
    later: bool,
}

fn has_udp(p: Protos) -> bool {
    matches!(p, Protos::Both | Protos::UdpOnly)
}
fn has_tcp(p: Protos) -> bool {
    matches!(p, Protos::Both | Protos::TcpOnly)
}

fn server_ip(i: usize) -> IpAddr {
    IpAddr::V4(Ipv4Addr::new(10, 0, 0, i as u8 + 1))
}

// ---------------------------------------------------------------------------------------------
// scripted internet

#[derive(Clone, Debug)]
struct Exch {
    t: u64,
    server: usize,
    tcp: bool,
    /// lower-cased presentation form of the question name
    qname: String,
}

struct UdpS {
    server: Option<usize>,
    inbox: VecDeque<(u64, Vec<u8>)>,
    recv_err_at: Option<u64>,
}

struct TcpS {
    server: usize,
    inbuf: Vec<u8>,
    out: VecDeque<(u64, Vec<u8>)>,
    reset_at: Option<u64>,
    eof_at: Option<u64>,
}

enum Ep {
    Udp(UdpS),
    Tcp(TcpS),
}

struct NetSt {
    servers: Vec<Server>,
    eps: Vec<Ep>,
    /// complete request messages that reached a server
    log: Vec<Exch>,
    /// every attempt to reach a server at the socket level (bind/send/connect), with time
    contacts: Vec<(u64, usize)>,
}

struct Net18 {
    st: RefCell<NetSt>,
}

fn server_of(addr: SocketAddr, n: usize) -> Option<usize> {
    match addr.ip() {
        IpAddr::V4(v4) => {
            let o = v4.octets();
            if o[0] == 10 && o[1] == 0 && o[2] == 0 && o[3] >= 1 && (o[3] as usize) <= n && addr.port() == 53 {
                Some(o[3] as usize - 1)
            } else {
                None
            }
        }
        _ => None,
    }
}

/// kinds of reply bodies, carried in the third octet of the answer address
const K_UDP: u8 = 1;
const K_TCP: u8 = 2;
const K_TRUNC: u8 = 3;

fn reply(query: &[u8], server: usize, beh: Beh, tcp: bool) -> Option<Vec<u8>> {
    let h = w::parse_header(query)?;
    let (qs, _) = w::parse_questions(query)?;
    let q = qs.first()?.clone();
    let base = w::F_QR | w::F_RD | w::F_RA;
    let ans = |kind: u8| vec![w::a_rr(&q.name, 300, [10, 100 + server as u8, kind, 1])];
    let zone: w::Labels = q.name.iter().skip(q.name.len().saturating_sub(2)).cloned().collect();
    match (beh, tcp) {
        (Beh::Answer, false) => Some(w::build(h.id, base, &[q.clone()], &ans(K_UDP), &[], &[])),
        (Beh::Answer, true) => Some(w::build(h.id, base, &[q.clone()], &ans(K_TCP), &[], &[])),
        (Beh::NxDomain, _) => Some(w::build(h.id, base | 3, &[q.clone()], &[], &[w::soa_rr(&zone, 60)], &[])),
        (Beh::Truncated { .. }, false) => Some(w::build(h.id, base | w::F_TC, &[q.clone()], &ans(K_TRUNC), &[], &[])),
        (Beh::Truncated { tcp: TcpSide::Full }, true) => Some(w::build(h.id, base, &[q.clone()], &ans(K_TCP), &[], &[])),
        _ => None,
    }
}

fn qname_of(query: &[u8]) -> String {
    w::parse_questions(query)
        .and_then(|(qs, _)| qs.first().map(|q| w::show_name(&q.name).to_ascii_lowercase()))
        .unwrap_or_else(|| "<unreadable>".into())
}

impl SimNet for Net18 {
    fn udp_bind(&self, _local: SocketAddr, server: SocketAddr) -> io::Result<u64> {
        let mut st = self.st.borrow_mut();
        let n = st.servers.len();
        let s = server_of(server, n);
        if let Some(s) = s {
            st.contacts.push((sim::now_nanos(), s));
        }
        st.eps.push(Ep::Udp(UdpS {
            server: s,
            inbox: VecDeque::new(),
            recv_err_at: None,
        }));
        Ok(st.eps.len() as u64 - 1)
    }

    fn udp_send(&self, sock: u64, buf: &[u8], target: SocketAddr) -> io::Result<usize> {
        let mut st = self.st.borrow_mut();
        let now = sim::now_nanos();
        let n = st.servers.len();
        let Some(s) = server_of(target, n) else {
            return Ok(buf.len()); // into the void
        };
        let srv = st.servers[s];
        st.contacts.push((now, s));
        if let Beh::IoError { at_recv: false } = srv.beh {
            return Err(io::Error::new(io::ErrorKind::ConnectionRefused, "simulated: network unreachable"));
        }
        st.log.push(Exch {
            t: now,
            server: s,
            tcp: false,
            qname: qname_of(buf),
        });
        let at = now + srv.lat_ms as u64 * MS;
        let rep = reply(buf, s, srv.beh, false);
        let Ep::Udp(u) = &mut st.eps[sock as usize] else {
            return Err(io::Error::other("not a udp socket"));
        };
        match srv.beh {
            Beh::IoError { at_recv: true } | Beh::Reset { .. } => u.recv_err_at = Some(at),
            _ => {
                if let Some(r) = rep {
                    u.inbox.push_back((at, r));
                }
            }
        }
        Ok(buf.len())
    }

    fn udp_poll_recv(&self, sock: u64, now: u64) -> RecvPoll {
        let mut st = self.st.borrow_mut();
        let n = st.servers.len();
        let Ep::Udp(u) = &mut st.eps[sock as usize] else {
            return RecvPoll::Err(io::Error::other("not a udp socket"));
        };
        if let Some(t) = u.recv_err_at {
            if t <= now {
                u.recv_err_at = None;
                return RecvPoll::Err(io::Error::new(io::ErrorKind::ConnectionRefused, "simulated: port unreachable"));
            }
            return RecvPoll::At(t);
        }
        match u.inbox.front() {
            None => RecvPoll::Never,
            Some((t, _)) if *t <= now => {
                let (_, b) = u.inbox.pop_front().unwrap();
                let src = SocketAddr::new(server_ip(u.server.unwrap_or(n)), 53);
                RecvPoll::Ready(b, src)
            }
            Some((t, _)) => RecvPoll::At(*t),
        }
    }

    fn tcp_connect(&self, server: SocketAddr, now: u64) -> Connect {
        let mut st = self.st.borrow_mut();
        let n = st.servers.len();
        let Some(s) = server_of(server, n) else {
            return Connect::Hang;
        };
        st.contacts.push((now, s));
        let srv = st.servers[s];
        let at = now + srv.lat_ms as u64 * MS;
        let accept = match srv.beh {
            Beh::Answer | Beh::NxDomain | Beh::Reset { .. } => true,
            Beh::Truncated { tcp } => match tcp {
                TcpSide::Full | TcpSide::Reset => true,
                TcpSide::Refused => false,
                TcpSide::Hang => return Connect::Hang,
            },
            Beh::Silent { tcp_accepts } => {
                if tcp_accepts {
                    true
                } else {
                    return Connect::Hang;
                }
            }
            Beh::IoError { .. } => false,
        };
        if !accept {
            return if srv.lat_ms == 0 {
                Connect::Err(io::Error::new(io::ErrorKind::ConnectionRefused, "simulated: connection refused"))
            } else {
                Connect::ErrAt(at, io::ErrorKind::ConnectionRefused)
            };
        }
        st.eps.push(Ep::Tcp(TcpS {
            server: s,
            inbuf: vec![],
            out: VecDeque::new(),
            reset_at: None,
            eof_at: None,
        }));
        let id = st.eps.len() as u64 - 1;
        if srv.lat_ms == 0 {
            Connect::Ok(id)
        } else {
            Connect::OkAt(at, id)
        }
    }

    fn tcp_poll_write(&self, conn: u64, buf: &[u8], now: u64) -> WritePoll {
        let mut st = self.st.borrow_mut();
        let servers = st.servers.clone();
        let mut new_log = vec![];
        let Ep::Tcp(c) = &mut st.eps[conn as usize] else {
            return WritePoll::Err(io::Error::other("not a tcp connection"));
        };
        if c.reset_at.is_some_and(|t| t <= now) {
            return WritePoll::Err(io::Error::new(io::ErrorKind::BrokenPipe, "simulated: peer reset"));
        }
        c.inbuf.extend_from_slice(buf);
        // complete frames (RFC 1035 §4.2.2: two-octet length prefix)
        while c.inbuf.len() >= 2 {
            let len = u16::from_be_bytes([c.inbuf[0], c.inbuf[1]]) as usize;
            if c.inbuf.len() < 2 + len {
                break;
            }
            let msg: Vec<u8> = c.inbuf[2..2 + len].to_vec();
            c.inbuf.drain(..2 + len);
            let srv = servers[c.server];
            let at = now + srv.lat_ms as u64 * MS;
            new_log.push(Exch {
                t: now,
                server: c.server,
                tcp: true,
                qname: qname_of(&msg),
            });
            let resets = matches!(srv.beh, Beh::Reset { clean: false } | Beh::Truncated { tcp: TcpSide::Reset });
            let closes = matches!(srv.beh, Beh::Reset { clean: true });
            if resets {
                c.reset_at.get_or_insert(at);
            } else if closes {
                c.eof_at.get_or_insert(at);
            } else if let Some(r) = reply(&msg, c.server, srv.beh, true) {
                let mut framed = (r.len() as u16).to_be_bytes().to_vec();
                framed.extend_from_slice(&r);
                c.out.push_back((at, framed));
            }
        }
        st.log.extend(new_log);
        WritePoll::Accept(buf.len())
    }

    fn tcp_poll_read(&self, conn: u64, max: usize, now: u64) -> ReadPoll {
        let mut st = self.st.borrow_mut();
        let Ep::Tcp(c) = &mut st.eps[conn as usize] else {
            return ReadPoll::Err(io::Error::other("not a tcp connection"));
        };
        if let Some((t, _)) = c.out.front() {
            if *t <= now {
                let (t, mut data) = c.out.pop_front().unwrap();
                if data.len() > max {
                    let rest = data.split_off(max);
                    c.out.push_front((t, rest));
                }
                return ReadPoll::Data(data);
            }
        }
        let mut next: Option<u64> = c.out.front().map(|x| x.0);
        if let Some(t) = c.reset_at {
            if t <= now {
                return ReadPoll::Err(io::Error::new(io::ErrorKind::ConnectionReset, "simulated: connection reset by peer"));
            }
            next = Some(next.map_or(t, |n| n.min(t)));
        }
        if let Some(t) = c.eof_at {
            if t <= now {
                return ReadPoll::Eof;
            }
            next = Some(next.map_or(t, |n| n.min(t)));
        }
        match next {
            Some(t) => ReadPoll::At(t),
            None => ReadPoll::Never,
        }
    }
}

// ---------------------------------------------------------------------------------------------
// connection provider: the stock one plus Busy injection and an attempt log

#[derive(Default)]
struct ProvSt {
    busy_left: Vec<u8>,
    /// (time, server, tcp) of every DnsHandle::send towards a server (incl. those answered Busy)
    sends: Vec<(u64, usize, bool, bool)>,
    /// (time, server, tcp) of every new_connection
    connects: Vec<(u64, usize, bool)>,
}

#[derive(Clone)]
struct FaultProvider {
    rt: SimRt,
    st: Arc<Mutex<ProvSt>>,
    nservers: usize,
}

#[derive(Clone)]
struct FaultConn {
    inner: DnsExchange<SimRt>,
    server: usize,
    tcp: bool,
    st: Arc<Mutex<ProvSt>>,
}

impl DnsHandle for FaultConn {
    type Response = Pin<Box<dyn Stream<Item = Result<DnsResponse, NetError>> + Send>>;
    type Runtime = SimRt;

    fn send(&self, request: DnsRequest) -> Self::Response {
        let busy = {
            let mut st = self.st.lock().unwrap();
            let b = st.busy_left.get(self.server).copied().unwrap_or(0) > 0;
            if b {
                st.busy_left[self.server] -= 1;
            }
            st.sends.push((sim::now_nanos(), self.server, self.tcp, b));
            b
        };
        if busy {
            return Box::pin(futures_util::stream::once(async { Err(NetError::Busy) }));
        }
        Box::pin(self.inner.send(request))
    }
}

impl ConnectionProvider for FaultProvider {
    type Conn = FaultConn;
    type FutureConn = Pin<Box<dyn Future<Output = Result<FaultConn, NetError>> + Send + 'static>>;
    type RuntimeProvider = SimRt;

    fn new_connection(&self, ip: IpAddr, config: &ConnectionConfig, cx: &PoolContext) -> Result<Self::FutureConn, NetError> {
        let server = server_of(SocketAddr::new(ip, 53), self.nservers).unwrap_or(0);
        let tcp = matches!(config.protocol, ProtocolConfig::Tcp);
        self.st.lock().unwrap().connects.push((sim::now_nanos(), server, tcp));
        let fut = <SimRt as ConnectionProvider>::new_connection(&self.rt, ip, config, cx)?;
        let st = self.st.clone();
        Ok(Box::pin(async move {
            let inner = fut.await?;
            Ok(FaultConn { inner, server, tcp, st })
        }))
    }

    fn runtime_provider(&self) -> &SimRt {
        &self.rt
    }
}

// ---------------------------------------------------------------------------------------------
// running a scenario

#[derive(Clone, Debug)]
enum Outcome {
    /// (server, kind) read from the answer address, TC flag, question name (lower-cased)
    Ok { server: usize, kind: u8, tc: bool, qname: String, answers: usize, rcode: u8 },
    /// Ok whose octets the harness cannot attribute
    OkUnreadable(String),
    NxDomain,
    NoData,
    Timeout,
    Busy,
    #[allow(dead_code)]
    Io(String),
    NoConnections,
    Other(String),
    /// the response stream ended without an item
    Nothing,
    /// the caller dropped the lookup before it completed (scheduled by the case)
    Abandoned,
}

impl Outcome {
    fn brief(&self) -> String {
        match self {
            Outcome::Ok { server, kind, .. } => format!("ok(s{server},k{kind})"),
            Outcome::OkUnreadable(s) => format!("ok-unreadable({s})"),
            Outcome::NxDomain => "nxdomain".into(),
            Outcome::NoData => "nodata".into(),
            Outcome::Timeout => "timeout".into(),
            Outcome::Busy => "busy".into(),
            Outcome::Io(_) => "io".into(),
            Outcome::NoConnections => "no-connections".into(),
            Outcome::Other(s) => format!("other({s})"),
            Outcome::Nothing => "nothing".into(),
            Outcome::Abandoned => "abandoned".into(),
        }
    }
}

fn read_outcome(item: Option<Result<DnsResponse, NetError>>) -> Outcome {
    match item {
        None => Outcome::Nothing,
        Some(Ok(r)) => {
            let b = r.as_buffer();
            let Some(h) = w::parse_header(b) else {
                return Outcome::OkUnreadable("no header".into());
            };
            let Some((qs, pos)) = w::parse_questions(b) else {
                return Outcome::OkUnreadable("question".into());
            };
            let Some((an, _)) = w::parse_rrs(b, pos, h.an as usize) else {
                return Outcome::OkUnreadable("answers".into());
            };
            let qname = qs.first().map(|q| w::show_name(&q.name).to_ascii_lowercase()).unwrap_or_default();
            let first = an.iter().find(|rr| rr.rtype == w::T_A && rr.rdata.len() == 4);
            match first {
                Some(rr) if rr.rdata[0] == 10 && rr.rdata[1] >= 100 => Outcome::Ok {
                    server: (rr.rdata[1] - 100) as usize,
                    kind: rr.rdata[2],
                    tc: h.tc(),
                    qname,
                    answers: an.len(),
                    rcode: h.rcode(),
                },
                _ => Outcome::OkUnreadable(format!("no marker record among {} answers", an.len())),
            }
        }
        Some(Err(e)) => match &e {
            NetError::Dns(DnsError::NoRecordsFound(NoRecords { response_code, .. })) => {
                if *response_code == ResponseCode::NXDomain {
                    Outcome::NxDomain
                } else {
                    Outcome::NoData
                }
            }
            NetError::Timeout => Outcome::Timeout,
            NetError::Busy => Outcome::Busy,
            NetError::Io(io) => Outcome::Io(io.to_string()),
            NetError::NoConnections => Outcome::NoConnections,
            other => Outcome::Other(other.to_string()),
        },
    }
}

#[derive(Clone, Debug)]
struct CallerResult {
    q: u8,
    t_start: u64,
    t_done: u64,
    /// positions in the global order of lookup starts and completions (virtual time alone cannot
    /// tell whether two lookups at the same instant overlapped)
    seq_start: u64,
    seq_done: u64,
    outcome: Outcome,
}

/// two lookups were in progress at the same time
fn overlapped(a: &CallerResult, b: &CallerResult) -> bool {
    a.seq_start < b.seq_done && b.seq_start < a.seq_done
}

struct Run {
    results: Vec<CallerResult>,
    later: Option<CallerResult>,
    log: Vec<Exch>,
    contacts: Vec<(u64, usize)>,
    sends: Vec<(u64, usize, bool, bool)>,
    /// number of socket-level contacts + provider-level sends before the `later` lookup started
    activity_before_later: usize,
    activity_total: usize,
}

fn strategy_of(i: u8) -> ServerOrderingStrategy {
    match i % 3 {
        0 => ServerOrderingStrategy::QueryStatistics,
        1 => ServerOrderingStrategy::UserProvidedOrder,
        _ => ServerOrderingStrategy::RoundRobin,
    }
}

fn run_pool(c: &PoolCase, callers: &[Caller], later: bool) -> Result<Run, crate::core::Fail> {
    let mut sim = Sim::new(BASE_UNIX);
    let net = Rc::new(Net18 {
        st: RefCell::new(NetSt {
            servers: c.servers.clone(),
            eps: vec![],
            log: vec![],
            contacts: vec![],
        }),
    });
    sim.set_net(net.clone());
    let pst = Arc::new(Mutex::new(ProvSt {
        busy_left: c.servers.iter().map(|s| s.busy).collect(),
        ..Default::default()
    }));
    let provider = FaultProvider {
        rt: SimRt,
        st: pst.clone(),
        nservers: c.servers.len(),
    };

    let mut opts = ResolverOpts::default();
    opts.timeout = Duration::from_millis(c.timeout_ms as u64);
    opts.connect_timeout = Duration::from_millis(c.connect_timeout_ms as u64);
    opts.num_concurrent_reqs = c.num_concurrent_reqs as usize;
    opts.server_ordering_strategy = strategy_of(c.strategy);
    opts.case_randomization = c.case_rand;
    let cx = Arc::new(PoolContext::new(opts, TlsConfig::new().map_err(|e| crate::core::Fail::new("harness-tls-config", e.to_string()))?));
    let configs: Vec<NameServerConfig> = c
        .servers
        .iter()
        .enumerate()
        .map(|(i, s)| {
            let conns = match s.protos {
                Protos::Both => vec![ConnectionConfig::udp(), ConnectionConfig::tcp()],
                Protos::UdpOnly => vec![ConnectionConfig::udp()],
                Protos::TcpOnly => vec![ConnectionConfig::tcp()],
            };
            NameServerConfig::new(server_ip(i), s.trust_nx, conns)
        })
        .collect();
    let pool = NameServerPool::from_config(configs, cx, provider);

    let seq = Rc::new(std::cell::Cell::new(0u64));
    let lookup = |pool: NameServerPool<FaultProvider>, cl: Caller, seq: Rc<std::cell::Cell<u64>>| async move {
        if cl.start_ms > 0 {
            SimTime::delay_for(Duration::from_millis(cl.start_ms as u64)).await;
        }
        let t_start = sim::now_nanos();
        let tick = |seq: &Rc<std::cell::Cell<u64>>| {
            seq.set(seq.get() + 1);
            seq.get()
        };
        let seq_start = tick(&seq);
        let name = Name::from_ascii(QNAMES[cl.q as usize % QNAMES.len()]).expect("fixed name");
        let mut s = pool.lookup(Query::new(name, RecordType::A), DnsRequestOptions::default());
        let item = if cl.give_up_ms > 0 {
            let quit = Box::pin(SimTime::delay_for(Duration::from_millis(cl.give_up_ms as u64)));
            match futures_util::future::select(s.next(), quit).await {
                futures_util::future::Either::Left((item, _)) => item,
                futures_util::future::Either::Right(_) => {
                    drop(s);
                    return CallerResult {
                        q: cl.q % QNAMES.len() as u8,
                        t_start,
                        t_done: sim::now_nanos(),
                        seq_start,
                        seq_done: tick(&seq),
                        outcome: Outcome::Abandoned,
                    };
                }
            }
        } else {
            s.next().await
        };
        CallerResult {
            q: cl.q % QNAMES.len() as u8,
            t_start,
            t_done: sim::now_nanos(),
            seq_start,
            seq_done: tick(&seq),
            outcome: read_outcome(item),
        }
    };

    let futs: Vec<_> = callers.iter().map(|cl| lookup(pool.clone(), *cl, seq.clone())).collect();
    let results = match sim.run(futures_util::future::join_all(futs), 200_000) {
        Ok(r) => r,
        Err(e) => {
            return Err(crate::core::Fail::new(
                "lookup-never-completes",
                format!("simulation ended with {e:?} before every lookup completed"),
            ))
        }
    };
    let activity_before_later = net.st.borrow().contacts.len() + pst.lock().unwrap().sends.len();
    let later_res = if later && !callers.is_empty() {
        let cl = Caller {
            q: callers[0].q,
            start_ms: 1,
            give_up_ms: 0,
        };
        match sim.run(lookup(pool.clone(), cl, seq.clone()), 200_000) {
            Ok(r) => Some(r),
            Err(e) => {
                return Err(crate::core::Fail::new(
                    "lookup-never-completes",
                    format!("later lookup: simulation ended with {e:?}"),
                ))
            }
        }
    } else {
        None
    };
    drop(pool);
    drop(sim);
    let st = net.st.borrow();
    let p = pst.lock().unwrap();
    Ok(Run {
        results,
        later: later_res,
        log: st.log.clone(),
        contacts: st.contacts.clone(),
        sends: p.sends.clone(),
        activity_before_later,
        activity_total: st.contacts.len() + p.sends.len(),
    })
}

// ---------------------------------------------------------------------------------------------
// oracle

#[derive(Clone, Copy, Debug, PartialEq, Eq)]
enum Role {
    /// reliably produces a positive answer
    Healthy,
    /// produces NXDOMAIN and is trusted for it: a legitimate final result
    TerminalNeg,
    /// fails within its latency; never blocks the search
    FastFail,
    /// may hold a round until a timeout fires
    Slow,
    /// fails only when the TCP connect timeout fires (SYN never answered, nothing else tried on
    /// this server): costs a lookup `connect_timeout`, which ResolverOpts documents as the bound
    /// that leaves budget for the remaining servers
    ConnectHang,
}

/// how a server behaves *as seen by one lookup*, independent of the order it is tried in
fn role(s: &Server, tc_possible: bool) -> Role {
    let tcp_role = |side: TcpSide| match side {
        TcpSide::Full => Role::Healthy,
        TcpSide::Refused | TcpSide::Reset => Role::FastFail,
        TcpSide::Hang => Role::ConnectHang,
    };
    match s.beh {
        Beh::Answer => {
            if s.busy > 4 {
                // more Busy replies than the pool's back-off (20+40+80+160 ms) tolerates
                Role::FastFail
            } else if tc_possible && !has_tcp(s.protos) {
                // after a TC reply the lookup is TCP-only (ConnectionPolicy.disable_udp): whether a
                // UDP-only server is asked before that depends on the order
                Role::FastFail
            } else {
                Role::Healthy
            }
        }
        Beh::NxDomain => {
            if s.trust_nx {
                Role::TerminalNeg
            } else {
                Role::FastFail
            }
        }
        Beh::Truncated { tcp } => match s.protos {
            Protos::UdpOnly => Role::FastFail,
            Protos::Both | Protos::TcpOnly => {
                if s.busy > 4 && tcp == TcpSide::Full {
                    Role::FastFail
                } else {
                    tcp_role(tcp)
                }
            }
        },
        Beh::Silent { tcp_accepts: false } if s.protos == Protos::TcpOnly => Role::ConnectHang,
        Beh::Silent { .. } => Role::Slow,
        Beh::IoError { .. } | Beh::Reset { .. } => Role::FastFail,
    }
}

fn can_produce(s: &Server, kind: u8) -> bool {
    match (s.beh, kind) {
        (Beh::Answer, K_UDP) => has_udp(s.protos),
        (Beh::Answer, K_TCP) => has_tcp(s.protos),
        (Beh::Truncated { tcp: TcpSide::Full }, K_TCP) => has_tcp(s.protos),
        _ => false,
    }
}

fn render(c: &PoolCase) -> String {
    let servers: Vec<String> = c
        .servers
        .iter()
        .map(|s| format!("{:?}/busy{}/{}ms/{:?}/trust_nx={}", s.beh, s.busy, s.lat_ms, s.protos, s.trust_nx))
        .collect();
    let callers: Vec<String> = c.callers.iter().map(|k| format!("q{}@{}ms", k.q % QNAMES.len() as u8, k.start_ms)).collect();
    format!(
        "servers=[{}] strategy={:?} concurrent={} timeout={}ms connect_timeout={}ms 0x20={} callers=[{}] later={}",
        servers.join("; "),
        strategy_of(c.strategy),
        c.num_concurrent_reqs,
        c.timeout_ms,
        c.connect_timeout_ms,
        c.case_rand,
        callers.join(","),
        c.later
    )
}

/// `soft` collects deviations that carry one of the recorded known-finding signatures; they are
/// reported only after every other clause has been evaluated for every caller, so that the search
/// continues behind a known finding instead of stopping at it.
fn check_result(c: &PoolCase, run: &Run, r: &CallerResult, who: &str, live_domain: bool, rec: &mut Rec, soft: &mut Vec<crate::core::Fail>) -> CaseResult {
    let want_q = QNAMES[r.q as usize].to_ascii_lowercase();
    // ---- (i) validity ---------------------------------------------------------------------------
    match &r.outcome {
        Outcome::Ok {
            server,
            kind,
            tc,
            qname,
            answers,
            rcode,
        } => {
            vensure!(!*tc && *kind != K_TRUNC, "ok-with-truncated-udp-body", "{who}: Ok carries a truncated UDP body (server {server}, kind {kind}, tc={tc})");
            vensure!(*server < c.servers.len(), "ok-fabricated", "{who}: Ok names server {server} which does not exist");
            vensure!(
                can_produce(&c.servers[*server], *kind),
                "ok-from-server-that-cannot-answer",
                "{who}: Ok attributed to server {server} kind {kind}, whose behaviour is {:?}/{:?}",
                c.servers[*server].beh,
                c.servers[*server].protos
            );
            vensure!(*qname == want_q, "ok-for-another-question", "{who}: asked {want_q}, response is about {qname}");
            vensure!(*answers == 1 && *rcode == 0, "ok-altered", "{who}: {answers} answers, rcode {rcode}");
            let tcp = *kind == K_TCP;
            vensure!(
                run.log.iter().any(|e| e.server == *server && e.tcp == tcp && e.qname == want_q && e.t <= r.t_done),
                "ok-without-exchange",
                "{who}: Ok attributed to server {server} ({}) but no such exchange for {want_q} is logged before {} ns",
                if tcp { "tcp" } else { "udp" },
                r.t_done
            );
            if let Beh::Truncated { .. } = c.servers[*server].beh {
                rec.class("result:ok-after-tc-over-tcp");
            }
        }
        Outcome::OkUnreadable(why) => vfail!("ok-fabricated", "{who}: Ok response that no simulated server sent ({why})"),
        Outcome::NxDomain => {
            vensure!(
                run.log
                    .iter()
                    .any(|e| matches!(c.servers[e.server].beh, Beh::NxDomain) && e.qname == want_q && e.t <= r.t_done),
                "nxdomain-fabricated",
                "{who}: NXDOMAIN although no NXDOMAIN server was asked about {want_q}"
            );
        }
        Outcome::NoData => vfail!("nodata-fabricated", "{who}: NODATA although no server sends one"),
        Outcome::Nothing => vfail!("no-result", "{who}: the response stream ended without a result"),
        _ => {}
    }

    // ---- (iii) deadline ---------------------------------------------------------------------------
    let budget = c.timeout_ms as u64 * MS;
    let took = r.t_done - r.t_start;
    if took > budget {
        // one more attempt that was already in flight when the deadline passed may run to its own
        // timeouts (connect_timeout + timeout, once more if a reused connection is re-established)
        let one_attempt = (c.connect_timeout_ms as u64 + c.timeout_ms as u64 + c.servers.iter().map(|s| s.lat_ms as u64).max().unwrap_or(0)) * MS;
        if took - budget <= one_attempt {
            soft.push(crate::core::Fail::new(
                "deadline-overrun-by-attempt-in-flight",
                format!(
                    "{who}: completed after {:.3} s, configured timeout {:.3} s (overrun {:.3} s): the deadline is only tested between rounds, an attempt started before it runs to its own timeout; outcome {}",
                    took as f64 / 1e9,
                    budget as f64 / 1e9,
                    (took - budget) as f64 / 1e9,
                    r.outcome.brief()
                ),
            ));
        } else {
        vfail!(
            "deadline-overrun-unbounded",
            "{who}: completed after {:.3} s, configured timeout {:.3} s; outcome {}",
            took as f64 / 1e9,
            budget as f64 / 1e9,
            r.outcome.brief()
        );
        }
    }

    // ---- (ii) liveness, in the order-independent sub-domain ---------------------------------------
    if live_domain {
        let terminal_neg = c.servers.iter().any(|s| role(s, false) == Role::TerminalNeg);
        match &r.outcome {
            Outcome::Ok { server, .. } => {
                // TC on UDP ⇒ a TCP exchange with that server is logged
                if let Beh::Truncated { .. } = c.servers[*server].beh {
                    vensure!(
                        run.log.iter().any(|e| e.server == *server && e.tcp && e.qname == want_q),
                        "tc-without-tcp-retry",
                        "{who}: answer of a truncating server without a TCP exchange"
                    );
                }
            }
            Outcome::NxDomain if terminal_neg => {}
            other => {
                let tcp_can_die = c.servers.iter().any(|s| {
                    has_tcp(s.protos) && matches!(s.beh, Beh::Reset { .. } | Beh::Truncated { tcp: TcpSide::Reset })
                });
                let sig = match other {
                    // a request queued in the DnsExchange channel of a (shared or reused) connection
                    // whose background task ends (peer reset / close) is answered "receiver was canceled"
                    // (NetError::Msg), which the pool treats as fatal instead of trying the next server
                    Outcome::Other(m) if m.contains("receiver was canceled") && tcp_can_die => {
                        "lookup-aborted-receiver-canceled-when-shared-tcp-connection-dies"
                    }
                    Outcome::NxDomain => "healthy-server-ignored-after-untrusted-nxdomain",
                    Outcome::Timeout => "healthy-server-ignored-timeout",
                    Outcome::Busy => "healthy-server-ignored-busy",
                    Outcome::Io(_) | Outcome::NoConnections => "healthy-server-ignored-io-error",
                    Outcome::Other(m) if m.contains("truncated") => "healthy-server-ignored-after-truncation",
                    _ => "healthy-server-ignored",
                };
                let f = crate::core::Fail::new(
                    sig,
                    format!(
                        "{who}: every faulty server fails fast (or within connect_timeout) and a healthy one exists, but the result is {} ({:?})",
                        other.brief(),
                        other
                    ),
                );
                if sig == "lookup-aborted-receiver-canceled-when-shared-tcp-connection-dies" {
                    soft.push(f);
                } else {
                    return Err(f);
                }
            }
        }
    }
    Ok(())
}

fn live_domain(c: &PoolCase, ncallers: usize) -> bool {
    let tc_possible = c.servers.iter().any(|s| matches!(s.beh, Beh::Truncated { .. }) && has_udp(s.protos));
    let roles: Vec<Role> = c.servers.iter().map(|s| role(s, tc_possible)).collect();
    if roles.iter().any(|r| *r == Role::Slow) || !roles.iter().any(|r| *r == Role::Healthy) {
        return false;
    }
    // busy budgets are shared by all lookups on the pool: a healthy server must stay within the
    // back-off's tolerance for every one of them, which holds because each lookup sees at most
    // `busy` Busy replies from it (<= 4).
    // worst-case serial cost: every server costs at most UDP + TCP connect + TCP exchange per
    // round, at most 6 rounds (initial + 5 back-off retries), plus the 300 ms of back-off sleeps;
    // concurrent lookups do not wait for each other (max_active_requests is not reached).
    // a server whose TCP connect hangs costs connect_timeout more, once per lookup; lookups that
    // run concurrently may queue behind each other's connection attempt to it, so that bound is
    // asserted for a single caller only
    let hangs = roles.iter().filter(|r| **r == Role::ConnectHang).count() as u64;
    if hangs > 0 && ncallers != 1 {
        return false;
    }
    let cost_ms: u64 = 300 + hangs * (c.connect_timeout_ms as u64 + 50) + c.servers.iter().map(|s| 3 * 6 * s.lat_ms as u64).sum::<u64>();
    cost_ms < c.timeout_ms as u64 && cost_ms < c.connect_timeout_ms as u64 + c.timeout_ms as u64
}

fn classify(c: &PoolCase, rec: &mut Rec) {
    for s in &c.servers {
        rec.class(match s.beh {
            Beh::Answer => "beh:answer",
            Beh::NxDomain => {
                if s.trust_nx {
                    "beh:nxdomain-trusted"
                } else {
                    "beh:nxdomain-untrusted"
                }
            }
            Beh::Truncated { tcp: TcpSide::Full } => "beh:truncated+tcp-full",
            Beh::Truncated { .. } => "beh:truncated+tcp-faulty",
            Beh::Silent { .. } => "beh:silent",
            Beh::IoError { .. } => "beh:io-error",
            Beh::Reset { .. } => "beh:reset",
        });
        if s.busy > 0 {
            rec.class(if s.busy <= 4 { "busy:1-4" } else { "busy:5+" });
        }
        rec.class(match s.protos {
            Protos::Both => "protos:udp+tcp",
            Protos::UdpOnly => "protos:udp",
            Protos::TcpOnly => "protos:tcp",
        });
    }
    rec.class(format!("servers:{}", c.servers.len()));
    rec.class(format!("strategy:{:?}", strategy_of(c.strategy)));
    rec.class(format!("concurrent:{}", c.num_concurrent_reqs));
}

fn run_faults(c: &PoolCase, rec: &mut Rec) -> CaseResult {
    let run = run_pool(c, &c.callers, c.later)?;
    if std::env::var_os("C18_TRACE").is_some() {
        eprintln!("case: {}", render(c));
        for e in &run.log {
            eprintln!("  exch t={:.6}s s{} {} {}", e.t as f64 / 1e9, e.server, if e.tcp { "tcp" } else { "udp" }, e.qname);
        }
        for (t, s, tcp, busy) in &run.sends {
            eprintln!("  send t={:.6}s s{} {} busy={}", *t as f64 / 1e9, s, if *tcp { "tcp" } else { "udp" }, busy);
        }
        for r in run.results.iter().chain(run.later.iter()) {
            eprintln!("  result q{} start={:.6}s done={:.6}s {:?}", r.q, r.t_start as f64 / 1e9, r.t_done as f64 / 1e9, r.outcome);
        }
    }
    let live = live_domain(c, c.callers.len());
    let mut soft: Vec<crate::core::Fail> = vec![];
    classify(c, rec);
    rec.class(if live { "liveness:asserted" } else { "liveness:not-asserted" });
    rec.class(format!("callers:{}", c.callers.len()));
    for (i, r) in run.results.iter().enumerate() {
        check_result(c, &run, r, &format!("caller {i}"), live, rec, &mut soft)?;
        rec.class(format!("result:{}", r.outcome.brief().split('(').next().unwrap_or("?")));
    }
    if let Some(r) = &run.later {
        check_result(c, &run, r, "later lookup", live, rec, &mut soft)?;
        // (iv, last clause) a later identical query causes a new upstream exchange
        vensure!(
            run.activity_total > run.activity_before_later,
            "later-lookup-served-from-stale-in-flight-entry",
            "a lookup issued after all earlier ones completed produced a result ({}) without contacting any server",
            r.outcome.brief()
        );
    }
    // identical simultaneous callers must agree
    for (i, a) in run.results.iter().enumerate() {
        for (j, b) in run.results.iter().enumerate().skip(i + 1) {
            if a.q == b.q && a.t_start == b.t_start && overlapped(a, b) {
                vensure!(
                    a.outcome.brief() == b.outcome.brief(),
                    "identical-concurrent-callers-disagree",
                    "callers {i} and {j} asked the same question at the same instant and got {} vs {}",
                    a.outcome.brief(),
                    b.outcome.brief()
                );
            }
        }
    }
    let faulty = c.servers.iter().any(|s| !matches!(s.beh, Beh::Answer) || s.busy > 0);
    let healthy = c.servers.iter().any(|s| matches!(s.beh, Beh::Answer | Beh::Truncated { tcp: TcpSide::Full }));
    if (faulty && healthy) || c.callers.len() >= 2 {
        rec.nontrivial();
        if rec.wants_note() {
            let outs: Vec<String> = run
                .results
                .iter()
                .map(|r| format!("{}@{:.3}s", r.outcome.brief(), (r.t_done - r.t_start) as f64 / 1e9))
                .collect();
            rec.note(format!("{} => [{}] exchanges={}", render(c), outs.join(", "), run.log.len()));
        }
    }
    let _ = &run.contacts;
    match soft.into_iter().next() {
        Some(f) => Err(f),
        None => Ok(()),
    }
}

// ---- de-duplication -----------------------------------------------------------------------------

#[derive(Clone, Debug, Serialize, Deserialize)]
struct DedupCase {
    base: PoolCase,
    k: u8,
    /// Some((join, patience, gap)): besides the first caller, a second identical caller joins at
    /// `join` ms and drops its lookup `patience` ms later; a third identical caller starts `gap`
    /// ms after that. While the first exchange is still in flight the third must share it.
    #[serde(default)]
    quitter: Option<(u16, u16, u16)>,
    /// Some((patience, gap)): the *only* caller drops its lookup after `patience` ms; an identical
    /// caller starts `gap` ms later. Nothing is in flight any more, so the second lookup is a new
    /// one and must cause an exchange of its own.
    #[serde(default)]
    creator_quits: Option<(u16, u16)>,
}

fn per_server_counts(log: &[Exch], upto: Option<u64>) -> BTreeMap<(usize, bool), u32> {
    let mut m = BTreeMap::new();
    for e in log {
        if upto.is_none_or(|t| e.t <= t) {
            *m.entry((e.server, e.tcp)).or_insert(0) += 1;
        }
    }
    m
}

fn run_dedup_quitter(d: &DedupCase, q: (u16, u16, u16), rec: &mut Rec) -> CaseResult {
    let c = &d.base;
    let (join, patience, gap) = (q.0, q.1.max(1), q.2);
    let callers = vec![
        Caller { q: 0, start_ms: 0, give_up_ms: 0 },
        Caller { q: 0, start_ms: join, give_up_ms: patience },
        Caller { q: 0, start_ms: join.saturating_add(patience).saturating_add(gap), give_up_ms: 0 },
    ];
    let one = vec![Caller { q: 0, start_ms: 0, give_up_ms: 0 }];
    let solo = run_pool(c, &one, false)?;
    let multi = run_pool(c, &callers, false)?;
    classify(c, rec);
    rec.class("dedup:waiter-gives-up");
    let (first, quit, third) = (&multi.results[0], &multi.results[1], &multi.results[2]);
    let joined = quit.t_start < first.t_done && quit.t_start > first.t_start || (quit.t_start == first.t_start && overlapped(quit, first));
    let abandoned = matches!(quit.outcome, Outcome::Abandoned);
    let third_during_first = third.t_start < first.t_done;
    rec.class(format!("waiter:{}", if !joined { "never-overlapped" } else if abandoned { "abandoned-in-flight" } else { "completed" }));
    rec.class(if third_during_first { "third:starts-while-first-in-flight" } else { "third:starts-after-first-completed" });
    if !(joined && abandoned && third_during_first) {
        return Ok(());
    }
    rec.nontrivial();
    // the first caller is unaffected by the waiter's departure, the third shares its exchange
    vensure!(
        third.outcome.brief() == first.outcome.brief() && third.t_done == first.t_done,
        "lookup-not-shared-after-a-waiter-gave-up",
        "first caller: {} at {} ns; a caller that started at {} ns, after a waiter had dropped out at {} ns, got {} at {} ns",
        first.outcome.brief(),
        first.t_done,
        third.t_start,
        quit.t_done,
        third.outcome.brief(),
        third.t_done
    );
    let deterministic = !matches!(strategy_of(c.strategy), ServerOrderingStrategy::QueryStatistics);
    if deterministic {
        let a = per_server_counts(&solo.log, Some(solo.results[0].t_done));
        let b = per_server_counts(&multi.log, Some(first.t_done));
        vensure!(
            a == b,
            "lookup-not-shared-after-a-waiter-gave-up",
            "per-(server,tcp) exchange counts differ: one caller {a:?}; first + abandoning waiter + late joiner {b:?}"
        );
        vensure!(
            solo.results[0].outcome.brief() == first.outcome.brief(),
            "shared-result-differs-from-single-lookup",
            "one caller: {}, with waiter and late joiner: {}",
            solo.results[0].outcome.brief(),
            first.outcome.brief()
        );
    }
    Ok(())
}

fn run_dedup_creator_quits(d: &DedupCase, q: (u16, u16), rec: &mut Rec) -> CaseResult {
    let c = &d.base;
    let (patience, gap) = (q.0.max(1), q.1);
    let later = patience.saturating_add(gap).saturating_add(1);
    // X: the only caller for question 0 gives up in flight, then question 0 is asked again.
    // Y: the same, except that the caller who gives up asked *another* question, so that the later
    //    lookup certainly has nothing to share. Once the abandoned lookup is gone the two pools are
    //    in the same state, and the later lookup must fare the same in both.
    let x = vec![Caller { q: 0, start_ms: 0, give_up_ms: patience }, Caller { q: 0, start_ms: later, give_up_ms: 0 }];
    let y = vec![Caller { q: 1, start_ms: 0, give_up_ms: patience }, Caller { q: 0, start_ms: later, give_up_ms: 0 }];
    let rx = run_pool(c, &x, false)?;
    let ry = run_pool(c, &y, false)?;
    classify(c, rec);
    rec.class("dedup:only-caller-gives-up,then-asked-again");
    let abandoned = matches!(rx.results[0].outcome, Outcome::Abandoned) && matches!(ry.results[0].outcome, Outcome::Abandoned);
    rec.class(if abandoned { "creator:abandoned-in-flight" } else { "creator:completed-before-giving-up" });
    if !abandoned || matches!(strategy_of(c.strategy), ServerOrderingStrategy::QueryStatistics) {
        return Ok(());
    }
    rec.nontrivial();
    let (bx, by) = (&rx.results[1], &ry.results[1]);
    let after = |r: &Run, t: u64| r.log.iter().filter(|e| e.t >= t).count();
    vensure!(
        bx.outcome.brief() == by.outcome.brief() && bx.t_done == by.t_done && after(&rx, bx.t_start) == after(&ry, by.t_start),
        "abandoned-lookup-left-behind-changes-later-lookups",
        "the only caller dropped its lookup at {} ns; an identical lookup started at {} ns got {} at {} ns with {} new exchanges, but {} at {} ns with {} new exchanges when the abandoned lookup had been for another name",
        rx.results[0].t_done,
        bx.t_start,
        bx.outcome.brief(),
        bx.t_done,
        after(&rx, bx.t_start),
        by.outcome.brief(),
        by.t_done,
        after(&ry, by.t_start)
    );
    Ok(())
}

fn run_dedup(d: &DedupCase, rec: &mut Rec) -> CaseResult {
    if let Some(q) = d.creator_quits {
        return run_dedup_creator_quits(d, q, rec);
    }
    if let Some(q) = d.quitter {
        return run_dedup_quitter(d, q, rec);
    }
    let c = &d.base;
    let k = d.k.clamp(2, 5) as usize;
    let one = vec![Caller { q: 0, start_ms: 0, give_up_ms: 0 }];
    let many = vec![Caller { q: 0, start_ms: 0, give_up_ms: 0 }; k];
    let solo = run_pool(c, &one, true)?;
    let multi = run_pool(c, &many, true)?;
    let mut soft: Vec<crate::core::Fail> = vec![];
    classify(c, rec);
    rec.class(format!("k:{k}"));

    // A lookup that completes within its first poll (every server fails synchronously) is over
    // before the next caller starts: nothing is in flight to be shared. The sharing clauses apply
    // to lookups that overlapped.
    let first = multi.results[0].outcome.brief();
    let all_overlap = multi.results.iter().all(|r| overlapped(r, &multi.results[0]) || std::ptr::eq(r, &multi.results[0]));
    if !all_overlap {
        rec.class("overlap:none(synchronous-completion)");
        for (i, r) in multi.results.iter().enumerate() {
            check_result(c, &multi, r, &format!("caller {i}/{k}"), false, rec, &mut soft)?;
        }
        return match soft.into_iter().next() {
            Some(f) => Err(f),
            None => Ok(()),
        };
    }
    // all k get the same result
    for (i, r) in multi.results.iter().enumerate() {
        vensure!(
            r.outcome.brief() == first,
            "identical-concurrent-callers-disagree",
            "caller 0 got {first}, caller {i} got {}",
            r.outcome.brief()
        );
        vensure!(
            r.t_done == multi.results[0].t_done,
            "identical-concurrent-callers-finish-apart",
            "caller 0 finished at {} ns, caller {i} at {} ns",
            multi.results[0].t_done,
            r.t_done
        );
    }
    // one upstream exchange: no server sees two request messages for the question at one instant
    let t_first_done = multi.results.iter().map(|r| r.t_done).max().unwrap_or(0);
    let mut seen: BTreeMap<(u64, usize, bool), u32> = BTreeMap::new();
    for e in multi.log.iter().filter(|e| e.t <= t_first_done) {
        *seen.entry((e.t, e.server, e.tcp)).or_insert(0) += 1;
    }
    if let Some(((t, s, tcp), n)) = seen.iter().find(|(_, n)| **n > 1) {
        vfail!(
            "concurrent-identical-lookups-not-shared",
            "{n} request messages for the same question reached server {s} ({}) at the same instant {t} ns with {k} identical callers",
            if *tcp { "tcp" } else { "udp" }
        );
    }
    // same per-server exchange count as one caller (strategies whose order is a function of the
    // configuration only; QueryStatistics starts from a random SRTT per server)
    let deterministic = !matches!(strategy_of(c.strategy), ServerOrderingStrategy::QueryStatistics);
    if deterministic {
        let a = per_server_counts(&solo.log, Some(solo.results[0].t_done));
        let b = per_server_counts(&multi.log, Some(t_first_done));
        vensure!(
            a == b,
            "concurrent-identical-lookups-not-shared",
            "per-(server,tcp) exchange counts differ: one caller {a:?}, {k} callers {b:?}"
        );
        vensure!(
            solo.results[0].outcome.brief() == first,
            "shared-result-differs-from-single-lookup",
            "one caller: {}, {k} callers: {first}",
            solo.results[0].outcome.brief()
        );
        rec.class("counts:compared");
    } else {
        rec.class("counts:not-compared(random-order)");
    }
    // a later identical lookup goes upstream again
    for (name, run) in [("single", &solo), ("multi", &multi)] {
        if let Some(r) = &run.later {
            vensure!(
                run.activity_total > run.activity_before_later,
                "later-lookup-served-from-stale-in-flight-entry",
                "{name}: a lookup issued after the earlier ones completed produced {} without contacting any server",
                r.outcome.brief()
            );
        }
    }
    // validity / deadline of everything seen
    for (i, r) in multi.results.iter().enumerate() {
        check_result(c, &multi, r, &format!("caller {i}/{k}"), false, rec, &mut soft)?;
    }
    rec.class(format!("result:{}", first.split('(').next().unwrap_or("?")));
    rec.nontrivial();
    if rec.wants_note() {
        rec.note(format!(
            "{} k={k} => {first}; exchanges one={} k={}",
            render(c),
            solo.log.len(),
            multi.log.len()
        ));
    }
    match soft.into_iter().next() {
        Some(f) => Err(f),
        None => Ok(()),
    }
}

// ---------------------------------------------------------------------------------------------
// strategies

fn tcp_side() -> impl Strategy<Value = TcpSide> {
    prop_oneof![4 => Just(TcpSide::Full), 1 => Just(TcpSide::Refused), 1 => Just(TcpSide::Reset), 1 => Just(TcpSide::Hang)]
}

fn beh(silent_w: u32) -> impl Strategy<Value = Beh> {
    prop_oneof![
        6 => Just(Beh::Answer),
        3 => Just(Beh::NxDomain),
        4 => tcp_side().prop_map(|tcp| Beh::Truncated { tcp }),
        silent_w => any::<bool>().prop_map(|tcp_accepts| Beh::Silent { tcp_accepts }),
        3 => any::<bool>().prop_map(|at_recv| Beh::IoError { at_recv }),
        3 => any::<bool>().prop_map(|clean| Beh::Reset { clean }),
    ]
}

fn server(silent_w: u32) -> impl Strategy<Value = Server> {
    (
        beh(silent_w),
        prop_oneof![6 => Just(0u8), 3 => 1u8..=4, 1 => 5u8..=7],
        prop_oneof![5 => Just(0u16), 4 => 1u16..30, 1 => 30u16..400, 1 => 400u16..2500],
        prop_oneof![5 => Just(Protos::Both), 2 => Just(Protos::UdpOnly), 2 => Just(Protos::TcpOnly)],
        any::<bool>(),
    )
        .prop_map(|(beh, busy, lat_ms, protos, trust_nx)| Server {
            beh,
            busy,
            lat_ms,
            protos,
            trust_nx,
        })
}

fn pool_case(silent_w: u32) -> impl Strategy<Value = PoolCase> {
    let callers = prop_oneof![
        3 => Just(vec![Caller { q: 0, start_ms: 0, give_up_ms: 0 }]),
        4 => vec((0u8..3, prop_oneof![3 => Just(0u16), 1 => 1u16..50, 1 => 50u16..1500]).prop_map(|(q, start_ms)| Caller { q, start_ms, give_up_ms: 0 }), 2..=5),
    ];
    (
        vec(server(silent_w), 1..=4),
        0u8..3,
        prop_oneof![Just(1u8), Just(2), Just(4)],
        prop_oneof![Just(1000u32), Just(2000), Just(5000)],
        prop_oneof![Just(500u32), Just(2000)],
        prop::bool::weighted(0.3),
        callers,
        prop::bool::weighted(0.3),
    )
        .prop_map(|(servers, strategy, num_concurrent_reqs, timeout_ms, connect_timeout_ms, case_rand, callers, later)| PoolCase {
            servers,
            strategy,
            num_concurrent_reqs,
            timeout_ms,
            connect_timeout_ms,
            case_rand,
            callers,
            later,
        })
}

// ---------------------------------------------------------------------------------------------
// RetryDnsHandle (the layer the resolver puts around the pool): "attempts - number of attempts
// before failing"; "does not reattempt queries that fail with a negative response ... only
// reattempts queries that effectively failed to get a response"; Busy is back-pressure, not a
// failed attempt.

#[derive(Clone, Copy, Debug, Serialize, Deserialize, PartialEq, Eq)]
enum Inner {
    Answer,
    Timeout,
    Io,
    Busy,
    NoConnections,
    NxDomain,
    NoData,
    Message,
}

#[derive(Clone, Debug, Serialize, Deserialize)]
struct RetryCase {
    attempts: u8,
    /// what the wrapped handle yields for the 1st, 2nd, ... send (then `Timeout` forever)
    script: Vec<Inner>,
}

#[derive(Clone)]
struct ScriptedHandle {
    script: Arc<Vec<Inner>>,
    sends: Arc<Mutex<usize>>,
}

impl DnsHandle for ScriptedHandle {
    type Response = Pin<Box<dyn Stream<Item = Result<DnsResponse, NetError>> + Send + Unpin>>;
    type Runtime = SimRt;

    fn send(&self, request: DnsRequest) -> Self::Response {
        let i = {
            let mut n = self.sends.lock().unwrap();
            *n += 1;
            *n - 1
        };
        let what = self.script.get(i).copied().unwrap_or(Inner::Timeout);
        let negative = |nx: bool| {
            let mut nr = NoRecords::new(request.queries.first().cloned().unwrap_or_else(|| Query::new(Name::root(), RecordType::A)), if nx { ResponseCode::NXDomain } else { ResponseCode::NoError });
            nr.negative_ttl = Some(60);
            NetError::Dns(DnsError::NoRecordsFound(nr))
        };
        let r: Result<DnsResponse, NetError> = match what {
            Inner::Answer => {
                let mut m = hickory_proto::op::Message::response(request.metadata.id, hickory_proto::op::OpCode::Query);
                if let Some(q) = request.queries.first() {
                    m.add_query(q.clone());
                    m.add_answer(hickory_proto::rr::Record::from_rdata(
                        q.name.clone(),
                        300,
                        hickory_proto::rr::RData::A(hickory_proto::rr::rdata::A(Ipv4Addr::new(192, 0, 2, (i % 250) as u8 + 1))),
                    ));
                }
                DnsResponse::from_message(m).map_err(NetError::from)
            }
            Inner::Timeout => Err(NetError::Timeout),
            Inner::Io => Err(NetError::from(io::Error::new(io::ErrorKind::ConnectionReset, "reset"))),
            Inner::Busy => Err(NetError::Busy),
            Inner::NoConnections => Err(NetError::NoConnections),
            Inner::NxDomain => Err(negative(true)),
            Inner::NoData => Err(negative(false)),
            Inner::Message => Err(NetError::from("something else went wrong")),
        };
        Box::pin(futures_util::stream::once(futures_util::future::ready(r)))
    }
}

fn retry_case() -> impl Strategy<Value = RetryCase> {
    let inner = prop_oneof![
        3 => Just(Inner::Answer),
        4 => Just(Inner::Timeout),
        3 => Just(Inner::Io),
        3 => Just(Inner::Busy),
        1 => Just(Inner::NoConnections),
        2 => Just(Inner::NxDomain),
        1 => Just(Inner::NoData),
        1 => Just(Inner::Message),
    ];
    (0u8..5, vec(inner, 0..=8)).prop_map(|(attempts, script)| RetryCase { attempts, script })
}

fn run_retry(c: &RetryCase, rec: &mut Rec) -> CaseResult {
    use hickory_net::xfer::RetryDnsHandle;
    let sends = Arc::new(Mutex::new(0usize));
    let inner = ScriptedHandle { script: Arc::new(c.script.clone()), sends: sends.clone() };
    let handle = RetryDnsHandle::new(inner, c.attempts as usize);
    let mut req = DnsRequest::from_query(Query::new(Name::from_ascii(QNAMES[0]).unwrap(), RecordType::A), DnsRequestOptions::default());
    req.metadata.id = 0x4242;
    let got = futures_executor::block_on(async { handle.send(req).next().await });
    let sent = *sends.lock().unwrap();

    // the documented behaviour, replayed on the script
    let at = |i: usize| c.script.get(i).copied().unwrap_or(Inner::Timeout);
    let mut remaining = c.attempts as usize;
    let mut i = 0usize;
    let (want, want_sends) = loop {
        let o = at(i);
        i += 1;
        match o {
            Inner::Answer => break (o, i),
            // a negative response is a response; no connection at all cannot get better by asking again
            Inner::NxDomain | Inner::NoData | Inner::NoConnections => break (o, i),
            Inner::Busy if remaining > 0 => continue,
            _ if remaining == 0 => break (o, i),
            _ => remaining -= 1,
        }
        if i > 64 {
            break (Inner::Busy, i);
        }
    };
    let kind = match &got {
        Some(Ok(_)) => Inner::Answer,
        Some(Err(NetError::Timeout)) => Inner::Timeout,
        Some(Err(NetError::Io(_))) => Inner::Io,
        Some(Err(NetError::Busy)) => Inner::Busy,
        Some(Err(NetError::NoConnections)) => Inner::NoConnections,
        Some(Err(NetError::Dns(DnsError::NoRecordsFound(n)))) if n.response_code == ResponseCode::NXDomain => Inner::NxDomain,
        Some(Err(NetError::Dns(DnsError::NoRecordsFound(_)))) => Inner::NoData,
        Some(Err(_)) => Inner::Message,
        None => vfail!("retry-stream-ended-without-a-result", "attempts {} script {:?}: the response stream ended without an item", c.attempts, c.script),
    };
    rec.class(format!("attempts:{}", c.attempts));
    rec.class(format!("result:{kind:?}"));
    if want_sends > 1 {
        rec.nontrivial();
    }
    let ctx = format!("attempts {} script {:?}: got {kind:?} after {sent} sends, documented behaviour gives {want:?} after {want_sends} sends", c.attempts, c.script);
    vensure!(kind == want, if want == Inner::Answer { "retry-gave-up-before-the-answer" } else { "retry-result-differs-from-documented" }, "{ctx}");
    vensure!(sent == want_sends, if sent > want_sends { "retry-asked-again-after-a-final-result" } else { "retry-stopped-early" }, "{ctx}");
    if let Some(Ok(resp)) = &got {
        let ip = resp.answers.first().and_then(|r| match &r.data {
            hickory_proto::rr::RData::A(a) => Some(a.0.octets()[3]),
            _ => None,
        });
        vensure!(ip == Some(((want_sends - 1) % 250) as u8 + 1), "retry-answer-is-not-the-one-of-the-last-send", "{ctx}; answer {ip:?}");
    }
    Ok(())
}

fn dedup_case() -> impl Strategy<Value = DedupCase> {
    let quitter = prop_oneof![
        3 => Just(None),
        2 => (prop_oneof![Just(0u16), 1u16..30, 30u16..400], prop_oneof![1u16..20, 20u16..300], prop_oneof![Just(0u16), 1u16..50]).prop_map(Some),
    ];
    let creator_quits = prop_oneof![
        5 => Just(None),
        1 => (prop_oneof![1u16..20, 20u16..300, 300u16..3000], prop_oneof![Just(0u16), 1u16..50, 50u16..2000]).prop_map(Some),
    ];
    (pool_case(2), 2u8..=5, quitter, creator_quits).prop_map(|(base, k, quitter, creator_quits)| DedupCase { base, k, quitter, creator_quits })
}

pub fn check() -> Option<Check> {
    // fault assignments with few silent servers (so that the liveness clause is exercised) and a
    // second stream with many (deadline clause)
    let faults = prop("fault_assignments", 300_000, 6_000_000, |_t: Tier| pool_case(1), |c: &PoolCase, rec: &mut Rec| {
        let _det = crate::detrand::DetRand::start(crate::core::det_seed(c));
        run_faults(c, rec)
    });
    let slow = prop("silent_servers_deadline", 150_000, 3_000_000, |_t: Tier| pool_case(8), |c: &PoolCase, rec: &mut Rec| {
        let _det = crate::detrand::DetRand::start(crate::core::det_seed(c));
        run_faults(c, rec)
    });
    let dedup = prop("deduplication", 150_000, 3_000_000, |_t: Tier| dedup_case(), |c: &DedupCase, rec: &mut Rec| {
        let _det = crate::detrand::DetRand::start(crate::core::det_seed(c));
        run_dedup(c, rec)
    });
    let retry = prop("retry_handle", 100_000, 2_000_000, |_t: Tier| retry_case(), run_retry);
    Some(Check {
        id: "C18",
        level: "exploration",
        rule: "real NameServerPool::from_config on the simulated runtime in virtual time; 1..4 servers x behaviour {answer, NXDOMAIN trusted/untrusted, TC on UDP + {full, refused, reset, hang} on TCP, silent, io-error at send/recv/connect, reset/close mid-exchange, Busy x n then as before} x latency x {udp+tcp, udp, tcp} x ordering strategy x num_concurrent_reqs {1,2,4} x timeouts x 0x20 x 1..5 callers (identical/distinct, staggered) x optional later lookup; non-trivial = distinct scenario with >= 1 faulty and >= 1 answering server, or >= 2 callers; de-duplication: twin runs (1 caller vs k identical callers on fresh pools) compared exchange by exchange; in 40 % of the cases a second identical caller joins and drops its lookup while the first is in flight, and a third identical caller starting after that must still share the first one's exchange. retry_handle: RetryDnsHandle (attempts 0..4) around a scripted handle yielding answer / timeout / io error / Busy / NoConnections / NXDOMAIN / NODATA / other error per send; result and number of sends must be what its documentation says (negative responses and NoConnections are final, Busy is not counted, every other failure costs one attempt).",
        assumptions: vec![
            "liveness is asserted only where the pool's ordering cannot matter: no silent server, at least one reliably answering server, worst-case serial cost below the timeout; a server whose TCP connect hangs is admitted at the cost of connect_timeout (single caller only)",
            "after a TC reply the lookup is TCP-only by design (ConnectionPolicy.disable_udp): a UDP-only healthy server is then not counted as healthy",
            "a server that answers Busy more than 4 times exceeds the documented back-off (20+40+80+160 ms) and is counted as faulty",
            "Busy is injected at the public ConnectionProvider boundary; all other faults are socket-level",
            "an NXDOMAIN from a server trusted for negatives is a legitimate final result",
            "per-server exchange counts of one vs k callers are compared for UserProvidedOrder and RoundRobin only (QueryStatistics starts from random SRTTs)",
        ],
        subs: vec![faults, slow, dedup, retry],
    })
}
