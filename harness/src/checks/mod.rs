use crate::core::Check;

pub mod c04;

pub fn build(id: &str) -> Option<Check> {
    match id {
        "C04" => Some(c04::check()),
        _ => None,
    }
}
