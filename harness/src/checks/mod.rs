use crate::core::Check;

pub mod c01;
pub mod codec_util;
pub mod c02;
pub mod c03;
pub mod c03_server;
pub mod c04;
pub mod c05;
pub mod c06;
pub mod c07;
pub mod c08;
pub mod c09;
pub mod c10;
pub mod c11;
pub mod c12;
pub mod c13;
pub mod c14;
pub mod c15;
pub mod c16;
pub mod c17;
pub mod c18;
pub mod c19;
pub mod c20;

pub fn build(id: &str) -> Option<Check> {
    match id {
        "C01" => c01::check(),
        "C02" => c02::check(),
        "C03" => c03::check(),
        "C04" => c04::check(),
        "C05" => c05::check(),
        "C06" => c06::check(),
        "C07" => c07::check(),
        "C08" => c08::check(),
        "C09" => c09::check(),
        "C10" => c10::check(),
        "C11" => c11::check(),
        "C12" => c12::check(),
        "C13" => c13::check(),
        "C14" => c14::check(),
        "C15" => c15::check(),
        "C16" => c16::check(),
        "C17" => c17::check(),
        "C18" => c18::check(),
        "C19" => c19::check(),
        "C20" => c20::check(),
        // engine self-test: one case spins forever; the hang monitor must report it (exit 1)
        "SELFTEST-HANG" => Some(Check {
            id: "SELFTEST-HANG",
            level: "exploration",
            rule: "self-test",
            assumptions: vec![],
            subs: vec![crate::core::prop_hang(
                "spin",
                64,
                64,
                std::time::Duration::from_secs(3),
                |_| proptest::prelude::any::<u8>(),
                |x: &u8, _rec| {
                    if *x == 7 {
                        let mut n = 0u64;
                        loop {
                            n = std::hint::black_box(n.wrapping_add(1));
                        }
                    }
                    Ok(())
                },
            )],
        }),
        _ => None,
    }
}
