//! C04 — Domain names: case-insensitive identity, canonical order, length limits.

use std::cmp::Ordering;
use std::hash::{Hash, Hasher};

use hickory_proto::rr::{LowerName, Name};
use hickory_proto::serialize::binary::{BinDecodable, BinDecoder, BinEncodable, BinEncoder, NameEncoding};
use proptest::collection::vec;
use proptest::prelude::*;
use serde::{Deserialize, Serialize};

use crate::core::{enumerate, prop, Check, Env};
use crate::gen::names::{self, MName, NamePair, NameTriple};
use crate::refm::canon;

fn h1<T: Hash>(t: &T) -> u64 {
    let mut h = std::collections::hash_map::DefaultHasher::new();
    t.hash(&mut h);
    h.finish()
}

fn h2<T: Hash>(t: &T) -> u64 {
    // a second, structurally different hasher (FNV over the written bytes incl. length prefixes)
    struct Fnv(u64);
    impl Hasher for Fnv {
        fn finish(&self) -> u64 {
            self.0
        }
        fn write(&mut self, bytes: &[u8]) {
            for b in bytes {
                self.0 ^= *b as u64;
                self.0 = self.0.wrapping_mul(0x100000001b3);
            }
        }
    }
    let mut h = Fnv(0xcbf29ce484222325);
    t.hash(&mut h);
    h.finish()
}

fn check_limits(n: &Name, what: &str) -> Result<(), crate::core::Fail> {
    let mut wire = 1usize;
    for l in n.iter() {
        vensure!(
            !l.is_empty() && l.len() <= 63,
            "label-length-out-of-range",
            "{what}: label of {} octets in {:?}",
            l.len(),
            n
        );
        wire += l.len() + 1;
    }
    vensure!(wire <= 255, "name-over-255", "{what}: name of {wire} wire octets");
    Ok(())
}

fn is_boundary(m: &MName) -> bool {
    m.wire_len() >= 253 || m.labels.iter().any(|l| l.len() >= 63) || m.labels.len() >= 100
}

// ---------------------------------------------------------------------------------------------
// wire round trip

#[derive(Clone, Debug, Serialize, Deserialize)]
struct WireCase {
    /// octets emitted before anything else (so names land at arbitrary message offsets)
    pad: u32,
    /// names emitted earlier, each compressed or not
    earlier: Vec<(MName, bool)>,
    /// more padding between the earlier names and the name under test
    pad2: u32,
    name: MName,
    compressed: bool,
}

fn wire_case() -> impl Strategy<Value = WireCase> {
    let pad = prop_oneof![
        6 => 0u32..64,
        2 => 12u32..600,
        2 => 16_300u32..16_400,
        1 => 60_000u32..65_000,
    ];
    let pad2 = prop_oneof![
        8 => Just(0u32),
        2 => 0u32..300,
        1 => 16_000u32..16_500,
    ];
    (pad, names::related_fq_pool(5), pad2, any::<u64>(), any::<bool>()).prop_map(|(pad, pool, pad2, bits, compressed)| {
        let mut pool = pool;
        // the name under test is one of the pool (often sharing suffixes / differing by case with the others)
        let idx = (bits as usize >> 8) % pool.len();
        let name = pool.remove(idx);
        let earlier = pool
            .into_iter()
            .enumerate()
            .map(|(i, n)| (n, (bits >> (16 + i)) & 1 == 1 || i == 0))
            .collect();
        WireCase {
            pad,
            earlier,
            pad2,
            name,
            compressed,
        }
    })
}

fn emit_name(enc: &mut BinEncoder<'_>, n: &Name, compressed: bool) -> Result<(), hickory_proto::ProtoError> {
    if compressed {
        let mut e = enc.with_name_encoding(NameEncoding::Compressed);
        n.emit(&mut e)
    } else {
        let mut e = enc.with_name_encoding(NameEncoding::Uncompressed);
        n.emit(&mut e)
    }
}

fn wire_body(c: &WireCase, rec: &mut crate::core::Rec) -> crate::core::CaseResult {
    let total = c.pad as usize
        + c.pad2 as usize
        + c.earlier.iter().map(|(n, _)| n.wire_len()).sum::<usize>()
        + c.name.wire_len();
    if total > 65_535 {
        rec.discard("over-64k");
        return Ok(());
    }
    let mut buf: Vec<u8> = Vec::with_capacity(total + 16);
    let mut enc = BinEncoder::new(&mut buf);
    // 0x40 is a reserved label type: a decoder that wandered into padding fails loudly
    enc.emit_slice(&vec![0x40u8; c.pad as usize])
        .map_err(|e| crate::core::Fail::new("harness", format!("pad: {e}")))?;
    let mut offsets = Vec::new();
    for (n, comp) in &c.earlier {
        offsets.push((enc.len(), n.clone()));
        let hn = n.to_name();
        if let Err(e) = emit_name(&mut enc, &hn, *comp) {
            vfail!("emit-failed", "emit of valid earlier name {} failed: {e}", n.show());
        }
    }
    enc.emit_slice(&vec![0x40u8; c.pad2 as usize])
        .map_err(|e| crate::core::Fail::new("harness", format!("pad2: {e}")))?;
    let start = enc.len();
    let hn = c.name.to_name();
    if let Err(e) = emit_name(&mut enc, &hn, c.compressed) {
        vfail!("emit-failed", "emit of valid name {} at offset {start} failed: {e}", c.name.show());
    }
    let end = enc.len();
    drop(enc);
    vensure!(buf.len() == end, "encoder-length-mismatch", "encoder.len()={end} but buffer has {} octets", buf.len());
    let used_pointer = end - start < c.name.wire_len();
    if !c.compressed {
        vensure!(
            !used_pointer,
            "uncompressed-name-used-pointer",
            "uncompressed emit wrote {} octets for a {}-octet name",
            end - start,
            c.name.wire_len()
        );
    }
    // every emitted name must read back identically (labels incl. case) at its offset
    let mut all = offsets;
    all.push((start, c.name.clone()));
    for (off, m) in &all {
        let mut dec = BinDecoder::new(&buf).clone(*off as u16);
        let got = match Name::read(&mut dec) {
            Ok(n) => n,
            Err(e) => vfail!(
                "wire-name-unreadable",
                "name {} emitted at offset {off} (compressed={}) does not decode: {e}",
                m.show(),
                c.compressed
            ),
        };
        let got_m = MName::from_name(&got);
        vensure!(
            got_m.labels == m.labels,
            "wire-roundtrip-changed-name",
            "emitted {} at offset {off}, decoded {}",
            m.show(),
            got_m.show()
        );
        vensure!(got.is_fqdn(), "wire-name-not-fqdn", "decoded wire name is not marked FQDN");
        check_limits(&got, "from-wire")?;
        if *off == start {
            vensure!(
                dec.index() == end,
                "wire-name-consumed-wrong-length",
                "decoder stopped at {} but the name ends at {end}",
                dec.index()
            );
        }
    }
    rec.class(if used_pointer { "pointer-used" } else { "no-pointer" });
    rec.class(match start {
        0..=0x3ffe => "offset<0x3fff",
        _ => "offset>=0x3fff",
    });
    if used_pointer || is_boundary(&c.name) || start >= 0x3fff {
        rec.nontrivial();
        if rec.wants_note() {
            rec.note(format!(
                "emit {} at offset {start} after {:?}, compressed={} -> {} octets",
                c.name.show(),
                c.earlier.iter().map(|(n, c)| format!("{}{}", n.show(), if *c { "(c)" } else { "" })).collect::<Vec<_>>(),
                c.compressed,
                end - start
            ));
        }
    }
    Ok(())
}

// ---------------------------------------------------------------------------------------------
// many names in one message: the encoder keeps per-message budgets (compression candidates stored,
// names written with compression); whatever it does once a budget is used up, every name must
// still read back with its own octets

#[derive(Clone, Debug, Serialize, Deserialize)]
struct ManyCase {
    pad: u32,
    /// (name, emitted with compression on)
    names: Vec<(MName, bool)>,
}

fn many_case() -> impl Strategy<Value = ManyCase> {
    let pad = prop_oneof![6 => 0u32..40, 1 => 16_000u32..16_400];
    let n = prop_oneof![2 => 40usize..100, 5 => 100usize..180, 2 => 180usize..320];
    (pad, names::related_fq_pool(14), n, any::<u64>(), 0u8..4).prop_map(|(pad, pool, n, bits, plain_every)| {
        let mut x = bits | 1;
        let mut names = Vec::with_capacity(n);
        for i in 0..n {
            // xorshift: a pure function of the generated `bits`
            x ^= x << 13;
            x ^= x >> 7;
            x ^= x << 17;
            let mut m = pool[(x >> 8) as usize % pool.len()].clone();
            // a fresh leading label on most names (so that the name itself is new and only its suffix
            // can be a pointer), letter case chosen per name
            if x & 3 != 0 && m.wire_len() + 5 <= 255 && m.labels.len() < 126 {
                let l = vec![b'a' + (i % 26) as u8, b'A' + ((x >> 20) % 26) as u8, b'0' + ((i / 26) % 10) as u8, b'q' - ((x >> 28) % 3) as u8 * 32];
                m.labels.insert(0, l);
            }
            if (x >> 4) & 1 == 1 {
                for l in m.labels.iter_mut() {
                    for b in l.iter_mut() {
                        if b.is_ascii_alphabetic() && (x >> (*b % 32)) & 1 == 1 {
                            *b ^= 0x20;
                        }
                    }
                }
            }
            let compressed = plain_every == 0 || i % (plain_every as usize + 6) != 5;
            names.push((m, compressed));
        }
        ManyCase { pad, names }
    })
}

fn many_body(c: &ManyCase, rec: &mut crate::core::Rec) -> crate::core::CaseResult {
    let total = c.pad as usize + c.names.iter().map(|(n, _)| n.wire_len()).sum::<usize>();
    if total > 65_535 {
        rec.discard("over-64k");
        return Ok(());
    }
    let mut buf: Vec<u8> = Vec::with_capacity(total + 16);
    let mut enc = BinEncoder::new(&mut buf);
    enc.emit_slice(&vec![0x40u8; c.pad as usize]).map_err(|e| crate::core::Fail::new("harness", format!("pad: {e}")))?;
    let mut offsets = Vec::with_capacity(c.names.len());
    for (i, (n, comp)) in c.names.iter().enumerate() {
        let start = enc.len();
        if let Err(e) = emit_name(&mut enc, &n.to_name(), *comp) {
            vfail!("emit-failed", "emit of valid name #{i} {} failed: {e}", n.show());
        }
        offsets.push((start, enc.len()));
    }
    let end = enc.len();
    drop(enc);
    vensure!(buf.len() == end, "encoder-length-mismatch", "encoder.len()={end} but buffer has {} octets", buf.len());
    let mut pointers = 0usize;
    let mut compressed_on = 0usize;
    for (i, ((m, comp), (start, stop))) in c.names.iter().zip(&offsets).enumerate() {
        let used_pointer = stop - start < m.wire_len();
        if used_pointer {
            pointers += 1;
        }
        if *comp {
            compressed_on += 1;
        } else {
            vensure!(!used_pointer, "uncompressed-name-used-pointer", "name #{i}: uncompressed emit wrote {} octets for a {}-octet name", stop - start, m.wire_len());
        }
        let mut dec = BinDecoder::new(&buf).clone(*start as u16);
        let got = match Name::read(&mut dec) {
            Ok(n) => n,
            Err(e) => vfail!("wire-name-unreadable", "name #{i} {} emitted at offset {start} (compressed={comp}) does not decode: {e}", m.show()),
        };
        let got_m = MName::from_name(&got);
        vensure!(
            got_m.labels == m.labels,
            "wire-roundtrip-changed-name",
            "name #{i} of {} in one message ({compressed_on} written with compression on so far): emitted {} at offset {start}, decoded {}",
            c.names.len(),
            m.show(),
            got_m.show()
        );
        vensure!(dec.index() == *stop, "wire-name-consumed-wrong-length", "name #{i}: decoder stopped at {} but the name ends at {stop}", dec.index());
        check_limits(&got, "from-wire")?;
    }
    rec.class(match compressed_on {
        0..=63 => "names-with-compression-on<=63",
        64..=119 => "names-with-compression-on:64..119",
        120..=160 => "names-with-compression-on:120..160",
        _ => "names-with-compression-on>160",
    });
    rec.class(if pointers * 2 >= c.names.len() { "pointers:half-or-more" } else { "pointers:fewer" });
    if compressed_on > 64 && pointers > 0 {
        rec.nontrivial();
        if rec.wants_note() {
            rec.note(format!("{} names ({compressed_on} with compression on, {pointers} written with a pointer) after {} octets of padding; first: {}", c.names.len(), c.pad, c.names[0].0.show()));
        }
    }
    Ok(())
}

// ---------------------------------------------------------------------------------------------
// names inside RDATA: the statement speaks of "a name", not of owner names; the encoder chooses a
// name encoding per RDATA type (compressible, not compressible, the DNSSEC-canonical family), and
// each of them must hand the name back as it went in when a record is written the ordinary way

#[derive(Clone, Debug, Serialize, Deserialize)]
struct RdataNameCase {
    /// 0 NS, 1 CNAME, 2 PTR, 3 MX, 4 SOA (mname, rname), 5 SRV, 6 NAPTR, 7 ANAME
    kind: u8,
    owner: MName,
    name: MName,
    name2: MName,
    /// octets before the record (message offset)
    pad: u16,
    /// an earlier record at the same owner naming `name` as well (compression candidates exist)
    twice: bool,
}

fn rdata_name_case() -> impl Strategy<Value = RdataNameCase> {
    (0u8..8, names::related_fq_pool(4), any::<u32>(), prop_oneof![4 => 0u16..40, 1 => 12u16..600, 1 => 16_300u16..16_400], any::<bool>()).prop_map(|(kind, pool, bits, pad, twice)| {
        let pick = |k: u32| pool[(bits >> k) as usize % pool.len()].clone();
        RdataNameCase { kind, owner: pick(0), name: pick(8), name2: pick(16), pad, twice }
    })
}

fn rdata_name_body(c: &RdataNameCase, rec: &mut crate::core::Rec) -> crate::core::CaseResult {
    use hickory_proto::rr::rdata::{ANAME, CNAME, MX, NAPTR, NS, PTR, SOA, SRV};
    use hickory_proto::rr::{RData, Record};
    let (n1, n2) = (c.name.to_name(), c.name2.to_name());
    let (data, label) = match c.kind {
        0 => (RData::NS(NS(n1.clone())), "NS"),
        1 => (RData::CNAME(CNAME(n1.clone())), "CNAME"),
        2 => (RData::PTR(PTR(n1.clone())), "PTR"),
        3 => (RData::MX(MX::new(10, n1.clone())), "MX"),
        4 => (RData::SOA(SOA::new(n1.clone(), n2.clone(), 1, 2, 3, 4, 5)), "SOA"),
        5 => (RData::SRV(SRV::new(1, 2, 53, n1.clone())), "SRV"),
        6 => (RData::NAPTR(NAPTR::new(1, 2, b"u".to_vec().into_boxed_slice(), b"E2U+sip".to_vec().into_boxed_slice(), b"".to_vec().into_boxed_slice(), n1.clone())), "NAPTR"),
        _ => (RData::ANAME(ANAME(n1.clone())), "ANAME"),
    };
    let record = Record::from_rdata(c.owner.to_name(), 300, data);
    let mut buf: Vec<u8> = Vec::new();
    let mut enc = BinEncoder::new(&mut buf);
    enc.emit_slice(&vec![0x40u8; c.pad as usize]).map_err(|e| crate::core::Fail::new("harness", format!("pad: {e}")))?;
    if c.twice {
        if let Err(e) = record.emit(&mut enc) {
            vfail!("emit-failed", "emit of a valid {label} record failed: {e}");
        }
    }
    let start = enc.len();
    if let Err(e) = record.emit(&mut enc) {
        vfail!("emit-failed", "emit of a valid {label} record failed: {e}");
    }
    drop(enc);
    let mut dec = BinDecoder::new(&buf).clone(start as u16);
    let back = match Record::read(&mut dec) {
        Ok(r) => r,
        Err(e) => vfail!("wire-record-unreadable", "{label} record {} -> {} emitted at offset {start} does not decode: {e}", c.owner.show(), c.name.show()),
    };
    let got: Vec<Name> = match &back.data {
        RData::NS(x) => vec![x.0.clone()],
        RData::CNAME(x) => vec![x.0.clone()],
        RData::PTR(x) => vec![x.0.clone()],
        RData::MX(x) => vec![x.exchange.clone()],
        RData::SOA(x) => vec![x.mname.clone(), x.rname.clone()],
        RData::SRV(x) => vec![x.target.clone()],
        RData::NAPTR(x) => vec![x.replacement.clone()],
        RData::ANAME(x) => vec![x.0.clone()],
        other => vfail!("wire-record-changed-type", "{label} record decoded as {}", other.record_type()),
    };
    let want: Vec<&MName> = if c.kind == 4 { vec![&c.name, &c.name2] } else { vec![&c.name] };
    vensure!(got.len() == want.len(), "harness", "field count");
    let owner_back = MName::from_name(&back.name);
    vensure!(owner_back.labels == c.owner.labels, "wire-roundtrip-changed-name", "owner of a {label} record: emitted {} at offset {start}, decoded {}", c.owner.show(), owner_back.show());
    for (g, w) in got.iter().zip(&want) {
        let gm = MName::from_name(g);
        vensure!(
            gm.labels == w.labels,
            "wire-roundtrip-changed-rdata-name",
            "name inside {label} RDATA (record at offset {start}{}): emitted {}, decoded {}",
            if c.twice { ", second of two equal records" } else { "" },
            w.show(),
            gm.show()
        );
        check_limits(g, "from-wire-rdata")?;
    }
    rec.class(format!("rdata:{label}"));
    if want.iter().any(|w| w.labels.iter().any(|l| l.iter().any(|b| b.is_ascii_uppercase()))) {
        rec.class("rdata-name:has-upper-case");
        rec.nontrivial();
        if rec.wants_note() {
            rec.note(format!("{label} {} -> {}", c.owner.show(), c.name.show()));
        }
    }
    Ok(())
}

// ---------------------------------------------------------------------------------------------
// constructor programs

#[derive(Clone, Debug, Serialize, Deserialize)]
enum Op {
    AppendLabel(#[serde(with = "crate::core::hexser")] Vec<u8>),
    PrependLabel(#[serde(with = "crate::core::hexser")] Vec<u8>),
    AppendLabelStr(String),
    PrependLabelStr(String),
    AppendName(MName),
    AppendDomain(MName),
    IntoWildcard,
    TrimTo(usize),
    BaseName,
    ToLowercase,
    ParseWithOrigin(String),
    FromAscii(String),
    FromUtf8(String),
    FromStrRelaxed(String),
    WireRoundTrip,
    AppendSelf,
}

fn raw_label_maybe_bad() -> impl Strategy<Value = Vec<u8>> {
    prop_oneof![
        6 => names::label(),
        1 => Just(vec![]),
        1 => vec(any::<u8>(), 64..=70),
        1 => vec(any::<u8>(), 60..=63),
    ]
}

fn text_name() -> impl Strategy<Value = String> {
    prop_oneof![
        4 => names::host_name().prop_map(|m| m.to_name().to_ascii()),
        2 => "[a-z0-9.\\\\*_-]{0,40}",
        1 => "([a-z]{1,63}\\.){0,6}",
        1 => "[a-z]{60,70}(\\.[a-z]{60,70}){0,4}\\.?",
        1 => "(\\\\[0-9]{3}|[a-z.]){0,80}",
        1 => "([a-z]\\.){100,140}",
    ]
}

fn op() -> impl Strategy<Value = Op> {
    prop_oneof![
        3 => raw_label_maybe_bad().prop_map(Op::AppendLabel),
        3 => raw_label_maybe_bad().prop_map(Op::PrependLabel),
        1 => "[a-zA-Z0-9_*-]{0,66}".prop_map(Op::AppendLabelStr),
        1 => "[a-zA-Z0-9_*-]{0,66}".prop_map(Op::PrependLabelStr),
        3 => names::any_name().prop_map(Op::AppendName),
        2 => names::any_name().prop_map(Op::AppendDomain),
        1 => Just(Op::IntoWildcard),
        1 => (0usize..130).prop_map(Op::TrimTo),
        1 => Just(Op::BaseName),
        1 => Just(Op::ToLowercase),
        2 => text_name().prop_map(Op::ParseWithOrigin),
        1 => text_name().prop_map(Op::FromAscii),
        1 => text_name().prop_map(Op::FromUtf8),
        1 => text_name().prop_map(Op::FromStrRelaxed),
        1 => Just(Op::WireRoundTrip),
        2 => Just(Op::AppendSelf),
    ]
}

#[derive(Clone, Debug, Serialize, Deserialize)]
struct Program {
    start: MName,
    ops: Vec<Op>,
}

fn program() -> impl Strategy<Value = Program> {
    (names::any_name(), vec(op(), 1..10)).prop_map(|(start, ops)| Program { start, ops })
}

fn program_body(p: &Program, rec: &mut crate::core::Rec) -> crate::core::CaseResult {
    let mut cur = p.start.to_name();
    let mut near_limit = false;
    let mut rejected = 0;
    for (i, op) in p.ops.iter().enumerate() {
        let before = MName::from_name(&cur);
        let res: Result<Name, String> = match op {
            Op::AppendLabel(l) => cur.clone().append_label(l.as_slice()).map_err(|e| e.to_string()),
            Op::PrependLabel(l) => cur.prepend_label(l.as_slice()).map_err(|e| e.to_string()),
            Op::AppendLabelStr(s) => cur.clone().append_label(s.as_str()).map_err(|e| e.to_string()),
            Op::PrependLabelStr(s) => cur.prepend_label(s.as_str()).map_err(|e| e.to_string()),
            Op::AppendName(n) => cur.clone().append_name(&n.to_name()).map_err(|e| e.to_string()),
            Op::AppendDomain(n) => cur.clone().append_domain(&n.to_name()).map_err(|e| e.to_string()),
            Op::IntoWildcard => Ok(cur.clone().into_wildcard()),
            Op::TrimTo(n) => Ok(cur.trim_to(*n)),
            Op::BaseName => Ok(cur.base_name()),
            Op::ToLowercase => Ok(cur.to_lowercase()),
            Op::ParseWithOrigin(s) => Name::parse(s, Some(&cur)).map_err(|e| e.to_string()),
            Op::FromAscii(s) => Name::from_ascii(s).map_err(|e| e.to_string()),
            Op::FromUtf8(s) => Name::from_utf8(s).map_err(|e| e.to_string()),
            Op::FromStrRelaxed(s) => Name::from_str_relaxed(s).map_err(|e| e.to_string()),
            Op::AppendSelf => cur.clone().append_name(&cur).map_err(|e| e.to_string()),
            Op::WireRoundTrip => {
                let mut buf = Vec::new();
                let mut enc = BinEncoder::new(&mut buf);
                match cur.emit(&mut enc) {
                    Ok(()) => {
                        drop(enc);
                        let mut dec = BinDecoder::new(&buf);
                        Name::read(&mut dec).map_err(|e| e.to_string())
                    }
                    Err(e) => vfail!(
                        "constructed-name-does-not-emit",
                        "step {i}: name {} built by constructors fails to emit: {e}",
                        before.show()
                    ),
                }
            }
        };
        match res {
            Ok(n) => {
                check_limits(&n, &format!("step {i} {op:?}"))?;
                // every constructed name must be encodable (length invariant is what emit relies on)
                let mut buf = Vec::new();
                let mut enc = BinEncoder::new(&mut buf);
                if let Err(e) = n.emit(&mut enc) {
                    vfail!(
                        "constructed-name-does-not-emit",
                        "step {i} {op:?}: result {} fails to emit: {e}",
                        MName::from_name(&n).show()
                    );
                }
                // exact semantics of the raw-label combinators against the model
                let after = MName::from_name(&n);
                match op {
                    Op::AppendLabel(l) => {
                        let mut exp = before.labels.clone();
                        exp.push(l.clone());
                        vensure!(after.labels == exp, "append-label-wrong", "step {i}: {} + {:?} gave {}", before.show(), l, after.show());
                    }
                    Op::PrependLabel(l) => {
                        let mut exp = vec![l.clone()];
                        exp.extend(before.labels.clone());
                        vensure!(after.labels == exp, "prepend-label-wrong", "step {i}: {:?} + {} gave {}", l, before.show(), after.show());
                    }
                    Op::AppendName(o) | Op::AppendDomain(o) => {
                        let mut exp = before.labels.clone();
                        exp.extend(o.labels.clone());
                        vensure!(after.labels == exp, "append-name-wrong", "step {i}: {} + {} gave {}", before.show(), o.show(), after.show());
                    }
                    Op::WireRoundTrip => {
                        vensure!(after.labels == before.labels, "wire-roundtrip-changed-name", "step {i}: {} -> {}", before.show(), after.show());
                    }
                    Op::ToLowercase => {
                        vensure!(after.labels == canon::lower(&before.labels), "to-lowercase-wrong", "step {i}: {} -> {}", before.show(), after.show());
                    }
                    _ => {}
                }
                if after.wire_len() >= 250 || after.labels.iter().any(|l| l.len() == 63) {
                    near_limit = true;
                }
                cur = n;
            }
            Err(_) => {
                rejected += 1;
                // a rejection is only justified for the raw combinators when the result would break a limit
                match op {
                    Op::AppendLabel(l) | Op::PrependLabel(l) => {
                        let ok = !l.is_empty() && l.len() <= 63 && before.wire_len() + l.len() + 1 <= 255;
                        vensure!(!ok, "valid-label-rejected", "step {i}: {op:?} on {} rejected although within limits", before.show());
                        near_limit = true;
                    }
                    Op::AppendName(o) | Op::AppendDomain(o) => {
                        let ok = before.wire_len() + o.wire_len() - 1 <= 255;
                        vensure!(!ok, "valid-append-rejected", "step {i}: {op:?} on {} rejected although within limits", before.show());
                        near_limit = true;
                    }
                    Op::AppendSelf => {
                        let ok = before.wire_len() * 2 - 1 <= 255;
                        vensure!(!ok, "valid-append-rejected", "step {i}: self-append on {} rejected although within limits", before.show());
                        near_limit = true;
                    }
                    _ => {}
                }
            }
        }
    }
    rec.class(if near_limit { "reached-limit" } else { "below-limit" });
    rec.class(format!("rejections={}", rejected.min(3)));
    if near_limit {
        rec.nontrivial();
        if rec.wants_note() {
            rec.note(format!("start {} ops {:?}", p.start.show(), p.ops));
        }
    }
    Ok(())
}

// ---------------------------------------------------------------------------------------------

pub fn check() -> Option<Check> {
    let eq_hash = prop(
        "eq_hash",
        60_000,
        2_000_000,
        |_| names::related_pair(),
        |c: &NamePair, rec| {
            let (a, b) = (c.a.to_name(), c.b.to_name());
            let ref_eq = c.a.fqdn == c.b.fqdn && canon::name_eq(&c.a.labels, &c.b.labels);
            let got = a == b;
            vensure!(
                got == ref_eq,
                if got { "eq-too-coarse" } else { "eq-too-fine" },
                "{} == {} is {got}, reference says {ref_eq}",
                c.a.show(),
                c.b.show()
            );
            vensure!((b == a) == got, "eq-not-symmetric", "{} vs {}", c.a.show(), c.b.show());
            if got {
                vensure!(h1(&a) == h1(&b) && h2(&a) == h2(&b), "equal-names-hash-differently", "{} vs {}", c.a.show(), c.b.show());
            }
            // consistency of Ord with Eq, also across mixed FQDN flags
            let ord = a.cmp(&b);
            vensure!(
                (ord == Ordering::Equal) == got,
                "ord-eq-inconsistent",
                "{}.cmp({}) = {ord:?} but == is {got}",
                c.a.show(),
                c.b.show()
            );
            vensure!(b.cmp(&a) == ord.reverse(), "ord-not-antisymmetric", "{} vs {}", c.a.show(), c.b.show());
            // the lower-cased wrapper types must agree
            let (la, lb) = (LowerName::new(&a), LowerName::new(&b));
            vensure!((la == lb) == got, "lowername-eq-disagrees", "{} vs {}", c.a.show(), c.b.show());
            if got {
                vensure!(h1(&la) == h1(&lb), "lowername-hash-disagrees", "{} vs {}", c.a.show(), c.b.show());
            }
            vensure!(
                (la.cmp(&lb) == Ordering::Equal) == got,
                "lowername-ord-eq-inconsistent",
                "{} vs {}",
                c.a.show(),
                c.b.show()
            );
            let same_octets = c.a.labels == c.b.labels;
            let eq_mod_case = canon::name_eq(&c.a.labels, &c.b.labels);
            rec.class(if same_octets {
                "identical-labels"
            } else if eq_mod_case {
                "equal-mod-case"
            } else if canon::lower(&c.a.labels).concat() == canon::lower(&c.b.labels).concat() {
                "same-octets-different-label-boundaries"
            } else {
                "different"
            });
            let one_octet = c.a.labels.len() == c.b.labels.len()
                && c.a.labels.iter().zip(&c.b.labels).all(|(x, y)| x.len() == y.len())
                && c.a.labels.concat().iter().zip(c.b.labels.concat().iter()).filter(|(x, y)| x != y).count() == 1;
            if (eq_mod_case && !same_octets) || one_octet || is_boundary(&c.a) || c.a.fqdn != c.b.fqdn {
                rec.nontrivial();
                if rec.wants_note() {
                    rec.note(format!("{} vs {} -> eq={got}", c.a.show(), c.b.show()));
                }
            }
            Ok(())
        },
    );

    let order_pairs = prop(
        "order_pairs",
        60_000,
        2_000_000,
        |_| names::related_fq_pair(),
        |c: &NamePair, rec| {
            let (a, b) = (c.a.to_name(), c.b.to_name());
            let exp = canon::name_cmp(&c.a.labels, &c.b.labels);
            let got = a.cmp(&b);
            vensure!(
                got == exp,
                "order-differs-from-rfc4034",
                "{}.cmp({}) = {got:?}, RFC 4034 §6.1 says {exp:?}",
                c.a.show(),
                c.b.show()
            );
            vensure!(a.partial_cmp(&b) == Some(got), "partial-cmp-disagrees", "{} vs {}", c.a.show(), c.b.show());
            let (la, lb) = (LowerName::new(&a), LowerName::new(&b));
            vensure!(la.cmp(&lb) == exp, "lowername-order-differs", "{} vs {}", c.a.show(), c.b.show());
            // first difference in a non-final (not rightmost) label, or a prefix relation
            let n = c.a.labels.len().min(c.b.labels.len());
            let first_diff_from_right = (0..n).find(|i| {
                !canon::label_eq(&c.a.labels[c.a.labels.len() - 1 - i], &c.b.labels[c.b.labels.len() - 1 - i])
            });
            rec.class(match (exp, first_diff_from_right) {
                (Ordering::Equal, _) => "equal",
                (_, None) => "proper-ancestor",
                (_, Some(0)) => "differ-in-rightmost-label",
                (_, Some(_)) => "differ-in-inner-label",
            });
            if matches!(first_diff_from_right, Some(i) if i > 0)
                || (first_diff_from_right.is_none() && exp != Ordering::Equal)
                || is_boundary(&c.a)
            {
                rec.nontrivial();
                if rec.wants_note() {
                    rec.note(format!("{} vs {} -> {got:?}", c.a.show(), c.b.show()));
                }
            }
            Ok(())
        },
    );

    let order_sort = prop(
        "order_sort",
        8_000,
        300_000,
        |_| names::related_fq_pool(12),
        |pool: &Vec<MName>, rec| {
            let mut hk: Vec<Name> = pool.iter().map(|m| m.to_name()).collect();
            hk.sort();
            let mut rf: Vec<&MName> = pool.iter().collect();
            rf.sort_by(|x, y| canon::name_cmp(&x.labels, &y.labels));
            let got: Vec<Vec<Vec<u8>>> = hk.iter().map(|n| canon::lower(&MName::from_name(n).labels)).collect();
            let exp: Vec<Vec<Vec<u8>>> = rf.iter().map(|m| canon::lower(&m.labels)).collect();
            vensure!(
                got == exp,
                "sort-differs-from-rfc4034",
                "sorted {:?}, reference {:?}",
                hk.iter().map(|n| MName::from_name(n).show()).collect::<Vec<_>>(),
                rf.iter().map(|m| m.show()).collect::<Vec<_>>()
            );
            // BTreeSet / dedup view: number of distinct names must agree
            let distinct_ref = {
                let mut v = exp.clone();
                v.dedup();
                v.len()
            };
            let set: std::collections::BTreeSet<Name> = hk.iter().cloned().collect();
            let hset: std::collections::HashSet<Name> = hk.iter().cloned().collect();
            vensure!(set.len() == distinct_ref, "btreeset-distinct-count", "BTreeSet has {} names, reference {}", set.len(), distinct_ref);
            vensure!(hset.len() == distinct_ref, "hashset-distinct-count", "HashSet has {} names, reference {}", hset.len(), distinct_ref);
            if pool.len() >= 4 {
                rec.nontrivial();
                if rec.wants_note() {
                    rec.note(format!("sort {:?}", pool.iter().map(|m| m.show()).collect::<Vec<_>>()));
                }
            }
            Ok(())
        },
    );

    let order_triples = prop(
        "order_triples",
        40_000,
        1_000_000,
        |_| names::related_fq_triple(),
        |t: &NameTriple, rec| {
            let (a, b, c) = (t.a.to_name(), t.b.to_name(), t.c.to_name());
            let mut v = [(&a, &t.a), (&b, &t.b), (&c, &t.c)];
            // transitivity: order by hickory pairwise results and check the chain is consistent
            v.sort_by(|x, y| x.0.cmp(y.0));
            vensure!(
                v[0].0.cmp(v[1].0) != Ordering::Greater && v[1].0.cmp(v[2].0) != Ordering::Greater && v[0].0.cmp(v[2].0) != Ordering::Greater,
                "order-not-transitive",
                "{} / {} / {}",
                t.a.show(),
                t.b.show(),
                t.c.show()
            );
            if a == b && b == c {
                vensure!(a == c, "eq-not-transitive", "{} / {} / {}", t.a.show(), t.b.show(), t.c.show());
            }
            if a == b {
                vensure!(a.cmp(&c) == b.cmp(&c), "equal-names-order-differently", "{} / {} / {}", t.a.show(), t.b.show(), t.c.show());
            }
            let exp = (canon::name_cmp(&t.a.labels, &t.b.labels), canon::name_cmp(&t.b.labels, &t.c.labels), canon::name_cmp(&t.a.labels, &t.c.labels));
            vensure!(
                (a.cmp(&b), b.cmp(&c), a.cmp(&c)) == exp,
                "order-differs-from-rfc4034",
                "{} / {} / {}",
                t.a.show(),
                t.b.show(),
                t.c.show()
            );
            if exp.0 != Ordering::Equal || exp.1 != Ordering::Equal {
                rec.nontrivial();
            }
            Ok(())
        },
    );

    let wire = prop("wire_roundtrip", 60_000, 2_000_000, |_| wire_case(), wire_body);
    let wire_many = prop("wire_many_names", 6_000, 200_000, |_| many_case(), many_body);
    let wire_rdata = prop("wire_rdata_names", 60_000, 2_000_000, |_| rdata_name_case(), rdata_name_body);

    let text = prop(
        "text_roundtrip",
        60_000,
        2_000_000,
        |_| names::host_name(),
        |m: &MName, rec| {
            let n = m.to_name();
            let s = n.to_ascii();
            let back = match Name::from_ascii(&s) {
                Ok(b) => b,
                Err(e) => vfail!("host-name-text-unparseable", "{} formats as {s:?} which does not parse: {e}", m.show()),
            };
            let bm = MName::from_name(&back);
            vensure!(
                bm.labels == m.labels && back.is_fqdn() == m.fqdn,
                "host-name-text-roundtrip-changed",
                "{} -> {s:?} -> {}",
                m.show(),
                bm.show()
            );
            check_limits(&back, "from_ascii")?;
            // Display / FromStr use the UTF-8 path, which may lower-case (DNS-equal): equality only
            let disp = n.to_string();
            match disp.parse::<Name>() {
                Ok(b2) => vensure!(b2 == n, "display-fromstr-not-equal", "{} -> {disp:?} -> {}", m.show(), MName::from_name(&b2).show()),
                Err(e) => {
                    // does every label, displayed on its own, come back? Then Display is right about each
                    // of them and it is the *combination* that the UTF-8 parse path refuses (one label
                    // turned into Unicode makes UTS-46 STD3 rules apply to its neighbours as well)
                    let each_alone = m.labels.iter().all(|l| {
                        let Ok(mut one) = Name::from_labels(vec![l.as_slice()]) else { return false };
                        one.set_fqdn(true);
                        one.to_string().parse::<Name>().is_ok_and(|b| b == one)
                    });
                    if each_alone && !disp.is_ascii() && !disp.contains('\u{FFFD}') {
                        vfail!("display-of-idn-label-beside-non-std3-label-unparseable", "{} is displayed as {disp:?}, which does not parse: {e}", m.show());
                    }
                    // the same mechanism inside ONE label: valid punycode whose basic code points include
                    // an ASCII character outside letters, digits and hyphen (xn--_0-25c -> "_0\u{523}").
                    // Display (deny list EMPTY) prints the Unicode form, the UTF-8 parse path (STD3 deny
                    // list; a leading underscore sends the label to from_ascii) refuses it. Every label
                    // that does not come back on its own must be of exactly that shape.
                    let alone = |l: &Vec<u8>| -> Option<(String, bool)> {
                        let mut one = Name::from_labels(vec![l.as_slice()]).ok()?;
                        one.set_fqdn(true);
                        let d = one.to_string();
                        let ok = d.parse::<Name>().is_ok_and(|b| b == one);
                        Some((d, ok))
                    };
                    let failing: Vec<(&Vec<u8>, String)> = m.labels.iter().filter_map(|l| alone(l).and_then(|(d, ok)| (!ok).then_some((l, d)))).collect();
                    let idn_with_non_ldh = |l: &Vec<u8>, d: &str| {
                        l.starts_with(b"xn--") && !d.is_ascii() && !d.contains('\u{FFFD}') && d.trim_end_matches('.').chars().any(|c| c.is_ascii() && !(c.is_ascii_alphanumeric() || c == '-'))
                    };
                    if !failing.is_empty() && failing.iter().all(|(l, d)| idn_with_non_ldh(l, d)) {
                        vfail!("display-of-idn-label-with-non-ldh-ascii-unparseable", "{} is displayed as {disp:?}, which does not parse: {e}", m.show());
                    }
                    vfail!("display-output-unparseable", "{} is displayed as {disp:?}, which does not parse: {e}", m.show())
                }
            }
            if m.labels.iter().any(|l| l.starts_with(b"xn--")) {
                rec.class("label-with-ace-prefix");
            }
            let has_dot = m.labels.iter().any(|l| l.contains(&b'.'));
            let has_star = m.labels.iter().any(|l| l[0] == b'*');
            rec.class(if has_dot { "escaped-dot" } else { "plain" });
            if has_dot || has_star || is_boundary(m) || m.labels.iter().any(|l| l.iter().any(|b| b.is_ascii_uppercase())) {
                rec.nontrivial();
                if rec.wants_note() {
                    rec.note(format!("{} <-> {s:?}", m.show()));
                }
            }
            Ok(())
        },
    );

    let constructors = prop("constructors", 60_000, 2_000_000, |_| program(), program_body);

    // small-scope exhaustive: all pairs over a tiny label alphabet, all laws at once
    let small = enumerate(
        "order_small_scope",
        |_env: &Env| {
            let alphabet: Vec<Vec<u8>> = [&b"a"[..], b"A", b"b", b"*", b"\0", b"\x80", b"aa", b"a\0", b"@", b"`", b"[", b"{", b"a.b"]
                .iter()
                .map(|l| l.to_vec())
                .collect();
            let mut all: Vec<Vec<Vec<u8>>> = vec![vec![]];
            for a in &alphabet {
                all.push(vec![a.clone()]);
                for b in &alphabet {
                    all.push(vec![a.clone(), b.clone()]);
                }
            }
            let n = all.len();
            let it = (0..n * n).map(move |k| NamePair {
                a: MName::fq(all[k / n].clone()),
                b: MName::fq(all[k % n].clone()),
            });
            (Box::new(it) as Box<dyn Iterator<Item = NamePair> + Send>, true)
        },
        |c: &NamePair, rec| {
            let (a, b) = (c.a.to_name(), c.b.to_name());
            let exp = canon::name_cmp(&c.a.labels, &c.b.labels);
            vensure!(a.cmp(&b) == exp, "order-differs-from-rfc4034", "{} vs {}", c.a.show(), c.b.show());
            vensure!((a == b) == (exp == Ordering::Equal), "eq-differs-from-reference", "{} vs {}", c.a.show(), c.b.show());
            if a == b {
                vensure!(h1(&a) == h1(&b), "equal-names-hash-differently", "{} vs {}", c.a.show(), c.b.show());
            }
            if c.a.labels != c.b.labels {
                rec.nontrivial();
            }
            Ok(())
        },
    );

    Some(Check {
        id: "C04",
        level: "exploration",
        rule: "names: 0..127 labels of arbitrary octets (class mix: LDH, _srv, *, octets around the letter ranges, 0x00/0x80-0xFF, 63-octet labels, names packed to 250..255 wire octets, 100+ one-octet labels); pairs/triples derived by case flips, bit-5 flips of non-letters, one-octet edits, label insert/drop/split/merge, shared suffixes. Non-trivial = distinct case AND (equal-mod-case but not identical, or exactly one differing octet, or mixed FQDN flags, or first difference in a non-rightmost label / ancestor relation, or a length-boundary name, or the wire form used a compression pointer or lies at/after offset 0x3FFF, or a constructor program reached a length limit). wire_many_names: 40-320 names (a pool of related names, most with a fresh leading label, letter case chosen per name) written into ONE encoder, with compression on for all or all but every 6th-9th, optionally after 16 KB of padding; each must read back with its own octets at its own offset; non-trivial = more than 64 names with compression on and at least one pointer. wire_rdata_names: a name inside the RDATA of NS, CNAME, PTR, MX, SOA (both), SRV, NAPTR or ANAME, in a record written the ordinary way at some message offset, alone or after an equal record; owner and RDATA names must read back with their own octets; non-trivial = an RDATA name with an upper-case letter",
        assumptions: vec![
            "text clause asserted only for the alphabet the statement names (letters, digits, hyphen not leading, underscore, escaped dot, leading asterisk); it is asserted for both text forms: to_ascii()/from_ascii() must give back the identical name, Display/FromStr (which turns valid ACE labels into Unicode and may lower-case) must parse and give an equal name",
            "hash consistency checked with two fixed hashers",
        ],
        subs: vec![eq_hash, order_pairs, order_sort, order_triples, wire, wire_many, wire_rdata, text, constructors, small],
    })
}
