//! C13 — Updates and signed-only transfers require a valid, timely TSIG.
//!
//! Base requests (UPDATE; AXFR under AxfrPolicy::{Deny, AllowAll, AllowSigned}) are built and
//! signed by hickory's *client* side (`Message::finalize` with a `TSigner`), mutated at the octet
//! level, and fed through the server's real front door (`VerifFrontDoor` -> `Catalog` ->
//! `SqliteZoneHandler`) with the server clock set through the interposed `clock_gettime`.
//!
//! Oracle (`refm::tsig_ref`, RFC 8945 §4.3 / §5.2 from the *received* octets, own splitter, HMAC
//! via ring): authorised_ref = the message ends with exactly one TSIG RR naming a configured key
//! (name + algorithm) whose full-length MAC verifies and |now − Time Signed| ≤ Fudge.
//!   soundness    zone changed (content or serial) ⇒ the received message is an UPDATE request ∧
//!                authorised_ref; an AXFR question answered with zone RRs ⇒ policy AllowAll ∨
//!                (AllowSigned ∧ authorised_ref); never under Deny.
//!   completeness unmodified request, configured unambiguous key, |now − t| ≤ fudge ⇒ the effect
//!                happens, the reply's TSIG is the RFC 8945 §5.3 response MAC (recomputed by
//!                tsig_ref) and hickory's `TSigVerifier` accepts it, and every single-bit flip of
//!                the reply is rejected by the verifier unless the flipped octet is, by RFC 8945, not
//!                covered by the MAC (header ID — original-ID substitution —, TSIG CLASS/TTL, case
//!                of the key name): tsig_ref decides that, too.

use futures_executor::block_on;
use futures_util::{FutureExt, StreamExt};
use hickory_net::xfer::Protocol;
use hickory_net::BufDnsStreamHandle;
use hickory_proto::op::{Edns, Message, MessageType, OpCode, Query};
use hickory_proto::rr::rdata::A;
use hickory_proto::rr::{DNSClass, RData, Record, RecordType};
use hickory_server::server::VerifFrontDoor;
use hickory_server::zone_handler::{AxfrPolicy, Catalog, ZoneHandler};
use proptest::prelude::*;
use serde::{Deserialize, Serialize};
use std::sync::Arc;

use crate::clock::VirtualClock;
use crate::core::{catch, enumerate, panic_fail, prop, CaseResult, Check, Env, Fail, Rec, Tier};
use crate::gen::update_driver::*;
use crate::gen::updates;
use crate::refm::canon;
use crate::refm::tsig_ref::{self, Alg, AuthRef, Key, Tsig};
use crate::refm::update_ref::*;

#[derive(Clone, Copy, Debug, PartialEq, Eq, Hash, Serialize, Deserialize)]
pub enum Kind {
    Update,
    UpdateWithPrereq,
    AxfrDeny,
    AxfrAllowAll,
    AxfrAllowSigned,
}

impl Kind {
    fn is_update(self) -> bool {
        matches!(self, Kind::Update | Kind::UpdateWithPrereq)
    }
    fn policy(self) -> AxfrPolicy {
        match self {
            Kind::AxfrAllowAll => AxfrPolicy::AllowAll,
            Kind::AxfrAllowSigned => AxfrPolicy::AllowSigned,
            _ => AxfrPolicy::Deny,
        }
    }
}

#[derive(Clone, Copy, Debug, PartialEq, Eq, Hash, Serialize, Deserialize)]
pub enum KeySet {
    /// server has no key
    Zero,
    One,
    TwoUseFirst,
    TwoUseSecond,
    /// server has (k1, s1); client signs with (k1, other secret)
    SameNameOtherSecret,
    /// server has (k1, s1) and (k1, sx) in that order; client signs with (k1, sx)
    SameNameBothConfigured,
    /// server has (k1, s1); client signs with (k3, s1)
    OtherNameSameSecret,
    /// server has (k1, s1, alg); client signs with (k1, s1, another algorithm)
    OtherAlgorithm,
}

#[derive(Clone, Copy, Debug, PartialEq, Eq, Hash, Serialize, Deserialize)]
pub enum Clock {
    BeforeWindow,
    LowerEdge,
    Exact,
    Inside(i16),
    UpperEdge,
    AfterWindow,
    FarFuture,
    FarPast,
}

#[derive(Clone, Debug, PartialEq, Eq, Hash, Serialize, Deserialize)]
pub enum Field {
    KeyName(u8),
    AlgName(u8),
    Time(i64),
    TimeAbs(u64),
    Fudge(u16),
    MacLen(u16),
    MacExtend(u8),
    MacFlip(u16),
    OrigId(u16),
    Error(u16),
    Other(#[serde(with = "crate::core::hexser")] Vec<u8>),
    Class(u16),
    Ttl(u32),
}

#[derive(Clone, Debug, PartialEq, Eq, Hash, Serialize, Deserialize)]
pub enum Mutation {
    None,
    BitFlip(u32),
    ByteSet(u32, u8),
    /// header count `which` (0 = QD .. 3 = AR) set to `value`
    CountSet(u8, u16),
    /// move one record across a section boundary: count[which] -= 1, count[which + 1] += 1 (or back)
    CountShift(u8, bool),
    /// edit one TSIG field (re-encoded by tsig_ref); `resign` recomputes the MAC with the client key
    Tsig(Field, bool),
    TsigRemoved { fix_count: bool },
    TsigDuplicated,
    /// another RR (0 = A record, 1 = OPT) follows the TSIG RR
    TsigNotLast(u8),
    Trailing(u8),
    HeaderId(u16),
    /// drop the hickory client signature and sign again with the reference signer
    ResignedByReference,
}

#[derive(Clone, Debug, Serialize, Deserialize)]
pub struct Case {
    pub kind: Kind,
    pub keyset: KeySet,
    pub alg: Alg,
    pub t: u64,
    pub fudge: u16,
    pub clock: Clock,
    pub mutation: Mutation,
    pub id: u16,
    pub edns: bool,
    /// header flags set on the request before it is signed: bit 0 RD, bit 1 CD, bit 2 AD
    #[serde(default)]
    pub flags: u8,
    /// replay aid: flip only this bit of the reply instead of sweeping all of them
    #[serde(default)]
    pub reply_bit: Option<u32>,
    /// how the server's zone handler comes into being
    #[serde(default)]
    pub boot: Boot,
}

#[derive(Clone, Copy, Debug, Default, PartialEq, Eq, Serialize, Deserialize)]
pub enum Boot {
    /// `SqliteZoneHandler::new` + `set_tsig_signers` (what the bulk of the cases use)
    #[default]
    Direct,
    /// `SqliteZoneHandler::try_from_config` as the server binary does: zone file, journal file and
    /// TSIG key files in a scratch directory; first start (journal created from the zone file)
    Config,
    /// the same, then the handler is dropped and configured again: the journal exists now and the
    /// zone is recovered from it
    ConfigRestart,
}

const ZONE_FILE: &str = "$ORIGIN zone.test.\n@ 300 IN SOA ns1.zone.test. admin.zone.test. 41 3600 600 86400 60\n@ 300 IN NS ns1.zone.test.\na 300 IN A 192.0.2.1\nb 300 IN TXT \"x\"\n";

/// the handler configured the way `hickory-dns` configures a sqlite zone from its TOML
fn boot_from_config(policy: AxfrPolicy, server_keys: &[Key], fudge: u16, restart: bool) -> Result<(Handler, tempfile::TempDir), Fail> {
    use hickory_proto::rr::rdata::tsig::TsigAlgorithm;
    use hickory_server::store::sqlite::{SqliteConfig, TsigKeyConfig};
    let init = |e: String| Fail::new("harness-init", e);
    let dir = if std::path::Path::new("/dev/shm").is_dir() {
        tempfile::Builder::new().prefix("vcheck-c13-").tempdir_in("/dev/shm")
    } else {
        tempfile::Builder::new().prefix("vcheck-c13-").tempdir()
    }
    .map_err(|e| init(e.to_string()))?;
    std::fs::write(dir.path().join("zone.test.zone"), ZONE_FILE).map_err(|e| init(e.to_string()))?;
    let mut tsig_keys = Vec::new();
    for (i, k) in server_keys.iter().enumerate() {
        let f = format!("key{i}.bin");
        std::fs::write(dir.path().join(&f), &k.secret).map_err(|e| init(e.to_string()))?;
        tsig_keys.push(TsigKeyConfig {
            name: to_name(&k.name).to_ascii(),
            key_file: f.into(),
            algorithm: match k.alg {
                Alg::Sha256 => TsigAlgorithm::HmacSha256,
                Alg::Sha384 => TsigAlgorithm::HmacSha384,
                Alg::Sha512 => TsigAlgorithm::HmacSha512,
            },
            fudge,
        });
    }
    let config = SqliteConfig {
        zone_path: "zone.test.zone".into(),
        journal_path: "zone.test.jrnl".into(),
        allow_update: true,
        tsig_keys,
    };
    let start = || {
        block_on(Handler::try_from_config(
            to_name(&updates::origin()),
            hickory_server::zone_handler::ZoneType::Primary,
            policy,
            false,
            Some(dir.path()),
            &config,
            None,
        ))
        .map_err(|e| Fail::new("server-configuration-refused", e))
    };
    let mut h = start()?;
    if restart {
        drop(h);
        h = start()?;
    }
    Ok((h, dir))
}

fn k(name: &str, secret: &[u8], alg: Alg) -> Key {
    Key {
        name: labels_of(name),
        secret: secret.to_vec(),
        alg,
    }
}

const S1: &[u8] = b"secret-one-secret-one-secret-one";
const S2: &[u8] = b"secret-two-secret-two-secret-two";
const SX: &[u8] = b"secret-xxx-secret-xxx-secret-xxx";

fn other_alg(a: Alg) -> Alg {
    match a {
        Alg::Sha256 => Alg::Sha512,
        Alg::Sha384 => Alg::Sha256,
        Alg::Sha512 => Alg::Sha384,
    }
}

/// (server keys, client key, the client key is configured and its name unambiguous)
fn keys(ks: KeySet, alg: Alg) -> (Vec<Key>, Key, bool) {
    let k1 = k("k1.keys.test.", S1, alg);
    let k2 = k("K2.keys.test.", S2, alg);
    let k1x = k("k1.keys.test.", SX, alg);
    let k3 = k("k3.keys.test.", S1, alg);
    match ks {
        KeySet::Zero => (vec![], k1, false),
        KeySet::One => (vec![k1.clone()], k1, true),
        KeySet::TwoUseFirst => (vec![k1.clone(), k2], k1, true),
        KeySet::TwoUseSecond => (vec![k1, k2.clone()], k2, true),
        KeySet::SameNameOtherSecret => (vec![k1], k1x, false),
        KeySet::SameNameBothConfigured => (vec![k1, k1x.clone()], k1x, false),
        KeySet::OtherNameSameSecret => (vec![k1], k3, false),
        KeySet::OtherAlgorithm => (vec![k1], k("k1.keys.test.", S1, other_alg(alg)), false),
    }
}

fn base_zone() -> Zone {
    let o = updates::origin();
    let mut z = Zone::new(&o);
    z.insert(&o, T_SOA, 300, &soa_rdata(&labels_of("ns1.zone.test."), &labels_of("admin.zone.test."), 41, 3600, 600, 86400, 60));
    z.insert(&o, T_NS, 300, &updates::rdata_for(T_NS, 0));
    z.insert(&labels_of("a.zone.test."), T_A, 300, &updates::rdata_for(T_A, 0));
    z.insert(&labels_of("b.zone.test."), T_TXT, 300, &updates::rdata_for(T_TXT, 0));
    z
}

/// the request as hickory's client library builds and signs it
fn base_request(c: &Case, client: &Key) -> Result<(Vec<u8>, hickory_proto::rr::TSigVerifier), Fail> {
    let origin = to_name(&updates::origin());
    let mut m = if c.kind.is_update() {
        let mut m = Message::new(c.id, MessageType::Query, OpCode::Update);
        let mut q = Query::new(origin, RecordType::SOA);
        q.set_query_class(DNSClass::IN);
        m.add_query(q);
        if c.kind == Kind::UpdateWithPrereq {
            // "RRset exists (value independent)": a.zone.test. A
            let mut r = Record::update0(name_from_str("a.zone.test."), 0, RecordType::A);
            r.dns_class = DNSClass::ANY;
            m.add_answer(r);
        }
        m.add_authority(Record::from_rdata(name_from_str("new.zone.test."), 300, RData::A(A::new(192, 0, 2, 77))));
        m
    } else {
        let mut m = Message::new(c.id, MessageType::Query, OpCode::Query);
        m.add_query(Query::new(origin, RecordType::AXFR));
        m
    };
    if c.edns {
        let mut e = Edns::new();
        e.set_max_payload(1232);
        m.set_edns(e);
    }
    m.metadata.recursion_desired = c.flags & 1 != 0;
    m.metadata.checking_disabled = c.flags & 2 != 0;
    m.metadata.authentic_data = c.flags & 4 != 0;
    let signer = hickory_signer(client, c.fudge);
    let verifier = m
        .finalize(&signer, c.t)
        .map_err(|e| Fail::new("client-signer-failed", e.to_string()))?
        .ok_or_else(|| Fail::new("client-signer-failed", "finalize returned no verifier"))?;
    let bytes = m.to_vec().map_err(|e| Fail::new("client-encode-failed", e.to_string()))?;
    Ok((bytes, verifier))
}

fn edit_tsig(t: &mut Tsig, f: &Field) {
    match f {
        Field::KeyName(v) => {
            t.key_name = match v % 4 {
                0 => labels_of("k3.keys.test."),
                1 => {
                    // case variant of the same name
                    let mut n = t.key_name.clone();
                    n[0] = n[0].iter().map(|b| b.to_ascii_uppercase()).collect();
                    n
                }
                2 => labels_of("K2.keys.test."),
                _ => vec![],
            }
        }
        Field::AlgName(v) => {
            t.alg_name = match v % 4 {
                0 => Alg::Sha256.name(),
                1 => Alg::Sha512.name(),
                2 => vec![b"HMAC-SHA384".to_vec()],
                _ => labels_of("hmac-md5.sig-alg.reg.int."),
            }
        }
        Field::Time(d) => t.time = (t.time as i64).saturating_add(*d).clamp(0, (1i64 << 48) - 1) as u64,
        Field::TimeAbs(v) => t.time = *v & ((1u64 << 48) - 1),
        Field::Fudge(v) => t.fudge = *v,
        Field::MacLen(n) => t.mac.truncate(*n as usize),
        Field::MacExtend(n) => t.mac.extend(std::iter::repeat(0xA5).take(1 + (*n % 4) as usize)),
        Field::MacFlip(p) => {
            if !t.mac.is_empty() {
                let i = *p as usize % (t.mac.len() * 8);
                t.mac[i / 8] ^= 1 << (i % 8);
            }
        }
        Field::OrigId(v) => t.orig_id = *v,
        Field::Error(v) => t.error = *v,
        Field::Other(o) => t.other = o.clone(),
        Field::Class(v) => t.class = *v,
        Field::Ttl(v) => t.ttl = *v,
    }
}

fn mutate(base: &[u8], m: &Mutation, client: &Key, c: &Case) -> Option<Vec<u8>> {
    let mut b = base.to_vec();
    match m {
        Mutation::None => {}
        Mutation::BitFlip(p) => {
            let i = *p as usize % (b.len() * 8);
            b[i / 8] ^= 1 << (7 - i % 8);
        }
        Mutation::ByteSet(p, v) => {
            let i = *p as usize % b.len();
            if b[i] == *v {
                b[i] = v.wrapping_add(1);
            } else {
                b[i] = *v;
            }
        }
        Mutation::CountSet(w, v) => {
            let o = 4 + 2 * (*w as usize % 4);
            if u16::from_be_bytes([b[o], b[o + 1]]) == *v {
                return None;
            }
            b[o..o + 2].copy_from_slice(&v.to_be_bytes());
        }
        Mutation::CountShift(w, fwd) => {
            let a = 4 + 2 * (*w as usize % 3);
            let (from, to) = if *fwd { (a, a + 2) } else { (a + 2, a) };
            let f = u16::from_be_bytes([b[from], b[from + 1]]);
            let t = u16::from_be_bytes([b[to], b[to + 1]]);
            if f == 0 {
                return None;
            }
            b[from..from + 2].copy_from_slice(&(f - 1).to_be_bytes());
            b[to..to + 2].copy_from_slice(&(t + 1).to_be_bytes());
        }
        Mutation::Tsig(f, resign) => {
            let (unsigned, mut t) = tsig_ref::split_signed(base)?;
            let before = t.clone();
            edit_tsig(&mut t, f);
            if *resign {
                // the client key with whatever algorithm name the TSIG now carries (if it is one we know)
                let mut key = client.clone();
                if let Some(a) = Alg::from_name(&t.alg_name) {
                    key.alg = a;
                }
                tsig_ref::resign(&unsigned, &mut t, &key);
                if matches!(f, Field::MacLen(_) | Field::MacExtend(_) | Field::MacFlip(_)) {
                    edit_tsig(&mut t, f);
                }
            }
            if t == before {
                return None;
            }
            b = tsig_ref::attach(&unsigned, &t);
        }
        Mutation::TsigRemoved { fix_count } => {
            let (unsigned, _) = tsig_ref::split_signed(base)?;
            b = unsigned;
            if !*fix_count {
                let ar = u16::from_be_bytes([b[10], b[11]]) + 1;
                b[10..12].copy_from_slice(&ar.to_be_bytes());
            }
        }
        Mutation::TsigDuplicated => {
            let (unsigned, t) = tsig_ref::split_signed(base)?;
            b = tsig_ref::attach(&tsig_ref::attach(&unsigned, &t), &t);
        }
        Mutation::TsigNotLast(what) => {
            let extra = if *what % 2 == 0 {
                URr {
                    name: labels_of("x.zone.test."),
                    rtype: T_A,
                    class: C_IN,
                    ttl: 0,
                    rdata: vec![192, 0, 2, 9],
                }
            } else {
                // OPT
                URr {
                    name: vec![],
                    rtype: 41,
                    class: 1232,
                    ttl: 0,
                    rdata: vec![],
                }
            };
            if *what % 2 == 1 && c.edns {
                return None;
            }
            let ar = u16::from_be_bytes([b[10], b[11]]) + 1;
            b[10..12].copy_from_slice(&ar.to_be_bytes());
            b.extend(extra.wire());
        }
        Mutation::Trailing(n) => b.extend(std::iter::repeat(0u8).take(1 + *n as usize % 16)),
        Mutation::HeaderId(v) => {
            if u16::from_be_bytes([b[0], b[1]]) == *v {
                return None;
            }
            b[0..2].copy_from_slice(&v.to_be_bytes());
        }
        Mutation::ResignedByReference => {
            let (unsigned, _) = tsig_ref::split_signed(base)?;
            b = tsig_ref::sign_request(&unsigned, client, c.t, c.fudge).0;
        }
    }
    Some(b)
}

fn now_of(c: &Case) -> u64 {
    let f = c.fudge as u64;
    match c.clock {
        Clock::BeforeWindow => c.t.saturating_sub(f + 1),
        Clock::LowerEdge => c.t.saturating_sub(f),
        Clock::Exact => c.t,
        Clock::Inside(d) => {
            let d = if f == 0 { 0 } else { (d as i64).rem_euclid(f as i64) };
            if d % 2 == 0 {
                c.t + (d as u64) / 2
            } else {
                c.t.saturating_sub(d as u64 / 2)
            }
        }
        Clock::UpperEdge => c.t + f,
        Clock::AfterWindow => c.t + f + 1,
        Clock::FarFuture => c.t + 10_000_000,
        Clock::FarPast => c.t.saturating_sub(10_000_000),
    }
}

struct Reply {
    bytes: Vec<u8>,
    rcode: u8,
    /// RRs in the answer section
    answers: usize,
    tsig: Option<Tsig>,
    tsig_start: usize,
}

fn split_reply(b: &[u8]) -> Result<Reply, Fail> {
    let p = tsig_ref::parse(b).map_err(|e| Fail::new("reply-unparseable", format!("{e}: {}", crate::core::hexser::to_hex(b))))?;
    let answers = p.rrs.iter().filter(|r| r.section == 0).count();
    let (tsig, tsig_start) = match p.rrs.last() {
        Some(rr) if rr.rtype == T_TSIG && rr.section == 2 => (tsig_ref::parse_tsig(b, rr).ok(), rr.start),
        _ => (None, 0),
    };
    Ok(Reply {
        bytes: b.to_vec(),
        rcode: p.flags[1] & 0x0f,
        answers,
        tsig,
        tsig_start,
    })
}

/// is this reply authentic per RFC 8945 §5.3 for a request whose MAC was `request_mac`?
fn reply_authentic_ref(b: &[u8], request_mac: &[u8], key: &Key) -> bool {
    let Ok(p) = tsig_ref::parse(b) else { return false };
    let n_tsig = p.rrs.iter().filter(|r| r.rtype == T_TSIG).count();
    let Some(rr) = p.rrs.last() else { return false };
    if n_tsig != 1 || rr.rtype != T_TSIG || rr.section != 2 {
        return false;
    }
    let Ok(t) = tsig_ref::parse_tsig(b, rr) else { return false };
    if !canon::name_eq(&t.key_name, &key.name) || !canon::name_eq(&t.alg_name, &key.alg.name()) {
        return false;
    }
    let d = tsig_ref::response_digest(request_mac, b, rr.start, &t);
    tsig_ref::mac(key.alg, &key.secret, &d) == t.mac
}

fn mutation_class(m: &Mutation) -> String {
    match m {
        Mutation::None => "none".into(),
        Mutation::BitFlip(_) => "bit-flip".into(),
        Mutation::ByteSet(..) => "byte-set".into(),
        Mutation::CountSet(..) => "count-set".into(),
        Mutation::CountShift(..) => "count-shift".into(),
        Mutation::Tsig(f, r) => format!(
            "tsig-{}{}",
            match f {
                Field::KeyName(_) => "key-name",
                Field::AlgName(_) => "algorithm",
                Field::Time(_) | Field::TimeAbs(_) => "time",
                Field::Fudge(_) => "fudge",
                Field::MacLen(_) => "mac-truncated",
                Field::MacExtend(_) => "mac-extended",
                Field::MacFlip(_) => "mac-bit",
                Field::OrigId(_) => "original-id",
                Field::Error(_) => "error",
                Field::Other(_) => "other-data",
                Field::Class(_) => "class",
                Field::Ttl(_) => "ttl",
            },
            if *r { "+resigned" } else { "" }
        ),
        Mutation::TsigRemoved { fix_count } => format!("tsig-removed(count-fixed={fix_count})"),
        Mutation::TsigDuplicated => "tsig-duplicated".into(),
        Mutation::TsigNotLast(w) => format!("tsig-not-last({})", if w % 2 == 0 { "A" } else { "OPT" }),
        Mutation::Trailing(_) => "trailing-octets".into(),
        Mutation::HeaderId(_) => "header-id".into(),
        Mutation::ResignedByReference => "signed-by-reference-signer".into(),
    }
}

/// which part of the request a positional mutation hit (own splitter over the *base* request)
fn region_of(base: &[u8], pos: usize) -> &'static str {
    if pos < 2 {
        return "header-id";
    }
    if pos < 4 {
        return "header-flags";
    }
    if pos < 12 {
        return "header-counts";
    }
    let Ok(p) = tsig_ref::parse(base) else { return "?" };
    for rr in &p.rrs {
        if pos >= rr.start && pos < rr.end {
            if rr.rtype == T_TSIG {
                let Ok(t) = tsig_ref::parse_tsig(base, rr) else { return "tsig" };
                let mac_end = rr.end - 6 - t.other.len();
                let mac_start = mac_end - t.mac.len();
                return if pos < rr.rdata_start - 10 {
                    "tsig-owner"
                } else if pos < rr.rdata_start {
                    "tsig-type-class-ttl-rdlen"
                } else if pos >= mac_start && pos < mac_end {
                    "tsig-mac"
                } else {
                    "tsig-rdata-field"
                };
            }
            return "signed-record";
        }
    }
    "question"
}

pub fn body(c: &Case, rec: &mut Rec) -> CaseResult {
    if c.t >= 1u64 << 47 {
        rec.discard("time-out-of-48-bit-range");
        return Ok(());
    }
    let (server_keys, client, unambiguous) = keys(c.keyset, c.alg);
    let (base, mut verifier) = base_request(c, &client)?;
    let Some(bytes) = mutate(&base, &c.mutation, &client, c) else {
        rec.discard("mutation-is-identity");
        return Ok(());
    };
    let now = now_of(c);

    // server
    let zone = base_zone();
    rec.class(format!("boot={:?}", c.boot));
    let (h, _scratch) = match c.boot {
        Boot::Direct => {
            let mut h = build_handler(&zone, c.kind.policy()).map_err(|e| Fail::new("harness-init", e))?;
            // both sides configure the same fudge for a key (the reply's window is the server's fudge)
            h.set_tsig_signers(server_keys.iter().map(|k| hickory_signer(k, c.fudge)).collect());
            (h, None)
        }
        Boot::Config | Boot::ConfigRestart => {
            let (h, dir) = boot_from_config(c.kind.policy(), &server_keys, c.fudge, c.boot == Boot::ConfigRestart)?;
            let loaded = snapshot(&h);
            vensure!(loaded.zone == zone, "configured-zone-differs-from-zone-file", "{:?}: {}", c.boot, zone_diff(&zone, &loaded.zone));
            (h, Some(dir))
        }
    };
    let h = Arc::new(h);
    let mut catalog = Catalog::new();
    catalog.upsert(h.origin().clone(), vec![h.clone()]);
    let fd = VerifFrontDoor::new(catalog, Vec::<ipnet::IpNet>::new(), Vec::<ipnet::IpNet>::new());
    let before = snapshot(&h);
    let (tx, mut rx) = BufDnsStreamHandle::new(src_addr());
    let outcome = {
        let _clock = VirtualClock::start(now);
        catch(|| block_on(fd.handle(bytes.clone(), src_addr(), Protocol::Tcp, tx)))
    };
    let mclass = mutation_class(&c.mutation);
    rec.class(format!("mutation={mclass}"));
    rec.class(format!("kind={:?}", c.kind));
    if c.flags != 0 {
        rec.class("request-flags:rd/cd/ad-set-before-signing");
    }
    rec.class(format!("keyset={:?}", c.keyset));
    rec.class(format!("clock={}", match c.clock {
        Clock::Inside(_) => "Inside".to_string(),
        o => format!("{o:?}"),
    }));
    rec.class(format!("alg={:?}", c.alg));
    rec.class(if c.t < c.fudge as u64 { "t<fudge" } else { "t>=fudge" });
    let pos_region = match &c.mutation {
        Mutation::BitFlip(p) => Some(region_of(&base, (*p as usize % (base.len() * 8)) / 8)),
        Mutation::ByteSet(p, _) => Some(region_of(&base, *p as usize % base.len())),
        _ => None,
    };
    if let Some(r) = pos_region {
        rec.class(format!("region={r}"));
    }
    let auth = tsig_ref::authorised_ref(&bytes, now, &server_keys);
    rec.class(format!(
        "reference={}",
        match &auth.verdict {
            AuthRef::Authorised => "authorised".to_string(),
            AuthRef::Unparseable(_) => "unparseable".to_string(),
            AuthRef::BadTsigRdata(_) => "bad-tsig-rdata".to_string(),
            o => format!("{o:?}"),
        }
    ));
    if let Err(p) = outcome {
        rec.class("panic");
        let mut f = panic_fail(&p);
        f.msg = format!("{} [request {} at server time {now}; TSIG {:?}]", f.msg, crate::core::hexser::to_hex(&bytes), auth.tsig);
        return Err(f);
    }
    let mut replies = Vec::new();
    while let Some(Some(m)) = rx.next().now_or_never() {
        replies.push(m.into_parts().0);
    }
    let after = snapshot(&h);
    let changed = after != before;
    let authorised = auth.verdict == AuthRef::Authorised;
    let received = auth.parsed.as_ref();
    let is_update_req = received.is_some_and(|p| p.opcode() == 5 && !p.is_response());
    let is_axfr_q = received.is_some_and(|p| p.opcode() == 0 && !p.is_response() && p.questions.first().is_some_and(|q| q.1 == T_AXFR));
    let hexreq = || crate::core::hexser::to_hex(&bytes);

    // ---- soundness ---------------------------------------------------------------------------
    if changed && !(authorised && is_update_req) {
        // attribute: does the MAC verify once the header's reserved Z bit is cleared?
        let mut z = bytes.clone();
        z[3] &= !0x40;
        let sig = if bytes[3] & 0x40 != 0 && tsig_ref::authorised_ref(&z, now, &server_keys).verdict == AuthRef::Authorised {
            "tsig-mac-check-ignores-header-z-bit"
        } else if auth.mac_ok && auth.verdict == AuthRef::BadTime {
            "update-applied-outside-fudge-window"
        } else {
            "update-applied-without-valid-tsig"
        };
        return Err(Fail::new(
            sig,
            format!(
                "zone changed ({}) although the reference says {:?} (mutation {mclass}, server time {now}, TSIG {:?}); request {}",
                zone_diff(&before.zone, &after.zone),
                auth.verdict,
                auth.tsig,
                hexreq()
            ),
        ));
    }
    vensure!(replies.len() <= 1, "more-than-one-reply", "{} replies", replies.len());
    let reply = match replies.first() {
        Some(b) => Some(split_reply(b)?),
        None => None,
    };
    if let Some(r) = &reply {
        rec.class(format!("reply-rcode={}", r.rcode));
        rec.class(match &r.tsig {
            Some(t) if !t.mac.is_empty() => format!("reply-tsig=signed(error={})", t.error),
            Some(t) => format!("reply-tsig=unsigned(error={})", t.error),
            None => "reply-tsig=none".to_string(),
        });
        if is_axfr_q && r.answers > 0 {
            let allowed = match c.kind.policy() {
                AxfrPolicy::AllowAll => true,
                AxfrPolicy::AllowSigned => authorised,
                _ => false,
            };
            if !allowed {
                let mut z = bytes.clone();
                z[3] &= !0x40;
                let sig = if bytes[3] & 0x40 != 0 && tsig_ref::authorised_ref(&z, now, &server_keys).verdict == AuthRef::Authorised {
                    "tsig-mac-check-ignores-header-z-bit"
                } else {
                    "zone-transferred-without-valid-tsig"
                };
                return Err(Fail::new(
                    sig,
                    format!(
                        "AXFR answered with {} RRs under {:?} although the reference says {:?} (mutation {mclass}, server time {now}); request {}",
                        r.answers,
                        c.kind.policy(),
                        auth.verdict,
                        hexreq()
                    ),
                ));
            }
        }
    } else {
        rec.class("no-reply");
    }

    // ---- completeness ------------------------------------------------------------------------
    let within = {
        let d = if now >= c.t { now - c.t } else { c.t - now };
        d <= c.fudge as u64
    };
    let mut complete_checked = false;
    let mut deferred: Vec<(String, String)> = Vec::new();
    if c.mutation == Mutation::None && unambiguous && within {
        vensure!(authorised, "reference-rejects-client-signature", "tsig_ref says {:?} for an unmodified request signed by hickory's client: {}", auth.verdict, hexreq());
        let Some(r) = &reply else {
            vfail!("no-reply-to-valid-request", "request {}", hexreq());
        };
        let edge = if now == c.t + c.fudge as u64 {
            Some("upper")
        } else if c.t >= c.fudge as u64 && now == c.t - c.fudge as u64 {
            Some("lower")
        } else {
            None
        };
        let effect = if c.kind.is_update() {
            r.rcode == 0 && changed
        } else {
            match c.kind.policy() {
                AxfrPolicy::Deny => r.rcode == RC_REFUSED && r.answers == 0,
                _ => r.rcode == 0 && r.answers >= 2,
            }
        };
        if !effect {
            // time exactly Fudge after Time Signed is inside the RFC 8945 §5.2.3 interval
            let sig = if edge == Some("upper") { "tsig-fudge-window-half-open" } else { "valid-signed-request-has-no-effect" };
            return Err(Fail::new(
                sig,
                format!(
                    "unmodified request signed at {} fudge {} handled at server time {now}: rcode {}, {} answer RRs, zone changed = {changed}; reply TSIG {:?}",
                    c.t, c.fudge, r.rcode, r.answers, r.tsig
                ),
            ));
        }
        if c.kind.policy() != AxfrPolicy::Deny || c.kind.is_update() {
            if !(c.kind == Kind::AxfrAllowAll) {
                // the reply is signed: RFC 8945 §5.3 MAC recomputed by the reference
                let req_mac = auth.tsig.as_ref().map(|t| t.mac.clone()).unwrap_or_default();
                let Some(rt) = &r.tsig else {
                    vfail!("reply-to-signed-request-not-signed", "reply {}", crate::core::hexser::to_hex(&r.bytes));
                };
                vensure!(rt.error == 0 && rt.time == now, "reply-tsig-fields-wrong", "reply TSIG {rt:?} at server time {now}");
                vensure!(
                    reply_authentic_ref(&r.bytes, &req_mac, &client),
                    "reply-mac-differs-from-rfc8945",
                    "reply {} does not carry the RFC 8945 response MAC (TSIG at {})",
                    crate::core::hexser::to_hex(&r.bytes),
                    r.tsig_start
                );
                // every single-bit flip of the reply, flips first: a successful verify would
                // advance the verifier's chaining state
                let mut flips_rejected = 0u64;
                let mut flips_uncovered = 0u64;
                let mut flips_panicked = 0u64;
                for bit in 0..r.bytes.len() * 8 {
                    if c.reply_bit.is_some_and(|b| b as usize != bit) {
                        continue;
                    }
                    let mut f = r.bytes.clone();
                    f[bit / 8] ^= 1 << (7 - bit % 8);
                    let accepted = match catch(|| verifier.verify(&f)) {
                        Ok(v) => v.is_ok(),
                        Err(p) => {
                            let mut pf = panic_fail(&p);
                            pf.msg = format!("{} [TSigVerifier::verify on the reply with bit {bit} (octet {}) flipped: {}]", pf.msg, bit / 8, crate::core::hexser::to_hex(&f));
                            if rec.strict {
                                return Err(pf);
                            }
                            // a panic is not a rejection; recorded, the sweep goes on
                            if !deferred.iter().any(|d: &(String, String)| d.0 == pf.sig) {
                                deferred.push((pf.sig, pf.msg));
                            }
                            flips_panicked += 1;
                            continue;
                        }
                    };
                    if accepted {
                        // the verifier has advanced its chaining state; start over with a fresh one
                        verifier = base_request(c, &client)?.1;
                        if reply_authentic_ref(&f, &req_mac, &client) {
                            // by RFC 8945 the octet is not covered by the MAC (ID, TSIG class/TTL, name case)
                            flips_uncovered += 1;
                            continue;
                        }
                        let z_bit = bit / 8 == 3 && (1u8 << (7 - bit % 8)) == 0x40;
                        let sig = if z_bit { "tsig-mac-check-ignores-header-z-bit" } else { "client-verifier-accepts-modified-reply" };
                        let fail = Fail::new(
                            sig,
                            format!("reply with bit {bit} (octet {}; TSIG RR starts at {}) flipped is accepted by TSigVerifier: {}", bit / 8, r.tsig_start, crate::core::hexser::to_hex(&f)),
                        );
                        if rec.strict || !z_bit {
                            return Err(fail);
                        }
                        if !deferred.iter().any(|d| d.0 == fail.sig) {
                            deferred.push((fail.sig, fail.msg));
                        }
                        continue;
                    }
                    flips_rejected += 1;
                }
                rec.count("reply_bit_flips_rejected", flips_rejected);
                rec.count("reply_bit_flips_panicked", flips_panicked);
                rec.count("reply_bit_flips_on_uncovered_octets_accepted", flips_uncovered);
                let ok = match catch(|| verifier.verify(&r.bytes)) {
                    Ok(v) => v.map(|_| ()).map_err(|e| e.to_string()),
                    Err(p) => return Err(panic_fail(&p)),
                };
                if let Err(e) = ok {
                    let sig = if edge.is_some() { "tsig-fudge-window-half-open" } else { "client-verifier-rejects-genuine-reply" };
                    return Err(Fail::new(
                        sig,
                        format!("TSigVerifier rejects the unmodified reply ({e}); request signed at {} fudge {}, server time {now}", c.t, c.fudge),
                    ));
                }
            }
        }
        complete_checked = true;
        rec.class("completeness-checked");
    }

    // ---- non-triviality ----------------------------------------------------------------------
    let edge_clock = matches!(c.clock, Clock::BeforeWindow | Clock::LowerEdge | Clock::UpperEdge | Clock::AfterWindow);
    let touches = match &c.mutation {
        Mutation::None => false,
        Mutation::BitFlip(_) | Mutation::ByteSet(..) => !matches!(pos_region, Some("header-id") | None),
        Mutation::HeaderId(_) | Mutation::Trailing(_) => false,
        _ => true,
    };
    if touches || edge_clock || complete_checked {
        rec.nontrivial();
        if rec.wants_note() {
            rec.note(format!(
                "{:?} keys {:?} {:?} signed at {} fudge {} server clock {:?} (= {now}) mutation {:?}: reference {:?}, reply {}",
                c.kind,
                c.keyset,
                c.alg,
                c.t,
                c.fudge,
                c.clock,
                c.mutation,
                auth.verdict,
                reply.as_ref().map(|r| format!("rcode {} answers {} tsig-error {:?}", r.rcode, r.answers, r.tsig.as_ref().map(|t| t.error))).unwrap_or("none".into())
            ));
        }
    }
    let known = crate::checks::c12::known_sigs("C13");
    if let Some((sig, msg)) = deferred.iter().find(|d| !known.iter().any(|k| *k == d.0)).or(deferred.first()) {
        let all: Vec<&str> = deferred.iter().map(|d| d.0.as_str()).collect();
        return Err(Fail::new(sig.clone(), format!("{msg} [sweep continued; findings in this case: {all:?}]")));
    }
    Ok(())
}

fn zone_diff(a: &Zone, b: &Zone) -> String {
    let mut s = String::new();
    for (k, t) in &a.rrs {
        if b.rrs.get(k) != Some(t) {
            s.push_str(&format!("-[{} {} {}] ", canon::show(&k.0), type_name(k.1), show_rdata(k.1, &k.2)));
        }
    }
    for (k, t) in &b.rrs {
        if a.rrs.get(k) != Some(t) {
            s.push_str(&format!("+[{} {} {}] ", canon::show(&k.0), type_name(k.1), show_rdata(k.1, &k.2)));
        }
    }
    s
}

// ---------------------------------------------------------------------------------------------
// strategies

fn kind() -> impl Strategy<Value = Kind> {
    prop_oneof![
        4 => Just(Kind::Update),
        2 => Just(Kind::UpdateWithPrereq),
        1 => Just(Kind::AxfrDeny),
        1 => Just(Kind::AxfrAllowAll),
        4 => Just(Kind::AxfrAllowSigned),
    ]
}

fn keyset() -> impl Strategy<Value = KeySet> {
    prop_oneof![
        1 => Just(KeySet::Zero),
        6 => Just(KeySet::One),
        2 => Just(KeySet::TwoUseFirst),
        3 => Just(KeySet::TwoUseSecond),
        2 => Just(KeySet::SameNameOtherSecret),
        1 => Just(KeySet::SameNameBothConfigured),
        2 => Just(KeySet::OtherNameSameSecret),
        1 => Just(KeySet::OtherAlgorithm),
    ]
}

fn alg() -> impl Strategy<Value = Alg> {
    prop_oneof![Just(Alg::Sha256), Just(Alg::Sha384), Just(Alg::Sha512)]
}

fn clock() -> impl Strategy<Value = Clock> {
    prop_oneof![
        2 => Just(Clock::BeforeWindow),
        2 => Just(Clock::LowerEdge),
        5 => Just(Clock::Exact),
        3 => any::<i16>().prop_map(Clock::Inside),
        2 => Just(Clock::UpperEdge),
        2 => Just(Clock::AfterWindow),
        1 => Just(Clock::FarFuture),
        1 => Just(Clock::FarPast),
    ]
}

fn time_fudge() -> impl Strategy<Value = (u64, u16)> {
    prop_oneof![
        8 => (1_600_000_000u64..1_900_000_000, prop_oneof![4 => Just(300u16), 1 => Just(1u16), 1 => Just(0u16), 1 => Just(u16::MAX), 1 => 2u16..1000]),
        // small Time Signed (< fudge) and times around it
        2 => (0u64..700, prop_oneof![Just(300u16), Just(600u16), Just(u16::MAX)]),
        1 => ((1u64 << 32) - 400..(1u64 << 32) + 400, Just(300u16)),
    ]
}

fn field() -> impl Strategy<Value = Field> {
    prop_oneof![
        2 => any::<u8>().prop_map(Field::KeyName),
        2 => any::<u8>().prop_map(Field::AlgName),
        2 => prop_oneof![Just(1i64), Just(-1i64), -700i64..700, Just(86_400i64), Just(-86_400i64)].prop_map(Field::Time),
        1 => prop_oneof![0u64..400, Just(0u64)].prop_map(Field::TimeAbs),
        2 => prop_oneof![Just(0u16), Just(u16::MAX), any::<u16>()].prop_map(Field::Fudge),
        3 => (0u16..65).prop_map(Field::MacLen),
        1 => any::<u8>().prop_map(Field::MacExtend),
        2 => any::<u16>().prop_map(Field::MacFlip),
        2 => any::<u16>().prop_map(Field::OrigId),
        2 => prop_oneof![Just(16u16), Just(17u16), Just(18u16), any::<u16>()].prop_map(Field::Error),
        1 => proptest::collection::vec(any::<u8>(), 1..8).prop_map(Field::Other),
        1 => prop_oneof![Just(1u16), Just(254u16), any::<u16>()].prop_map(Field::Class),
        1 => prop_oneof![Just(1u32), any::<u32>()].prop_map(Field::Ttl),
    ]
}

fn mutation() -> impl Strategy<Value = Mutation> {
    prop_oneof![
        20 => any::<u32>().prop_map(Mutation::BitFlip),
        10 => (any::<u32>(), any::<u8>()).prop_map(|(p, v)| Mutation::ByteSet(p, v)),
        4 => (0u8..4, 0u16..4).prop_map(|(w, v)| Mutation::CountSet(w, v)),
        3 => (0u8..3, any::<bool>()).prop_map(|(w, f)| Mutation::CountShift(w, f)),
        22 => (field(), any::<bool>()).prop_map(|(f, r)| Mutation::Tsig(f, r)),
        3 => any::<bool>().prop_map(|fix_count| Mutation::TsigRemoved { fix_count }),
        2 => Just(Mutation::TsigDuplicated),
        3 => any::<u8>().prop_map(Mutation::TsigNotLast),
        2 => any::<u8>().prop_map(Mutation::Trailing),
        3 => any::<u16>().prop_map(Mutation::HeaderId),
        2 => Just(Mutation::ResignedByReference),
        4 => Just(Mutation::None),
    ]
}

// ---------------------------------------------------------------------------------------------
// client side, end to end: the request goes out through the real `DnsMultiplexer` configured
// with the key (`with_signer`), the server's reply comes back through it unmodified or modified.
// Whatever the multiplexer hands to the caller as Ok must be authentic per RFC 8945 5.3 (the
// reference MAC over the request MAC and the received octets); the unmodified reply must arrive.

#[derive(Clone, Debug, Serialize, Deserialize)]
pub enum ReplyEdit {
    None,
    BitFlip(u32),
    ByteSet(u32, u8),
    /// TSIG RR cut off, ARCOUNT lowered
    TsigRemoved,
    /// the reply re-signed with another secret / for another request MAC
    ResignedWrongSecret,
    ResignedWrongRequestMac,
    Trailing(u8),
}

#[derive(Clone, Debug, Serialize, Deserialize)]
pub struct ClientCase {
    pub update: bool,
    pub alg: Alg,
    pub edns: bool,
    pub id: u16,
    pub edit: ReplyEdit,
}

struct OneWay {
    inbox: Arc<std::sync::Mutex<std::collections::VecDeque<Vec<u8>>>>,
}

impl futures_util::Stream for OneWay {
    type Item = Result<hickory_proto::op::SerialMessage, hickory_net::NetError>;
    fn poll_next(self: std::pin::Pin<&mut Self>, _cx: &mut std::task::Context<'_>) -> std::task::Poll<Option<Self::Item>> {
        match self.inbox.lock().unwrap().pop_front() {
            Some(b) => std::task::Poll::Ready(Some(Ok(hickory_proto::op::SerialMessage::new(b, src_addr())))),
            None => std::task::Poll::Pending,
        }
    }
}

impl hickory_net::xfer::DnsClientStream for OneWay {
    type Time = crate::sim::SimTime;
    fn name_server_addr(&self) -> std::net::SocketAddr {
        src_addr()
    }
}

fn client_case(_t: Tier) -> impl Strategy<Value = ClientCase> {
    let edit = prop_oneof![
        3 => Just(ReplyEdit::None),
        8 => any::<u32>().prop_map(ReplyEdit::BitFlip),
        2 => (any::<u32>(), any::<u8>()).prop_map(|(p, v)| ReplyEdit::ByteSet(p, v)),
        2 => Just(ReplyEdit::TsigRemoved),
        1 => Just(ReplyEdit::ResignedWrongSecret),
        1 => Just(ReplyEdit::ResignedWrongRequestMac),
        1 => (1u8..8).prop_map(ReplyEdit::Trailing),
    ];
    (any::<bool>(), alg(), any::<bool>(), any::<u16>(), edit).prop_map(|(update, alg, edns, id, edit)| ClientCase { update, alg, edns, id, edit })
}

/// one edit of the genuine reply; None when the harness cannot place the edit
fn apply_edit(edit: &ReplyEdit, genuine: &[u8], r: &Reply, req_mac: &[u8], key: &Key) -> Result<Option<(Vec<u8>, &'static str)>, Fail> {
    let mut wire = genuine.to_vec();
    let mut label = "none";
    match edit {
        ReplyEdit::None => {}
        ReplyEdit::BitFlip(p) => {
            let bit = *p as usize % (wire.len() * 8);
            wire[bit / 8] ^= 1 << (7 - bit % 8);
            label = "bit-flip";
        }
        ReplyEdit::ByteSet(p, v) => {
            let i = *p as usize % wire.len();
            if wire[i] == *v {
                wire[i] ^= 0xff;
            } else {
                wire[i] = *v;
            }
            label = "byte-set";
        }
        ReplyEdit::TsigRemoved => {
            wire.truncate(r.tsig_start);
            let ar = u16::from_be_bytes([wire[10], wire[11]]).saturating_sub(1);
            wire[10..12].copy_from_slice(&ar.to_be_bytes());
            label = "tsig-removed";
        }
        ReplyEdit::ResignedWrongSecret | ReplyEdit::ResignedWrongRequestMac => {
            let Some(t) = &r.tsig else {
                vfail!("reply-to-signed-request-not-signed", "reply {}", crate::core::hexser::to_hex(genuine));
            };
            let (secret, rmac): (&[u8], Vec<u8>) = if matches!(edit, ReplyEdit::ResignedWrongSecret) { (SX, req_mac.to_vec()) } else { (S1, req_mac.iter().map(|b| b ^ 0x55).collect()) };
            let Ok(p) = tsig_ref::parse(genuine) else { vfail!("harness-reply-unparseable", "{}", crate::core::hexser::to_hex(genuine)) };
            let rr = p.rrs.last().unwrap();
            let d = tsig_ref::response_digest(&rmac, genuine, rr.start, t);
            let mac = tsig_ref::mac(key.alg, secret, &d);
            // the MAC field sits after: name, type(2) class(2) ttl(4) rdlen(2), alg name, time(6) fudge(2) macsize(2)
            let pos = wire.len() - (t.mac.len() + 2 + 2 + 2 + t.other.len());
            if wire[pos..pos + mac.len()] == t.mac[..] {
                wire[pos..pos + mac.len()].copy_from_slice(&mac);
            } else {
                return Ok(None);
            }
            label = "re-signed";
        }
        ReplyEdit::Trailing(n) => {
            wire.extend(std::iter::repeat(0xAB).take(*n as usize));
            label = "trailing-octets";
        }
    }
    Ok(Some((wire, label)))
}

fn client_body(c: &ClientCase, rec: &mut Rec) -> CaseResult {
    use hickory_net::xfer::{DnsMultiplexer, DnsRequestSender};
    use hickory_proto::op::{DnsRequest, DnsRequestOptions};
    let now = 1_700_000_000u64;
    let _clock = VirtualClock::start(now);
    let key = k("k1.keys.test.", S1, c.alg);
    let kind = if c.update { Kind::Update } else { Kind::AxfrAllowSigned };

    // the unsigned request, as base_request builds it
    let origin = to_name(&updates::origin());
    let mut m = if c.update {
        let mut m = Message::new(c.id, MessageType::Query, OpCode::Update);
        let mut q = Query::new(origin, RecordType::SOA);
        q.set_query_class(DNSClass::IN);
        m.add_query(q);
        m.add_authority(Record::from_rdata(name_from_str("new.zone.test."), 300, RData::A(A::new(192, 0, 2, 77))));
        m
    } else {
        let mut m = Message::new(c.id, MessageType::Query, OpCode::Query);
        m.add_query(Query::new(origin, RecordType::AXFR));
        m
    };
    if c.edns {
        let mut e = Edns::new();
        e.set_max_payload(1232);
        m.set_edns(e);
    }

    // client: multiplexer with the key
    let inbox = Arc::new(std::sync::Mutex::new(std::collections::VecDeque::new()));
    let (handle, mut outbound) = BufDnsStreamHandle::new(src_addr());
    let mut mux = DnsMultiplexer::new(OneWay { inbox: inbox.clone() }, handle)
        .with_timeout(std::time::Duration::from_secs(5))
        .with_signer(hickory_signer(&key, 300));
    let waker = futures_util::task::noop_waker();
    let mut cx = std::task::Context::from_waker(&waker);
    let mut rx = mux.send_message(DnsRequest::new(m, DnsRequestOptions::default()));
    let _ = mux.poll_next_unpin(&mut cx);
    let Some(Some(sent)) = outbound.next().now_or_never() else {
        vfail!("client-multiplexer-sent-nothing", "no request left the multiplexer");
    };
    let request = sent.into_parts().0;
    let req_auth = tsig_ref::authorised_ref(&request, now, std::slice::from_ref(&key));
    vensure!(
        req_auth.verdict == AuthRef::Authorised,
        "client-multiplexer-request-not-signed-per-rfc8945",
        "reference says {:?} for the request the multiplexer signed: {}",
        req_auth.verdict,
        crate::core::hexser::to_hex(&request)
    );
    let req_mac = req_auth.tsig.as_ref().map(|t| t.mac.clone()).unwrap_or_default();

    // server
    let mut h = build_handler(&base_zone(), kind.policy()).map_err(|e| Fail::new("harness-init", e))?;
    h.set_tsig_signers(vec![hickory_signer(&key, 300)]);
    let h = Arc::new(h);
    let mut catalog = Catalog::new();
    catalog.upsert(h.origin().clone(), vec![h.clone()]);
    let fd = VerifFrontDoor::new(catalog, Vec::<ipnet::IpNet>::new(), Vec::<ipnet::IpNet>::new());
    let (tx, mut srx) = BufDnsStreamHandle::new(src_addr());
    if let Err(p) = catch(|| block_on(fd.handle(request.clone(), src_addr(), Protocol::Tcp, tx))) {
        return Err(panic_fail(&p));
    }
    let mut replies = Vec::new();
    while let Some(Some(m)) = srx.next().now_or_never() {
        replies.push(m.into_parts().0);
    }
    vensure!(replies.len() == 1, "harness-expects-one-reply-message", "{} reply messages", replies.len());
    let genuine = replies.remove(0);
    let r = split_reply(&genuine)?;

    // the edit
    let Some((wire, label)) = apply_edit(&c.edit, &genuine, &r, &req_mac, &key)? else {
        rec.discard("harness-could-not-locate-the-mac-field");
        return Ok(());
    };
    rec.class(format!("reply-edit={label}"));
    rec.class(format!("kind={kind:?}"));
    let authentic = reply_authentic_ref(&wire, &req_mac, &key);
    let same_id = wire.len() >= 2 && wire[..2] == genuine[..2];
    rec.class(if authentic { "reference=authentic" } else { "reference=not-authentic" });

    inbox.lock().unwrap().push_back(wire.clone());
    let _ = mux.poll_next_unpin(&mut cx);
    let mut delivered: Vec<Result<Vec<u8>, String>> = Vec::new();
    for _ in 0..8 {
        match rx.poll_next_unpin(&mut cx) {
            std::task::Poll::Ready(Some(Ok(resp))) => delivered.push(Ok(resp.as_buffer().to_vec())),
            std::task::Poll::Ready(Some(Err(e))) => delivered.push(Err(e.to_string())),
            _ => break,
        }
    }
    rec.nontrivial();
    let ctx = || format!("{kind:?} {:?} edit {:?}: genuine reply {} delivered as {} -> {:?}", c.alg, c.edit, crate::core::hexser::to_hex(&genuine), crate::core::hexser::to_hex(&wire), delivered.iter().map(|d| d.as_ref().map(|b| b.len()).map_err(|e| e.clone())).collect::<Vec<_>>());
    for d in &delivered {
        if let Ok(b) = d {
            vensure!(
                reply_authentic_ref(b, &req_mac, &key),
                "client-multiplexer-delivers-unauthentic-reply",
                "the caller received a reply that is not authentic per RFC 8945 5.3; {}",
                ctx()
            );
        }
    }
    // completeness is claimed for the reply as the server sent it; a modified reply that happens
    // to stay authentic by the letter of RFC 8945 (case of a name, TSIG class / TTL) may be refused
    let _ = same_id;
    if matches!(c.edit, ReplyEdit::None) {
        vensure!(authentic, "reply-mac-differs-from-rfc8945", "the server's reply is not authentic per the reference; {}", ctx());
        vensure!(
            delivered.iter().any(|d| d.is_ok()),
            "client-multiplexer-withholds-the-genuine-reply",
            "the unmodified reply did not reach the caller; {}",
            ctx()
        );
    } else if authentic {
        rec.class(if delivered.iter().any(|d| d.is_ok()) { "edited-but-authentic:delivered" } else { "edited-but-authentic:refused" });
    }
    Ok(())
}

// ---------------------------------------------------------------------------------------------
// the same over UDP: the real `UdpClientStream::with_signer` on the simulated runtime. The
// stream looks at up to three datagrams per request, so the reply is a *sequence* of datagrams
// (each the genuine reply or an edit of it): whatever the caller receives as Ok must be
// authentic, whichever datagram of the sequence it is.

#[derive(Clone, Debug, Serialize, Deserialize)]
pub struct UdpClientCase {
    pub update: bool,
    pub alg: Alg,
    pub edns: bool,
    pub id: u16,
    pub edits: Vec<ReplyEdit>,
    pub gap_ms: u16,
}

fn udp_client_case(_t: Tier) -> impl Strategy<Value = UdpClientCase> {
    let edit = || {
        prop_oneof![
            3 => Just(ReplyEdit::None),
            4 => any::<u32>().prop_map(ReplyEdit::BitFlip),
            1 => (any::<u32>(), any::<u8>()).prop_map(|(p, v)| ReplyEdit::ByteSet(p, v)),
            3 => Just(ReplyEdit::TsigRemoved),
            1 => Just(ReplyEdit::ResignedWrongSecret),
            1 => Just(ReplyEdit::ResignedWrongRequestMac),
            1 => (1u8..8).prop_map(ReplyEdit::Trailing),
        ]
    };
    (any::<bool>(), alg(), any::<bool>(), any::<u16>(), proptest::collection::vec(edit(), 1..=3), 0u16..50).prop_map(|(update, alg, edns, id, edits, gap_ms)| UdpClientCase {
        update,
        alg,
        edns,
        id,
        edits,
        gap_ms,
    })
}

fn ns_addr() -> std::net::SocketAddr {
    "192.0.2.53:53".parse().unwrap()
}

#[derive(Default)]
struct ScriptNetState {
    sent: Vec<Vec<u8>>,
    /// (arrival time in virtual nanos, octets), in order
    queue: Vec<(u64, Vec<u8>)>,
    next: usize,
    script: Vec<(u64, Vec<u8>)>,
}

/// one UDP socket; after the first transmission the scripted datagrams arrive from the server
struct ScriptNet {
    st: std::cell::RefCell<ScriptNetState>,
}

impl crate::sim::SimNet for ScriptNet {
    fn udp_bind(&self, _local: std::net::SocketAddr, _server: std::net::SocketAddr) -> std::io::Result<u64> {
        Ok(0)
    }
    fn udp_send(&self, _sock: u64, buf: &[u8], _target: std::net::SocketAddr) -> std::io::Result<usize> {
        let mut st = self.st.borrow_mut();
        let now = crate::sim::now_nanos();
        if st.sent.is_empty() {
            st.queue = st.script.iter().map(|(d, b)| (now + d, b.clone())).collect();
        }
        st.sent.push(buf.to_vec());
        Ok(buf.len())
    }
    fn udp_poll_recv(&self, _sock: u64, now: u64) -> crate::sim::RecvPoll {
        let mut st = self.st.borrow_mut();
        if st.sent.is_empty() {
            return crate::sim::RecvPoll::Never;
        }
        match st.queue.get(st.next).cloned() {
            None => crate::sim::RecvPoll::Never,
            Some((at, b)) if at <= now => {
                st.next += 1;
                crate::sim::RecvPoll::Ready(b, ns_addr())
            }
            Some((at, _)) => crate::sim::RecvPoll::At(at),
        }
    }
}

/// one request through UdpClientStream::with_signer against the scripted datagrams; returns the
/// octets sent and what the caller got
fn udp_exchange(now: u64, m: &Message, key: &Key, script: Vec<(u64, Vec<u8>)>) -> Result<(Vec<Vec<u8>>, Option<Result<Vec<u8>, String>>), Fail> {
    use hickory_net::udp::UdpClientStream;
    use hickory_net::xfer::DnsRequestSender;
    use hickory_proto::op::{DnsRequest, DnsRequestOptions};
    let mut sim = crate::sim::Sim::new(now);
    let net = std::rc::Rc::new(ScriptNet {
        st: std::cell::RefCell::new(ScriptNetState {
            script,
            ..Default::default()
        }),
    });
    sim.set_net(net.clone());
    let mut stream = UdpClientStream::builder(ns_addr(), crate::sim::SimRt)
        .with_timeout(Some(std::time::Duration::from_millis(900)))
        .with_max_retries(0)
        .with_signer(Some(hickory_signer(key, 300)))
        .build();
    let request = DnsRequest::new(m.clone(), DnsRequestOptions::default());
    let fut = async move {
        let mut rs = stream.send_message(request);
        rs.next().await
    };
    let out = match catch(move || sim.run(fut, 20_000)) {
        Ok(Ok(v)) => v,
        Ok(Err(e)) => vfail!("client-udp-no-completion", "simulation ended with {e:?}"),
        Err(p) => return Err(panic_fail(&p)),
    };
    let sent = net.st.borrow().sent.clone();
    Ok((sent, out.map(|r| r.map(|resp| resp.as_buffer().to_vec()).map_err(|e| e.to_string()))))
}

fn udp_client_body(c: &UdpClientCase, rec: &mut Rec) -> CaseResult {
    let now = 1_700_000_000u64;
    let key = k("k1.keys.test.", S1, c.alg);
    let kind = if c.update { Kind::Update } else { Kind::AxfrAllowSigned };
    let origin = to_name(&updates::origin());
    let mut m = if c.update {
        let mut m = Message::new(c.id, MessageType::Query, OpCode::Update);
        let mut q = Query::new(origin, RecordType::SOA);
        q.set_query_class(DNSClass::IN);
        m.add_query(q);
        m.add_authority(Record::from_rdata(name_from_str("new.zone.test."), 300, RData::A(A::new(192, 0, 2, 77))));
        m
    } else {
        let mut m = Message::new(c.id, MessageType::Query, OpCode::Query);
        m.add_query(Query::new(origin, RecordType::AXFR));
        m
    };
    if c.edns {
        let mut e = Edns::new();
        e.set_max_payload(1232);
        m.set_edns(e);
    }

    // first pass, nothing comes back: what does the stream put on the wire?
    let (sent, _) = udp_exchange(now, &m, &key, vec![])?;
    vensure!(sent.len() == 1, "harness-expects-one-transmission", "{} transmissions without retries", sent.len());
    let request = sent[0].clone();
    let req_auth = {
        let _clock = VirtualClock::start(now);
        tsig_ref::authorised_ref(&request, now, std::slice::from_ref(&key))
    };
    vensure!(
        req_auth.verdict == AuthRef::Authorised,
        "client-udp-request-not-signed-per-rfc8945",
        "reference says {:?} for the request the UDP stream signed: {}",
        req_auth.verdict,
        crate::core::hexser::to_hex(&request)
    );
    let req_mac = req_auth.tsig.as_ref().map(|t| t.mac.clone()).unwrap_or_default();

    // the server's reply to exactly those octets
    let genuine = {
        let _clock = VirtualClock::start(now);
        let mut h = build_handler(&base_zone(), kind.policy()).map_err(|e| Fail::new("harness-init", e))?;
        h.set_tsig_signers(vec![hickory_signer(&key, 300)]);
        let h = Arc::new(h);
        let mut catalog = Catalog::new();
        catalog.upsert(h.origin().clone(), vec![h.clone()]);
        let fd = VerifFrontDoor::new(catalog, Vec::<ipnet::IpNet>::new(), Vec::<ipnet::IpNet>::new());
        let (tx, mut srx) = BufDnsStreamHandle::new(src_addr());
        if let Err(p) = catch(|| block_on(fd.handle(request.clone(), src_addr(), Protocol::Tcp, tx))) {
            return Err(panic_fail(&p));
        }
        let mut replies = Vec::new();
        while let Some(Some(m)) = srx.next().now_or_never() {
            replies.push(m.into_parts().0);
        }
        vensure!(replies.len() == 1, "harness-expects-one-reply-message", "{} reply messages", replies.len());
        replies.remove(0)
    };
    let r = split_reply(&genuine)?;

    let mut script = Vec::new();
    let mut labels = Vec::new();
    let mut auth = Vec::new();
    let mut at = 0u64;
    for e in &c.edits {
        let Some((wire, label)) = apply_edit(e, &genuine, &r, &req_mac, &key)? else {
            rec.discard("harness-could-not-locate-the-mac-field");
            return Ok(());
        };
        at += (1 + c.gap_ms as u64) * 1_000_000;
        auth.push(reply_authentic_ref(&wire, &req_mac, &key));
        labels.push(label);
        script.push((at, wire));
    }
    rec.class(format!("datagrams={}", script.len()));
    rec.class(format!("kind={kind:?}"));
    let first_genuine = auth.iter().position(|a| *a);
    rec.class(match first_genuine {
        Some(0) => "first-datagram-authentic",
        Some(_) => "authentic-datagram-after-a-forged-one",
        None if script.len() > 1 => "several-forged-datagrams",
        None => "one-forged-datagram",
    });
    rec.nontrivial();

    let (sent2, out) = udp_exchange(now, &m, &key, script.clone())?;
    if sent2.first() != Some(&request) {
        rec.discard("harness-request-not-reproducible");
        return Ok(());
    }
    let ctx = || {
        format!(
            "{kind:?} {:?} datagrams {:?} (authentic per reference: {:?}); genuine reply {}; caller got {:?}",
            c.alg,
            labels,
            auth,
            crate::core::hexser::to_hex(&genuine),
            out.as_ref().map(|o| o.as_ref().map(|b| crate::core::hexser::to_hex(b)).map_err(|e| e.clone()))
        )
    };
    if let Some(Ok(b)) = &out {
        vensure!(
            reply_authentic_ref(b, &req_mac, &key),
            "client-udp-delivers-unauthentic-reply",
            "the caller of the signing UDP stream received a reply that is not authentic per RFC 8945 5.3; {}",
            ctx()
        );
        rec.class("caller-got-a-reply");
    } else {
        rec.class("caller-got-an-error");
    }
    if c.edits.len() == 1 && matches!(c.edits[0], ReplyEdit::None) {
        vensure!(
            matches!(out, Some(Ok(_))),
            "client-udp-withholds-the-genuine-reply",
            "the unmodified reply, alone on the wire, did not reach the caller; {}",
            ctx()
        );
    }
    Ok(())
}

/// the update builders of hickory's client clear every flag; a caller that assembles the message
/// itself may set RD, CD or AD before signing
fn req_flags() -> impl Strategy<Value = u8> {
    prop_oneof![3 => Just(0u8), 2 => 1u8..8]
}

fn any_case(_t: Tier) -> impl Strategy<Value = Case> {
    (kind(), keyset(), alg(), time_fudge(), clock(), mutation(), any::<u16>(), any::<bool>(), req_flags()).prop_map(|(kind, keyset, alg, (t, fudge), clock, mutation, id, edns, flags)| Case {
        kind,
        keyset,
        alg,
        t,
        fudge,
        clock,
        mutation,
        id,
        edns,
        flags,
        reply_bit: None,
        boot: Boot::Direct,
    })
}

/// the requests that matter most (unmodified, wrong key, stale, unsigned) against a server
/// configured from files, half of them after a restart
fn configured_case(t: Tier) -> impl Strategy<Value = Case> {
    let m = prop_oneof![3 => Just(Mutation::None), 2 => Just(Mutation::TsigRemoved { fix_count: true }), 3 => mutation()];
    (any_case(t), m, any::<bool>()).prop_map(|(mut c, m, restart)| {
        c.mutation = m;
        c.boot = if restart { Boot::ConfigRestart } else { Boot::Config };
        c
    })
}

fn unmodified_case(_t: Tier) -> impl Strategy<Value = Case> {
    let ks = prop_oneof![5 => Just(KeySet::One), 2 => Just(KeySet::TwoUseFirst), 3 => Just(KeySet::TwoUseSecond)];
    (kind(), ks, alg(), time_fudge(), clock(), any::<u16>(), any::<bool>(), req_flags()).prop_map(|(kind, keyset, alg, (t, fudge), clock, id, edns, flags)| Case {
        kind,
        keyset,
        alg,
        t,
        fudge,
        clock,
        mutation: Mutation::None,
        id,
        edns,
        flags,
        reply_bit: None,
        boot: Boot::Direct,
    })
}

// ---------------------------------------------------------------------------------------------
// transfer questions against every kind of zone handler: the policy is enforced inside each
// handler, the routing to `zone_transfer` happens in the catalog. Small scope, enumerated whole.

#[derive(Clone, Copy, Debug, PartialEq, Eq, Serialize, Deserialize)]
pub enum XferSigning {
    Unsigned,
    /// signed with a configured key, inside the window
    Valid,
    /// configured key name, another secret
    WrongSecret,
    /// configured key, Time Signed more than fudge before the server's clock
    Stale,
}

#[derive(Clone, Debug, Serialize, Deserialize)]
pub struct XferCase {
    /// true: `InMemoryZoneHandler` (the code `FileZoneHandler` delegates to); false: `SqliteZoneHandler`
    pub in_memory: bool,
    /// 0 Deny, 1 AllowSigned, 2 AllowAll
    pub policy: u8,
    /// question type: 252 AXFR, 251 IXFR
    pub qtype: u16,
    /// RFC 1995: an IXFR request carries the client's SOA in the authority section
    pub client_soa: bool,
    pub signing: XferSigning,
    pub edns: bool,
    pub tcp: bool,
}

fn xfer_cases() -> Vec<XferCase> {
    let mut v = Vec::new();
    for in_memory in [true, false] {
        for policy in 0..3u8 {
            for (qtype, client_soa) in [(252u16, false), (251, false), (251, true)] {
                for signing in [XferSigning::Unsigned, XferSigning::Valid, XferSigning::WrongSecret, XferSigning::Stale] {
                    for edns in [false, true] {
                        for tcp in [true, false] {
                            v.push(XferCase { in_memory, policy, qtype, client_soa, signing, edns, tcp });
                        }
                    }
                }
            }
        }
    }
    v
}

fn xfer_body(c: &XferCase, rec: &mut Rec) -> CaseResult {
    let policy = match c.policy {
        0 => AxfrPolicy::Deny,
        1 => AxfrPolicy::AllowSigned,
        _ => AxfrPolicy::AllowAll,
    };
    let (t, fudge) = (1_700_000_000u64, 300u16);
    let k1 = k("k1.keys.test.", S1, Alg::Sha256);
    let origin = to_name(&updates::origin());
    let zone = base_zone();
    let mut m = Message::new(0x4242, MessageType::Query, OpCode::Query);
    m.add_query(Query::new(origin.clone(), RecordType::from(c.qtype)));
    if c.client_soa {
        let soa = hickory_proto::rr::rdata::SOA::new(name_from_str("ns1.zone.test."), name_from_str("admin.zone.test."), 7, 3600, 600, 86400, 60);
        m.add_authority(Record::from_rdata(origin.clone(), 300, RData::SOA(soa)));
    }
    if c.edns {
        let mut e = Edns::new();
        e.set_max_payload(1232);
        m.set_edns(e);
    }
    let bytes = match c.signing {
        XferSigning::Unsigned => m.to_vec().map_err(|e| Fail::new("client-encode-failed", e.to_string()))?,
        s => {
            let key = if s == XferSigning::WrongSecret { k("k1.keys.test.", SX, Alg::Sha256) } else { k1.clone() };
            m.finalize(&hickory_signer(&key, fudge), t).map_err(|e| Fail::new("client-signer-failed", e.to_string()))?;
            m.to_vec().map_err(|e| Fail::new("client-encode-failed", e.to_string()))?
        }
    };
    let now = if c.signing == XferSigning::Stale { t + fudge as u64 + 100 } else { t + 1 };

    let mut catalog = Catalog::new();
    if c.in_memory {
        let serial = zone.serial().ok_or_else(|| Fail::new("harness-init", "model zone without SOA"))?;
        let mut im: hickory_server::store::in_memory::InMemoryZoneHandler<hickory_net::runtime::TokioRuntimeProvider> =
            hickory_server::store::in_memory::InMemoryZoneHandler::empty(origin.clone(), hickory_server::zone_handler::ZoneType::Primary, policy, None);
        for ((name, rtype, rdata), ttl) in &zone.rrs {
            let r = record_from_wire(&zrr_wire(name, *rtype, *ttl, rdata)).map_err(|e| Fail::new("harness-init", e))?;
            if !im.upsert_mut(r, serial) {
                return Err(Fail::new("harness-init", "upsert_mut refused a base-zone record"));
            }
        }
        let h: Arc<dyn ZoneHandler> = Arc::new(im);
        catalog.upsert(origin.clone().into(), vec![h]);
    } else {
        let mut h = build_handler(&zone, policy).map_err(|e| Fail::new("harness-init", e))?;
        h.set_tsig_signers(vec![hickory_signer(&k1, fudge)]);
        let h = Arc::new(h);
        catalog.upsert(h.origin().clone(), vec![h.clone()]);
    }
    let fd = VerifFrontDoor::new(catalog, Vec::<ipnet::IpNet>::new(), Vec::<ipnet::IpNet>::new());
    let (tx, mut rx) = BufDnsStreamHandle::new(src_addr());
    let proto = if c.tcp { Protocol::Tcp } else { Protocol::Udp };
    let outcome = {
        let _clock = VirtualClock::start(now);
        catch(|| block_on(fd.handle(bytes.clone(), src_addr(), proto, tx)))
    };
    if let Err(p) = outcome {
        return Err(panic_fail(&p));
    }
    let mut replies = Vec::new();
    while let Some(Some(m)) = rx.next().now_or_never() {
        replies.push(m.into_parts().0);
    }
    let handler = if c.in_memory { "in-memory" } else { "sqlite" };
    let q = if c.qtype == 252 { "AXFR" } else { "IXFR" };
    rec.class(format!("handler={handler}"));
    rec.class(format!("policy={policy:?}"));
    rec.class(format!("question={q}{}", if c.client_soa { "+client-soa" } else { "" }));
    rec.class(format!("signing={:?}", c.signing));
    // a transfer is a run of the zone's records between two SOAs: anything beyond one RR in the
    // answer section (over all messages of the reply) is zone data handed out in bulk
    let mut answers = 0usize;
    let mut rcode = 0u8;
    for b in &replies {
        let r = split_reply(b)?;
        answers += r.answers;
        rcode = r.rcode;
    }
    let transferred = answers >= 2;
    // a key is configured on the sqlite handler only; the in-memory handler knows no keys at all
    let authorised = !c.in_memory && c.signing == XferSigning::Valid;
    let allowed = match policy {
        AxfrPolicy::AllowAll => true,
        AxfrPolicy::AllowSigned => authorised,
        _ => false,
    };
    rec.class(format!("outcome={}", if transferred { "zone-data" } else { "no-zone-data" }));
    vensure!(
        !transferred || allowed,
        "zone-transferred-without-valid-tsig",
        "{q} question ({:?}, {}) to the {handler} handler under {policy:?} was answered with {answers} RRs (rcode {rcode}); request {}",
        c.signing,
        if c.tcp { "tcp" } else { "udp" },
        crate::core::hexser::to_hex(&bytes)
    );
    // completeness, where the statement is unambiguous: an AXFR that the policy admits is served
    if c.qtype == 252 && c.tcp && ((policy == AxfrPolicy::AllowAll && c.signing == XferSigning::Unsigned) || (policy == AxfrPolicy::AllowSigned && authorised)) {
        vensure!(
            transferred,
            "admitted-transfer-not-served",
            "AXFR ({:?}) to the {handler} handler under {policy:?} came back with {answers} RRs (rcode {rcode}); request {}",
            c.signing,
            crate::core::hexser::to_hex(&bytes)
        );
        rec.class("completeness-asserted");
    }
    rec.nontrivial();
    if rec.wants_note() {
        rec.note(format!("{q} {:?} -> {handler} under {policy:?}: {answers} answer RRs, rcode {rcode}", c.signing));
    }
    Ok(())
}

const ENUM_KINDS: [Kind; 4] = [Kind::Update, Kind::UpdateWithPrereq, Kind::AxfrAllowSigned, Kind::AxfrDeny];
const ENUM_ALGS: [Alg; 3] = [Alg::Sha256, Alg::Sha384, Alg::Sha512];

fn enum_base(kind: Kind, alg: Alg, edns: bool, mutation: Mutation) -> Case {
    Case {
        kind,
        keyset: KeySet::TwoUseSecond,
        alg,
        t: 1_700_000_000,
        fudge: 300,
        clock: Clock::Exact,
        mutation,
        id: 0x1234,
        edns,
        flags: 0,
        reply_bit: None,
        boot: Boot::Direct,
    }
}

pub fn check() -> Option<Check> {
    let mutations = prop("request_mutations", 160_000, 2_000_000, any_case, body);
    let complete = prop("unmodified_requests", 12_000, 100_000, unmodified_case, body);
    let configured = prop("configured_from_files", 12_000, 100_000, configured_case, body);
    let client = prop("client_multiplexer_replies", 40_000, 1_000_000, client_case, client_body);
    let client_udp = prop("client_udp_replies", 20_000, 500_000, udp_client_case, udp_client_body);
    // every single-bit flip of the whole request, for each kind x algorithm (EDNS on for SHA-256)
    let flips = enumerate(
        "every_request_bit_flip",
        |_env: &Env| {
            let mut v = Vec::new();
            for kind in ENUM_KINDS {
                for alg in ENUM_ALGS {
                    let edns = alg == Alg::Sha256;
                    let c0 = enum_base(kind, alg, edns, Mutation::None);
                    let (_, client, _) = keys(c0.keyset, alg);
                    let len = base_request(&c0, &client).map(|b| b.0.len()).unwrap_or(0);
                    for bit in 0..(len * 8) as u32 {
                        v.push(enum_base(kind, alg, edns, Mutation::BitFlip(bit)));
                    }
                }
            }
            (Box::new(v.into_iter()) as Box<dyn Iterator<Item = Case> + Send>, true)
        },
        body,
    );
    // MAC truncated to every length (and the full MAC extended), original MAC and re-signed
    let trunc = enumerate(
        "every_mac_length",
        |_env: &Env| {
            let mut v = Vec::new();
            for kind in [Kind::Update, Kind::AxfrAllowSigned] {
                for alg in ENUM_ALGS {
                    for n in 0..alg.out_len() as u16 {
                        v.push(enum_base(kind, alg, false, Mutation::Tsig(Field::MacLen(n), false)));
                    }
                    for n in 0..4u8 {
                        v.push(enum_base(kind, alg, false, Mutation::Tsig(Field::MacExtend(n), false)));
                    }
                }
            }
            (Box::new(v.into_iter()) as Box<dyn Iterator<Item = Case> + Send>, true)
        },
        body,
    );
    let xfer = enumerate(
        "transfer_questions_all_handlers",
        |_env: &Env| (Box::new(xfer_cases().into_iter()) as Box<dyn Iterator<Item = XferCase> + Send>, true),
        xfer_body,
    );
    Some(Check {
        id: "C13",
        level: "exploration",
        rule: "requests built and TSIG-signed by hickory's client (UPDATE with/without prerequisite; AXFR under Deny/AllowAll/AllowSigned; HMAC-SHA256/384/512; with/without EDNS; key sets: none, one, two, same name/other secret, same name twice, other name/same secret, other algorithm; Time Signed normal, < fudge, around 2^32; fudge 0, 1, 300, 65535) x server clock {t-fudge-1, t-fudge, inside, t, t+fudge, t+fudge+1, far} x mutation {bit flip, byte set, section-count set/shift, TSIG field edit with original or recomputed MAC (key name, algorithm, time, fudge, MAC truncated/extended/flipped, original ID, error, other data, class, TTL), TSIG removed/duplicated/not last, trailing octets, header ID, re-signed by the reference signer}; every_request_bit_flip enumerates all single-bit flips of 12 base requests, every_mac_length all MAC lengths; for unmodified in-window requests every single-bit flip of the reply is given to TSigVerifier; configured_from_files runs unmodified / unsigned / mutated requests against a handler built by SqliteZoneHandler::try_from_config from a zone file, key files and a journal in a scratch directory, half of them after a restart that recovers the zone from the journal (same oracle: policy and keys must survive the configuration path); client_multiplexer_replies: the request leaves through the real DnsMultiplexer::with_signer, the server's reply returns through it unmodified, bit-flipped, byte-set, with the TSIG removed, re-signed with another secret or for another request MAC, or with trailing octets: whatever reaches the caller as Ok must carry the RFC 8945 5.3 response MAC, and the unmodified reply must arrive; client_udp_replies: the same through the real UdpClientStream::with_signer on the simulated runtime, where the reply is a sequence of 1-3 datagrams (each the genuine reply or one of those edits) because the stream examines up to three datagrams per request: whichever datagram the caller ends up with must be authentic. transfer_questions_all_handlers enumerates {InMemoryZoneHandler (the code FileZoneHandler delegates to), SqliteZoneHandler with one key} x {Deny, AllowSigned, AllowAll} x {AXFR, IXFR, IXFR with the client's SOA in the authority section} x {unsigned, signed in the window by the configured key, same key name with another secret, configured key but stale} x EDNS x {TCP, UDP} through Catalog and the front door: two or more answer RRs (a transfer) only if the policy is AllowAll or it is AllowSigned and the sqlite handler got the valid signature; an admitted AXFR over TCP is served. Non-trivial = distinct case AND (the mutation touches a signed octet, the MAC or a TSIG field, OR the clock is within 1 of a fudge edge, OR the completeness clause incl. the reply-flip sweep ran)",
        assumptions: vec![
            "octets RFC 8945 leaves outside the MAC (header ID via original-ID substitution, TSIG CLASS and TTL which enter the digest as constants, case of key/algorithm names, octets after the last counted record) may change without the request or reply counting as modified",
            "a key set with the same key name configured twice is outside the completeness clause (recorded)",
            "answers to non-AXFR questions (e.g. an UPDATE whose opcode was flipped to QUERY) are public data, not 'zone data returned'",
            "server clock = interposed CLOCK_REALTIME read by Time::current_time()",
        ],
        subs: vec![mutations, complete, configured, client, client_udp, flips, trunc, xfer],
    })
}
