//! C10 — Authoritative answers follow the RFC 1034 §4.3.2 algorithm.
//!
//! Generated zones (gen::zones) are loaded into hickory's `InMemoryZoneHandler` through
//! `upsert_mut` (optionally signed with NSEC / NSEC3) and — independently — rendered into the
//! reference model `refm::auth_ref`. Queries go in as octets: `Request::from_bytes` →
//! `Catalog::handle_request::<_, SimTime>` → the real `ResponseHandle` → response octets, which
//! are read back with the harness's own wire reader (`refm::wire_lite`).

use std::collections::{BTreeMap, BTreeSet};
use std::net::SocketAddr;
use std::sync::Arc;

use futures_util::{FutureExt, StreamExt};
use hickory_net::xfer::Protocol;
use hickory_net::BufDnsStreamHandle;
use hickory_proto::dnssec::crypto::Ed25519SigningKey;
use hickory_proto::dnssec::rdata::DNSKEY;
use hickory_proto::dnssec::{DnssecSigner, Nsec3HashAlgorithm, SigningKey};
use hickory_proto::rr::LowerName;
use hickory_server::dnssec::NxProofKind;
use hickory_server::server::{Request, RequestHandler, ResponseHandle};
use hickory_server::store::in_memory::InMemoryZoneHandler;
use hickory_server::zone_handler::{AxfrPolicy, Catalog, ZoneType};
use proptest::collection::vec;
use proptest::prelude::*;
use serde::{Deserialize, Serialize};

use crate::core::{enumerate, prop, CaseResult, Check, Fail, Rec, Tier};
use crate::gen::zones::{self, hname, MRData, MRec, MZone, SOA_SERIAL};
use crate::refm::auth_ref::{self, AuthExpect, Expect, NoDataKind, PathKind, RefZone, Rr, Step};
use crate::refm::canon;
use crate::refm::wire_lite::{self as wl, Name};
use crate::sim::{SimRt, SimTime};

pub const QTYPES: [u16; 9] = [
    wl::T_A,
    wl::T_AAAA,
    wl::T_MX,
    wl::T_NS,
    wl::T_CNAME,
    wl::T_SOA,
    wl::T_DS,
    wl::T_TXT,
    wl::T_ANY,
];

// Signatures of the RFC 4592 deviations upstream itself documents (`#[ignore]`d tests in
// tests/integration-tests/tests/integration/rfc4592_tests.rs). Each is a predicate over
// (zone, reference outcome, actual response) — see `classify` — narrow enough for one root cause.
pub const SIG_PAST_ENCLOSER: &str = "wildcard-synthesis-past-closest-encloser";
pub const SIG_AT_EXISTING: &str = "wildcard-synthesis-at-existing-name";
pub const SIG_WILD_NODATA_NX: &str = "wildcard-nodata-as-nxdomain";
pub const SIG_ASTERISK_QNAME: &str = "asterisk-qname-not-matched-by-wildcard";
/// RFC 1034 §6.2.6 (referral example: header without AA), RFC 1035 §4.1.1
pub const SIG_REFERRAL_AA: &str = "referral-with-aa-set";

/// the referral test in `build_authoritative_response` is skipped for QTYPE NS and ANY: the cut's NS
/// RRset goes into the answer section (AA set) instead of a referral
pub const SIG_NS_ANY_AT_CUT: &str = "ns-or-any-query-at-or-below-cut-answered-not-referred";
/// for QTYPE=SOA `build_authoritative_response` puts the apex NS RRset into the authority section
/// whatever the lookup returned: a referral then carries two NS RRsets, a wildcard answer loses
/// its denial proof
pub const SIG_SOA_QTYPE: &str = "soa-qtype-apex-ns-forced-into-authority";

/// `inner_lookup` looks for a delegation from QNAME upwards and stops at the first NS owner
pub const SIG_NESTED_CUT: &str = "referral-to-occluded-ns-below-the-closest-cut";

pub const SIG_CNAME_CUT: &str = "cname-chase-puts-delegation-ns-into-answer";

/// `closest_nsec` recognises the last NSEC of the chain by `next < owner`; with a single NSEC
/// (`next == owner`) nothing covers a non-existent name
pub const SIG_SINGLE_NSEC: &str = "nxdomain-without-nsec-when-chain-has-one-nsec";

/// the apex is the only name with authoritative data (the NSEC chain is `apex NSEC apex`)
fn single_nsec_zone(z: &RefZone) -> bool {
    z.nodes
        .iter()
        .filter(|(_, v)| !v.is_empty())
        .all(|(k, _)| *k == z.origin || z.cut_on_path(k).is_some_and(|c| c.len() < k.len()))
}

/// signatures listed as known for C10: used only to order the failures found inside one zone, so
/// that a known deviation of one query never hides an unknown one of another query (DESIGN §6:
/// "the search continues behind them"). Whether a failure is excluded is still the engine's call.
fn known_sigs() -> &'static BTreeSet<String> {
    static K: std::sync::OnceLock<BTreeSet<String>> = std::sync::OnceLock::new();
    K.get_or_init(|| {
        let mut out = BTreeSet::new();
        if let Ok(txt) = std::fs::read_to_string(crate::core::vpath("known_findings.json")) {
            if let Ok(v) = serde_json::from_str::<serde_json::Value>(&txt) {
                for f in v["findings"].as_array().cloned().unwrap_or_default() {
                    if f["property"] == "C10" && f["status"] == "known" {
                        if let Some(s) = f["signature"].as_str() {
                            out.insert(s.to_string());
                        }
                    }
                }
            }
        }
        out
    })
}

#[derive(Clone, Debug, PartialEq, Eq, Serialize, Deserialize)]
pub enum Sign {
    Unsigned,
    Nsec,
    Nsec3 { iterations: u8, salt_len: u8, opt_out: bool },
}

impl Sign {
    fn label(&self) -> &'static str {
        match self {
            Sign::Unsigned => "unsigned",
            Sign::Nsec => "nsec",
            Sign::Nsec3 { opt_out: false, .. } => "nsec3",
            Sign::Nsec3 { opt_out: true, .. } => "nsec3-optout",
        }
    }
    fn signed(&self) -> bool {
        *self != Sign::Unsigned
    }
}

#[derive(Clone, Debug, Serialize, Deserialize)]
pub struct QSpec {
    pub name: String,
    pub do_bit: bool,
    pub edns: bool,
    pub tcp: bool,
    /// letters of the query name to send in upper case (bit i ↔ i-th letter, cyclic)
    pub upper: u16,
}

#[derive(Clone, Debug, Serialize, Deserialize)]
pub struct Case {
    pub zone: MZone,
    pub sign: Sign,
    pub queries: Vec<QSpec>,
}

fn sign_strategy() -> impl Strategy<Value = Sign> {
    prop_oneof![
        4 => Just(Sign::Unsigned),
        2 => Just(Sign::Nsec),
        2 => (0u8..3, prop_oneof![Just(0u8), Just(4u8)], prop::bool::weighted(0.25))
            .prop_map(|(iterations, salt_len, opt_out)| Sign::Nsec3 { iterations, salt_len, opt_out }),
    ]
}

fn qspec(names: (Vec<String>, Vec<String>)) -> impl Strategy<Value = QSpec> {
    let (core, near) = names;
    let name = prop_oneof![
        5 => prop::sample::select(core),
        4 => prop::sample::select(near),
    ];
    (name, any::<bool>(), any::<bool>(), any::<bool>(), prop_oneof![3 => Just(0u16), 1 => any::<u16>()]).prop_map(
        |(name, do_bit, edns, tcp, upper)| QSpec {
            name,
            do_bit,
            edns: edns || do_bit,
            tcp,
            upper,
        },
    )
}

fn case_strategy(tier: Tier) -> impl Strategy<Value = Case> {
    let max_feats = match tier {
        Tier::Quick => 7,
        Tier::Thorough => 9,
    };
    zones::zone(max_feats).prop_flat_map(|z| {
        let names = zones::around(&z);
        (Just(z), sign_strategy(), vec(qspec(names), 5..=8)).prop_map(|(zone, sign, queries)| Case { zone, sign, queries })
    })
}

// ---------------------------------------------------------------------------------------------
// the system under test

fn harness(msg: impl Into<String>) -> Fail {
    Fail::new("harness", msg)
}

pub fn build_handler(z: &MZone, sign: &Sign) -> Result<InMemoryZoneHandler<SimRt>, Fail> {
    let nx = match sign {
        Sign::Unsigned => None,
        Sign::Nsec => Some(NxProofKind::Nsec),
        Sign::Nsec3 {
            iterations,
            salt_len,
            opt_out,
        } => Some(NxProofKind::Nsec3 {
            algorithm: Nsec3HashAlgorithm::SHA1,
            salt: Arc::from(vec![0xabu8; *salt_len as usize]),
            iterations: *iterations as u16,
            opt_out: *opt_out,
        }),
    };
    let origin = hname(&z.origin);
    let mut h = InMemoryZoneHandler::<SimRt>::empty(origin.clone(), ZoneType::Primary, AxfrPolicy::Deny, nx);
    for r in z.hickory_records() {
        let shown = format!("{r}");
        if !h.upsert_mut(r, SOA_SERIAL) {
            // the generator only builds zones a primary accepts; a refusal is a generator bug
            return Err(harness(format!("upsert_mut refused {shown}")));
        }
    }
    if sign.signed() {
        let kp = ring::signature::Ed25519KeyPair::from_seed_unchecked(&[0x42; 32]).map_err(|e| harness(format!("key: {e}")))?;
        let key = Ed25519SigningKey::from_ed25519(kp);
        let pk = key.to_public_key().map_err(|e| harness(format!("public key: {e}")))?;
        let signer = DnssecSigner::new(
            DNSKEY::from_key(&pk),
            Box::new(key),
            origin,
            std::time::Duration::from_secs(7 * 86400),
        );
        h.add_zone_signing_key_mut(signer).map_err(|e| harness(format!("add key: {e}")))?;
        h.secure_zone_mut().map_err(|e| harness(format!("secure_zone: {e}")))?;
    }
    Ok(h)
}

pub fn catalog_for(z: &MZone, sign: &Sign) -> Result<Catalog, Fail> {
    let h = build_handler(z, sign)?;
    let mut c = Catalog::new();
    c.upsert(LowerName::from(hname(&z.origin)), vec![Arc::new(h)]);
    Ok(c)
}

/// send request octets through the catalog; returns every message the response handle emitted
pub fn ask(catalog: &Catalog, bytes: Vec<u8>, tcp: bool) -> Result<Vec<Vec<u8>>, Fail> {
    let src: SocketAddr = "192.0.2.77:5353".parse().unwrap();
    let proto = if tcp { Protocol::Tcp } else { Protocol::Udp };
    let req = Request::from_bytes(bytes, src, proto).map_err(|e| Fail::new("valid-query-rejected", format!("Request::from_bytes: {e}")))?;
    let (handle, mut rx) = BufDnsStreamHandle::new(src);
    let rh = ResponseHandle::new(src, handle, proto);
    futures_executor::block_on(catalog.handle_request::<_, SimTime>(&req, rh));
    let mut out = Vec::new();
    while let Some(Some(m)) = rx.next().now_or_never() {
        out.push(m.into_parts().0);
    }
    Ok(out)
}

// ---------------------------------------------------------------------------------------------
// observation

#[derive(Clone, Debug)]
struct ARr {
    owner: Name,
    rtype: u16,
    rdata: Vec<u8>,
    /// for RRSIG: (type covered, labels field)
    covers: Option<(u16, u8)>,
}

#[derive(Clone, Debug)]
struct Actual {
    rcode: u16,
    aa: bool,
    tc: bool,
    answer: Vec<ARr>,
    authority: Vec<ARr>,
}

fn observe(resp: &[u8], id: u16) -> Result<Actual, Fail> {
    let m = wl::parse(resp).map_err(|e| Fail::new("response-unparseable", format!("{e:?}: {}", crate::core::hexser::to_hex(resp))))?;
    vensure!(m.header.qr, "response-without-qr", "QR clear in response");
    vensure!(m.header.id == id, "response-id-mismatch", "sent id {id}, got {}", m.header.id);
    let conv = |rrs: &[wl::Rr]| -> Result<Vec<ARr>, Fail> {
        rrs.iter()
            .map(|rr| {
                Ok(ARr {
                    owner: canon::lower(&rr.owner),
                    rtype: rr.rtype,
                    rdata: wl::rdata_canon(resp, rr).map_err(|e| Fail::new("response-unparseable", format!("rdata {e:?}")))?,
                    covers: wl::rrsig_head(resp, rr).map(|(t, _, l)| (t, l)),
                })
            })
            .collect()
    };
    Ok(Actual {
        rcode: m.rcode(),
        aa: m.header.aa,
        tc: m.header.tc,
        answer: conv(&m.answers)?,
        authority: conv(&m.authorities)?,
    })
}

fn is_dnssec_meta(t: u16) -> bool {
    matches!(t, wl::T_RRSIG | wl::T_NSEC | wl::T_NSEC3)
}

fn show_arrs(v: &[ARr]) -> String {
    let s: Vec<String> = v
        .iter()
        .map(|r| match r.covers {
            Some((t, _)) => format!("{} RRSIG({})", canon::show(&r.owner), wl::type_name(t)),
            None => auth_ref::show_rr(&(r.owner.clone(), r.rtype, r.rdata.clone())),
        })
        .collect();
    format!("[{}]", s.join("; "))
}

// ---------------------------------------------------------------------------------------------
// the documented RFC 4592 deviations, as predicates over (zone, reference outcome, response)

/// If every record in `at_n` (all owned by `n`) is exactly one RRset of a wildcard `*.A` with `A`
/// a proper ancestor of `n` inside the zone, return `A`.
fn synthesized_from(z: &RefZone, n: &[Vec<u8>], at_n: &[&ARr]) -> Option<Name> {
    let first = at_n.first()?;
    let t = first.rtype;
    if at_n.iter().any(|r| r.rtype != t) {
        return None;
    }
    let got: BTreeSet<&Vec<u8>> = at_n.iter().map(|r| &r.rdata).collect();
    let mut anc = &n[1..];
    loop {
        if !z.in_zone(anc) {
            return None;
        }
        let w = auth_ref::wildcard_of(anc);
        if let Some(set) = z.rrset(&w, t) {
            if set.iter().collect::<BTreeSet<_>>() == got {
                return Some(anc.to_vec());
            }
        }
        if anc.is_empty() {
            return None;
        }
        anc = &anc[1..];
    }
}

fn classify(z: &RefZone, qname: &[Vec<u8>], qtype: u16, exp: &Expect, act: &Actual) -> Option<&'static str> {
    let data: Vec<&ARr> = act.answer.iter().filter(|r| !is_dnssec_meta(r.rtype)).collect();
    let n = &exp.final_name;
    let expected: BTreeSet<Rr> = exp.chain.iter().cloned().chain(exp.terminal.iter().cloned()).collect();
    // records of a fitting type at the name where the reference stopped that the reference does not
    // have there (whatever else follows a wrongly synthesised CNAME is a consequence of it)
    let type_fits = |r: &ARr| r.rtype == qtype || r.rtype == wl::T_CNAME || qtype == wl::T_ANY;
    let mut at_n: Vec<&ARr> = data
        .iter()
        .copied()
        .filter(|r| &r.owner == n && type_fits(r) && !expected.contains(&(r.owner.clone(), r.rtype, r.rdata.clone())))
        .collect();
    if let Some(c) = at_n.iter().find(|r| r.rtype == wl::T_CNAME).map(|r| r.rtype) {
        at_n.retain(|r| r.rtype == c);
    }
    if let (AuthExpect::Referral { ns, .. }, true) = (&exp.authority, qtype == wl::T_NS || qtype == wl::T_ANY) {
        let got: BTreeSet<Rr> = data.iter().map(|r| (r.owner.clone(), r.rtype, r.rdata.clone())).collect();
        if &got == ns && act.rcode == wl::RC_NOERROR && !act.authority.iter().any(|r| r.rtype == wl::T_NS) {
            return Some(SIG_NS_ANY_AT_CUT);
        }
    }
    let synth = synthesized_from(z, n, &at_n);
    if let Some(a) = synth {
        // number of labels of the only legitimate source of synthesis, `*.<closest encloser>`
        let legit_source_len = match &exp.final_step {
            // RFC 4592 §2.2.2 / §3.3.1: an existing name (data of other types, or an empty non-terminal)
            // is never a subject of synthesis — upstream: "hickory does not check for blocking names"
            Step::NoData {
                kind: NoDataKind::Existing | NoDataKind::Ent,
            } => return Some(SIG_AT_EXISTING),
            Step::NxDomain { closest_encloser: ce } => Some(ce.len() + 1),
            Step::NoData {
                kind: NoDataKind::Wildcard { source },
            } => Some(source.len()),
            Step::Data {
                via_wildcard: Some(source),
                any: true,
                ..
            } => Some(source.len()),
            _ => None,
        };
        // RFC 4592 §3.3.1: only `*.<closest encloser>` may be the source — upstream: "hickory does not
        // treat wildcards as blocking themselves" (the search walks on to `*.<ancestor>`)
        if legit_source_len.is_some_and(|l| a.len() + 1 < l) {
            return Some(SIG_PAST_ENCLOSER);
        }
    }
    // RFC 1034 §4.3.2 3b: matching down from the apex stops at the *first* cut; NS records below it are
    // occluded. The server walks up from QNAME and refers to the deepest NS owner it meets.
    if let AuthExpect::Referral { cut, .. } = &exp.authority {
        // (for QTYPE NS/ANY the same NS RRset shows up in the answer section, see SIG_NS_ANY_AT_CUT)
        let in_answer = (qtype == wl::T_NS || qtype == wl::T_ANY) && !data.is_empty();
        // (for QTYPE SOA the apex NS RRset is appended as well, see SIG_SOA_QTYPE)
        let ns: Vec<&ARr> = if in_answer {
            data.clone()
        } else {
            act.authority
                .iter()
                .filter(|r| r.rtype == wl::T_NS && !(qtype == wl::T_SOA && r.owner == z.origin))
                .collect()
        };
        if let Some(first) = ns.first() {
            let lq = canon::lower(qname);
            let deeper = &first.owner;
            if deeper.len() > cut.len()
                && canon::is_suffix(cut, deeper)
                && canon::is_suffix(deeper, &lq)
                && ns.iter().all(|r| &r.owner == deeper && r.rtype == wl::T_NS)
                && z.rrset(deeper, wl::T_NS).is_some_and(|set| set.iter().collect::<BTreeSet<_>>() == ns.iter().map(|r| &r.rdata).collect())
                && (in_answer || data.is_empty())
            {
                return Some(SIG_NESTED_CUT);
            }
        }
    }
    // `chase_cnames` treats the NS RRset that `inner_lookup` returns for a name at/below a cut as the
    // terminal record of the chain and copies it into the answer section
    if let (Step::Referral { .. }, false) = (&exp.final_step, exp.chain.is_empty()) {
        let chain: BTreeSet<Rr> = exp.chain.iter().cloned().collect();
        let rest: Vec<&ARr> = data
            .iter()
            .copied()
            .filter(|r| !chain.contains(&(r.owner.clone(), r.rtype, r.rdata.clone())))
            .collect();
        if let Some(first) = rest.first() {
            let c = &first.owner;
            if rest.iter().all(|r| r.rtype == wl::T_NS && &r.owner == c)
                && z.is_cut(c)
                && canon::is_suffix(c, n)
                && z.rrset(c, wl::T_NS).is_some_and(|set| set.iter().collect::<BTreeSet<_>>() == rest.iter().map(|r| &r.rdata).collect())
                && data.len() == rest.len() + chain.len()
            {
                return Some(SIG_CNAME_CUT);
            }
        }
    }
    // the next one only concerns the original QNAME answered with an empty NXDOMAIN although its source
    // of synthesis exists
    let denied_empty = act.rcode == wl::RC_NXDOMAIN && data.is_empty();
    if denied_empty && exp.chain.is_empty() && !exp.name_exists {
        let nodata = matches!(
            exp.final_step,
            Step::NoData {
                kind: NoDataKind::Wildcard { .. }
            }
        );
        let any = matches!(
            exp.final_step,
            Step::Data {
                any: true,
                via_wildcard: Some(_),
                ..
            }
        );
        if nodata || any {
            // RFC 4592 §3.3 / §2.2.1 (host3.example A): "no error, but no data" — upstream: "hickory
            // only checks for one record type during wildcard synthesis (issue #2905)"
            return Some(SIG_WILD_NODATA_NX);
        }
    }
    // RFC 1034 §4.3.3: "A * label appearing in a query name has no special effect". For a name that
    // starts with `*`, does not exist and is covered by a wildcard — the original QNAME or a CNAME
    // target met while chasing — the reference synthesises; the server treats the name as a wildcard
    // owner, finds nothing and stops there.
    let mut names: Vec<&Name> = exp.chain.iter().map(|r| &r.0).collect();
    names.push(&exp.final_name);
    if let Some(i) = names.iter().position(|nm| nm.first().is_some_and(|l| l == b"*") && !z.exists(nm)) {
        let synthesised_there = i < exp.chain.len() || matches!(exp.final_step, Step::Data { via_wildcard: Some(_), .. });
        if synthesised_there {
            let prefix: BTreeSet<Rr> = exp.chain[..i].iter().cloned().collect();
            let got: BTreeSet<Rr> = data.iter().map(|r| (r.owner.clone(), r.rtype, r.rdata.clone())).collect();
            let rcode_fits = if i == 0 { act.rcode == wl::RC_NXDOMAIN } else { act.rcode == wl::RC_NOERROR };
            if got == prefix && rcode_fits {
                return Some(SIG_ASTERISK_QNAME);
            }
        }
    }
    None
}

// ---------------------------------------------------------------------------------------------
// the oracle

struct Verdict {
    fail: Option<Fail>,
    truncated: bool,
}

/// QTYPE=ANY may also be answered like a query for one concrete type (RFC 8482 §4.1: "a response with
/// a single RRset"; when that RRset is a CNAME the server may go on and chase it for that type): if
/// the answer holds records of other owners, it must be a correct answer for one of the data types.
#[allow(clippy::too_many_arguments)]
fn judge(z: &RefZone, sign: &Sign, q: &QSpec, qname: &[Vec<u8>], qtype: u16, exp: &Expect, act: &Actual, ctx: &dyn Fn() -> String) -> Verdict {
    let v = judge_as(z, sign, q, qname, qtype, exp, act, ctx);
    let lq = canon::lower(qname);
    let foreign = act.answer.iter().any(|r| !is_dnssec_meta(r.rtype) && r.owner != lq);
    if qtype != wl::T_ANY || v.fail.is_none() || !foreign || !exp.terminal.iter().any(|r| r.1 == wl::T_CNAME) {
        return v;
    }
    let mut first_alt = None;
    for alt in [wl::T_A, wl::T_AAAA, wl::T_MX, wl::T_TXT] {
        let e = z.answer(qname, alt);
        let va = judge_as(z, sign, q, qname, alt, &e, act, ctx);
        if va.fail.is_none() {
            return va;
        }
        first_alt.get_or_insert(va);
    }
    first_alt.unwrap_or(v)
}

#[allow(clippy::too_many_arguments)]
fn judge_as(z: &RefZone, sign: &Sign, q: &QSpec, qname: &[Vec<u8>], qtype: u16, exp: &Expect, act: &Actual, ctx: &dyn Fn() -> String) -> Verdict {
    let mut v = Verdict {
        fail: None,
        truncated: act.tc,
    };
    if act.tc {
        // sections were cut to fit: nothing below can be compared (C03's subject)
        return v;
    }
    let p = exp.path.label();
    let fail = |aspect: &str, what: String| Fail::new(format!("{p}:{aspect}"), format!("{what}\n{}", ctx()));

    if let Some(sig) = classify(z, qname, qtype, exp, act) {
        v.fail = Some(Fail::new(sig, format!("matches a recorded deviation predicate (see classify)\n{}", ctx())));
        return v;
    }

    let r = (|| -> Result<(), Fail> {
        // --- rcode -----------------------------------------------------------------------------
        if !exp.rcodes.contains(&act.rcode) {
            return Err(fail(
                "rcode",
                format!(
                    "rcode {} but the reference allows {:?}",
                    wl::rcode_name(act.rcode),
                    exp.rcodes.iter().map(|r| wl::rcode_name(*r)).collect::<Vec<_>>()
                ),
            ));
        }
        // --- never data from below a cut (answer and authority sections) -------------------------
        for (sec, rrs) in [("answer", &act.answer), ("authority", &act.authority)] {
            for r in rrs.iter() {
                let t = r.covers.map(|c| c.0).unwrap_or(r.rtype);
                if z.occluded(&r.owner, t) {
                    return Err(Fail::new(
                        format!("data-from-below-cut:{sec}"),
                        format!("{} {} sits at/below a zone cut\n{}", canon::show(&r.owner), wl::type_name(t), ctx()),
                    ));
                }
            }
        }
        // --- answer section as a set ---------------------------------------------------------------
        let data: Vec<&ARr> = act.answer.iter().filter(|r| !is_dnssec_meta(r.rtype)).collect();
        let got: BTreeSet<Rr> = data.iter().map(|r| (r.owner.clone(), r.rtype, r.rdata.clone())).collect();
        if exp.any {
            // RFC 8482 §4: any subset of the RRsets at the name (here: ⊆, and owned by QNAME)
            let lq = canon::lower(qname);
            for r in &data {
                if r.owner == lq {
                    let zone_meta = sign.signed() && matches!(r.rtype, wl::T_DNSKEY | wl::T_NSEC3PARAM);
                    if !zone_meta && !exp.terminal.contains(&(r.owner.clone(), r.rtype, r.rdata.clone())) {
                        return Err(fail("answer-not-subset", format!("ANY returned a record that is not at the name: {}", show_arrs(&[(*r).clone()]))));
                    }
                } else {
                    return Err(fail("answer-foreign-owner", format!("ANY returned a record of another owner: {}", show_arrs(&[(*r).clone()]))));
                }
            }
        } else {
            let ok = RefZone::acceptable_answers(exp);
            if !ok.contains(&got) {
                return Err(fail(
                    "answer",
                    format!("answer section {} ; reference {}", auth_ref::show_set(&got), auth_ref::show_set(&ok[0])),
                ));
            }
            if !exp.chain.is_empty() && data.len() != got.len() {
                return Err(fail("answer-duplicates", "a chased answer repeats a record (loop not cut)".into()));
            }
        }
        // --- authority section ---------------------------------------------------------------------
        match &exp.authority {
            AuthExpect::Unspecified => {}
            AuthExpect::Soa => {
                let has = act.authority.iter().any(|r| r.rtype == wl::T_SOA && r.owner == z.origin);
                if !has {
                    return Err(fail("soa-missing", format!("negative answer without the zone's SOA in authority: {}", show_arrs(&act.authority))));
                }
                if let Some(set) = z.rrset(&z.origin, wl::T_SOA) {
                    let same = act.authority.iter().filter(|r| r.rtype == wl::T_SOA).all(|r| set.contains(&r.rdata));
                    if !same {
                        return Err(fail("soa-rdata", "SOA in authority differs from the zone's SOA".into()));
                    }
                }
            }
            AuthExpect::Referral { cut, ns } => {
                let got_ns: BTreeSet<Rr> = act
                    .authority
                    .iter()
                    .filter(|r| r.rtype == wl::T_NS)
                    .map(|r| (r.owner.clone(), r.rtype, r.rdata.clone()))
                    .collect();
                if &got_ns != ns {
                    let apex: BTreeSet<Rr> = z
                        .rrset(&z.origin, wl::T_NS)
                        .map(|s| s.iter().map(|rd| (z.origin.clone(), wl::T_NS, rd.clone())).collect())
                        .unwrap_or_default();
                    if qtype == wl::T_SOA && got_ns == ns.union(&apex).cloned().collect() {
                        return Err(Fail::new(SIG_SOA_QTYPE, format!("referral for an SOA query also carries the apex NS RRset\n{}", ctx())));
                    }
                    return Err(fail(
                        "authority-ns",
                        format!(
                            "referral must carry exactly the NS RRset of {} ; authority has {}",
                            canon::show(cut),
                            auth_ref::show_set(&got_ns)
                        ),
                    ));
                }
                if act.authority.iter().any(|r| r.rtype == wl::T_SOA) {
                    return Err(fail("authority-soa", "referral carries an SOA".into()));
                }
            }
        }
        // --- DNSSEC: signed zone and DO set ----------------------------------------------------------
        if sign.signed() && q.do_bit {
            for (sec, rrs) in [("answer", &act.answer), ("authority", &act.authority)] {
                let mut sets: BTreeMap<(Name, u16), bool> = BTreeMap::new();
                for r in rrs.iter() {
                    if r.rtype != wl::T_RRSIG {
                        sets.entry((r.owner.clone(), r.rtype)).or_insert(false);
                    }
                }
                for r in rrs.iter() {
                    if let Some((t, _)) = r.covers {
                        if let Some(s) = sets.get_mut(&(r.owner.clone(), t)) {
                            *s = true;
                        }
                    }
                }
                for ((owner, t), covered) in sets {
                    // authoritative RRsets only: not the NS of a delegation, nothing occluded, and only
                    // names of this zone (an out-of-zone owner cannot be signed by it)
                    let delegation_ns = t == wl::T_NS && z.is_cut(&owner);
                    if covered || delegation_ns || !z.in_zone(&owner) || z.occluded(&owner, t) {
                        continue;
                    }
                    return Err(Fail::new(
                        format!("rrsig-missing:{sec}"),
                        format!("{} {} in the {sec} section has no covering RRSIG\n{}", canon::show(&owner), wl::type_name(t), ctx()),
                    ));
                }
            }
            if exp.direct_negative || exp.direct_wildcard {
                let want = if *sign == Sign::Nsec { wl::T_NSEC } else { wl::T_NSEC3 };
                if !act.authority.iter().any(|r| r.rtype == want) {
                    let apex_ns = act.authority.iter().any(|r| r.rtype == wl::T_NS && r.owner == z.origin);
                    if qtype == wl::T_SOA && exp.direct_wildcard && apex_ns {
                        return Err(Fail::new(SIG_SOA_QTYPE, format!("wildcard answer to an SOA query: apex NS instead of {}\n{}", wl::type_name(want), ctx())));
                    }
                    if *sign == Sign::Nsec && exp.path == PathKind::NxDomain && single_nsec_zone(z) {
                        return Err(Fail::new(SIG_SINGLE_NSEC, format!("NXDOMAIN without NSEC in a zone whose NSEC chain has one element\n{}", ctx())));
                    }
                    return Err(fail(
                        "denial-missing",
                        format!("negative / wildcard answer without {} in authority: {}", wl::type_name(want), show_arrs(&act.authority)),
                    ));
                }
            }
            // RFC 5155 7.2.3 / 7.2.4: a NODATA answer for a name that exists (also as an empty
            // non-terminal) carries the NSEC3 RR that *matches* the query name -- an NSEC3 that merely
            // covers it would say the name does not exist. Judged from the records themselves: the
            // parameters are read from each NSEC3 RR and the hash is recomputed here.
            // (query names with an asterisk label are left to the known RFC 4592 deviations)
            let asterisk_in_qname = qname.iter().any(|l| l.as_slice() == b"*");
            if *sign != Sign::Nsec && matches!(exp.path, PathKind::NoDataExisting | PathKind::NoDataEnt) && exp.direct_negative && act.rcode == wl::RC_NOERROR && !asterisk_in_qname {
                let nsec3s: Vec<&ARr> = act.authority.iter().filter(|r| r.rtype == wl::T_NSEC3).collect();
                let opt_out = nsec3s.iter().any(|r| r.rdata.get(1).is_some_and(|f| f & 1 != 0));
                let matches_qname = nsec3s.iter().any(|r| {
                    let rd = &r.rdata;
                    if rd.len() < 5 || rd[0] != 1 {
                        return false;
                    }
                    let iterations = u16::from_be_bytes([rd[2], rd[3]]);
                    let sl = rd[4] as usize;
                    let Some(salt) = rd.get(5..5 + sl) else { return false };
                    let h = crate::refm::zonemodel::nsec3_hash(qname, salt, iterations);
                    r.owner.first().is_some_and(|l| l.eq_ignore_ascii_case(base32hex(&h).as_bytes()))
                });
                if !nsec3s.is_empty() && !opt_out && !matches_qname {
                    return Err(fail(
                        "nodata-without-nsec3-matching-the-query-name",
                        format!("NODATA for an existing name, but no NSEC3 RR in the authority section matches H(qname): {}", show_arrs(&act.authority)),
                    ));
                }
            }
            // RFC 4035 3.1.3 / RFC 5155 7.2: NSEC / NSEC3 records accompany negative answers,
            // wildcard answers and referrals to unsigned children. A plain positive answer (exact
            // data, or a CNAME chain ending in stored data) has nothing to deny; an NSEC(3) matching
            // the query name there reads, to a validator, as the claim that the type is absent.
            let positive = matches!(exp.path, PathKind::ExactHost | PathKind::ExactApex)
                || (exp.path == PathKind::Cname && matches!(exp.final_step, Step::Data { .. }));
            let wildcard_seen = act.answer.iter().any(|r| r.covers.is_some_and(|(_, labels)| (labels as usize) < r.owner.len() - usize::from(r.owner.first().is_some_and(|l| l.as_slice() == b"*"))));
            if positive && !wildcard_seen && act.rcode == wl::RC_NOERROR {
                if let Some(d) = act.authority.iter().find(|r| r.rtype == wl::T_NSEC || r.rtype == wl::T_NSEC3) {
                    return Err(Fail::new(
                        if d.rtype == wl::T_NSEC3 { "positive-answer-carries-nsec3" } else { "positive-answer-carries-nsec" },
                        format!("a plain positive answer carries {} {} in the authority section\n{}", canon::show(&d.owner), wl::type_name(d.rtype), ctx()),
                    ));
                }
            }
        }
        // --- AA (last, so that a response deviating only in AA is reported as exactly that) -----------
        if let Some(aa) = exp.aa {
            if act.aa != aa {
                let sig = if exp.path == PathKind::Referral { SIG_REFERRAL_AA.to_string() } else { format!("{p}:aa") };
                return Err(Fail::new(sig, format!("AA={} but the reference says AA={}\n{}", act.aa, aa, ctx())));
            }
        }
        Ok(())
    })();
    v.fail = r.err();
    v
}

/// RFC 4648 7 base32hex without padding, lower case (the form NSEC3 owner labels use)
fn base32hex(data: &[u8]) -> String {
    const AL: &[u8; 32] = b"0123456789abcdefghijklmnopqrstuv";
    let mut out = String::new();
    let (mut acc, mut bits) = (0u32, 0u32);
    for b in data {
        acc = (acc << 8) | *b as u32;
        bits += 8;
        while bits >= 5 {
            bits -= 5;
            out.push(AL[((acc >> bits) & 31) as usize] as char);
        }
    }
    if bits > 0 {
        out.push(AL[((acc << (5 - bits)) & 31) as usize] as char);
    }
    out
}

fn apply_upper(name: &str, mask: u16) -> Name {
    let mut i = 0u32;
    wl::parse_name_str(name)
        .into_iter()
        .map(|l| {
            l.into_iter()
                .map(|b| {
                    if b.is_ascii_lowercase() {
                        let up = (mask >> (i % 16)) & 1 == 1;
                        i += 1;
                        if up {
                            b.to_ascii_uppercase()
                        } else {
                            b
                        }
                    } else {
                        b
                    }
                })
                .collect()
        })
        .collect()
}

fn nontrivial_path(p: PathKind) -> bool {
    !matches!(p, PathKind::ExactHost | PathKind::ExactApex)
}

fn zone_classes(z: &MZone, refz: &RefZone, rec: &mut Rec) {
    let mut wild = false;
    let mut inner_wild = false;
    let mut cut = false;
    let mut ds = false;
    let mut cname = false;
    let mut occluded = false;
    let mut ent = false;
    for r in &z.recs {
        let o = wl::parse_name_str(&r.owner);
        if o.first().is_some_and(|l| l == b"*") {
            wild = true;
        }
        if o.iter().skip(1).any(|l| l == b"*") {
            inner_wild = true;
        }
        match r.rd {
            MRData::Ns(_) if r.owner != z.origin => cut = true,
            MRData::Ds(_) => ds = true,
            MRData::Cname(_) => cname = true,
            _ => {}
        }
        if refz.occluded(&o, r.rd.rtype()) {
            occluded = true;
        }
        if o.len() > refz.origin.len() + 1 && !refz.has_data(&o[1..]) {
            ent = true;
        }
    }
    for (on, l) in [
        (wild, "zone/wildcard"),
        (inner_wild, "zone/asterisk-inside-name"),
        (cut, "zone/delegation"),
        (ds, "zone/ds"),
        (cname, "zone/cname"),
        (occluded, "zone/occluded-data"),
        (ent, "zone/empty-non-terminal"),
    ] {
        if on {
            rec.class(l);
        }
    }
}

fn run_case(c: &Case, rec: &mut Rec, self_check: Option<&[(String, u16, PathKind)]>) -> CaseResult {
    let _clock = crate::clock::VirtualClock::start(1_750_000_000);
    if let Err(e) = c.zone.validate() {
        rec.discard("malformed-zone");
        let _ = e;
        return Ok(());
    }
    let served_serial = if c.sign.signed() { SOA_SERIAL + 1 } else { SOA_SERIAL };
    let refz = c.zone.to_ref(served_serial);
    let catalog = catalog_for(&c.zone, &c.sign)?;
    rec.class(format!("sign/{}", c.sign.label()));
    zone_classes(&c.zone, &refz, rec);

    if let Some(expected_paths) = self_check {
        // the model must reproduce the outcomes RFC 4592 §2.2.1 itself lists for its example zone
        for (name, qtype, path) in expected_paths {
            let e = refz.answer(&wl::parse_name_str(name), *qtype);
            vensure!(
                e.path == *path,
                "oracle-self-check",
                "reference model says {:?} for {} {}, RFC 4592 §2.2.1 says {:?}",
                e.path,
                name,
                wl::type_name(*qtype),
                path
            );
        }
    }

    let mut fails: Vec<Fail> = Vec::new();
    let mut nt = 0u64;
    let mut id = 0x1000u16;
    for q in &c.queries {
        let qname = apply_upper(&q.name, q.upper);
        if q.upper != 0 {
            rec.class("query/mixed-case");
        }
        for qtype in QTYPES {
            id = id.wrapping_add(1);
            let opt = q.edns.then(|| wl::OutRr::opt(4096, 0, 0, q.do_bit, vec![]));
            let bytes = wl::build_query(id, &qname, qtype, 1, opt.as_ref());
            let exp = refz.answer(&qname, qtype);
            let msgs = ask(&catalog, bytes, q.tcp)?;
            let ctx_head = format!(
                "query {} {} DO={} edns={} {} on {} zone",
                canon::show(&qname),
                wl::type_name(qtype),
                q.do_bit as u8,
                q.edns as u8,
                if q.tcp { "tcp" } else { "udp" },
                c.sign.label()
            );
            vensure!(msgs.len() == 1, "response-count", "{} responses\n{ctx_head}\n{}", msgs.len(), c.zone.show());
            let act = observe(&msgs[0], id)?;
            let ctx = || {
                format!(
                    "{ctx_head}\nreference: path={} rcode∈{:?} aa={:?} answer={} final={:?}\nactual: rcode={} aa={} answer={} authority={}\n{}",
                    exp.path.label(),
                    exp.rcodes.iter().map(|r| wl::rcode_name(*r)).collect::<Vec<_>>(),
                    exp.aa,
                    auth_ref::show_set(&RefZone::acceptable_answers(&exp)[0]),
                    exp.final_step,
                    wl::rcode_name(act.rcode),
                    act.aa,
                    show_arrs(&act.answer),
                    show_arrs(&act.authority),
                    c.zone.show()
                )
            };
            let v = judge(&refz, &c.sign, q, &qname, qtype, &exp, &act, &ctx);
            rec.class(format!("path/{}", exp.path.label()));
            if exp.chain_loop {
                rec.class("path/cname-loop");
            }
            if exp.chain.len() + usize::from(!exp.terminal.is_empty()) > auth_ref::CHAIN_BOUND {
                rec.class("path/chain-over-bound");
            }
            if !exp.chain.is_empty() {
                rec.class(match exp.final_step {
                    Step::Data { .. } => "chain-end/data",
                    Step::NoData { .. } => "chain-end/nodata",
                    Step::NxDomain { .. } => "chain-end/nxdomain",
                    Step::Referral { .. } => "chain-end/below-cut",
                    Step::OutOfZone => "chain-end/out-of-zone",
                    Step::Cname { .. } => "chain-end/loop",
                });
            }
            if v.truncated {
                rec.count("truncated-responses", 1);
            }
            if q.do_bit && c.sign.signed() {
                rec.count("signed-do-queries", 1);
            }
            if nontrivial_path(exp.path) {
                nt += 1;
            }
            rec.count("queries", 1);
            if let Some(f) = v.fail {
                rec.count(format!("deviating-queries/{}", f.sig), 1);
                fails.push(f);
            }
        }
    }
    rec.count("nontrivial-queries", nt);
    if nt > 0 {
        rec.nontrivial();
        if rec.wants_note() {
            let qs: Vec<String> = c.queries.iter().map(|q| q.name.clone()).collect();
            rec.note(format!("{} [{}] qnames: {} × 9 qtypes", c.zone.show().replace('\n', " | "), c.sign.label(), qs.join(" ")));
        }
    }
    // a deviation that is not a recorded finding always wins over recorded ones found in the same zone
    if !rec.strict {
        if let Some(i) = fails.iter().position(|f| !known_sigs().contains(&f.sig)) {
            return Err(fails.swap_remove(i));
        }
    }
    match fails.into_iter().next() {
        Some(f) => Err(f),
        None => Ok(()),
    }
}

// ---------------------------------------------------------------------------------------------
// RFC 4592 §2.2.1 example zone with the outcomes the RFC lists (SRV replaced by TXT: the qtype
// universe of this check has no SRV; the structure — `_ssh._tcp.host1` below `host1` — is kept)

fn rfc4592_zone() -> MZone {
    let r = |o: &str, rd: MRData| MRec {
        owner: o.to_string(),
        rd,
    };
    MZone {
        origin: "example.".into(),
        recs: vec![
            r("example.", MRData::Ns("ns.example.com.".into())),
            r("example.", MRData::Ns("ns.example.net.".into())),
            r("*.example.", MRData::Txt("this is a wildcard".into())),
            r("*.example.", MRData::Mx(10, "host1.example.".into())),
            r("sub.*.example.", MRData::Txt("this is not a wildcard".into())),
            r("host1.example.", MRData::A(1)),
            r("_ssh._tcp.host1.example.", MRData::Txt("srv".into())),
            r("_ssh._tcp.host2.example.", MRData::Txt("srv".into())),
            r("subdel.example.", MRData::Ns("ns.example.com.".into())),
            r("subdel.example.", MRData::Ns("ns.example.net.".into())),
        ],
    }
}

fn rfc4592_expectations() -> Vec<(String, u16, PathKind)> {
    vec![
        ("host3.example.".into(), wl::T_MX, PathKind::Wildcard),
        ("host3.example.".into(), wl::T_A, PathKind::WildcardNoData),
        ("foo.bar.example.".into(), wl::T_TXT, PathKind::Wildcard),
        ("host1.example.".into(), wl::T_MX, PathKind::NoDataExisting),
        ("sub.*.example.".into(), wl::T_MX, PathKind::NoDataExisting),
        ("_telnet._tcp.host1.example.".into(), wl::T_TXT, PathKind::NxDomain),
        ("host.subdel.example.".into(), wl::T_A, PathKind::Referral),
        ("ghost.*.example.".into(), wl::T_MX, PathKind::NxDomain),
        // further readings of the same section
        ("_tcp.host1.example.".into(), wl::T_A, PathKind::NoDataEnt),
        ("*.example.".into(), wl::T_MX, PathKind::ExactHost),
        ("host2.example.".into(), wl::T_A, PathKind::NoDataEnt),
    ]
}

pub fn check() -> Option<Check> {
    let answers = prop(
        "answers",
        40_000,
        300_000,
        case_strategy,
        |c: &Case, rec: &mut Rec| run_case(c, rec, None),
    );
    let rfc = enumerate(
        "rfc4592_examples",
        |_env| {
            let zone = rfc4592_zone();
            let names: Vec<String> = rfc4592_expectations().into_iter().map(|e| e.0).collect();
            let mut cases = Vec::new();
            for sign in [
                Sign::Unsigned,
                Sign::Nsec,
                Sign::Nsec3 {
                    iterations: 1,
                    salt_len: 4,
                    opt_out: false,
                },
            ] {
                for name in &names {
                    for do_bit in [false, true] {
                        cases.push(Case {
                            zone: zone.clone(),
                            sign: sign.clone(),
                            queries: vec![QSpec {
                                name: name.clone(),
                                do_bit,
                                edns: do_bit,
                                tcp: true,
                                upper: 0,
                            }],
                        });
                    }
                }
            }
            (Box::new(cases.into_iter()) as Box<dyn Iterator<Item = Case> + Send>, true)
        },
        |c: &Case, rec: &mut Rec| {
            let exp = rfc4592_expectations();
            run_case(c, rec, Some(&exp))
        },
    );
    Some(Check {
        id: "C10",
        level: "exploration",
        rule: "zones constructed over labels {a,b,*,c,sub,ns,k0..k9}, depth ≤ 3 under the apex (hosts, ENTs, wildcards incl. *.a / a.* / sub.*, CNAME chains+loops with in/out-of-zone targets, delegations ±glue ±DS, occluded data), unsigned / NSEC / NSEC3-signed; per zone 5–8 query names in and around it (own names, ancestors, children, below cuts/wildcards/leaves, above and beside the apex, mixed case) × qtypes {A,AAAA,MX,NS,CNAME,SOA,DS,TXT,ANY} × DO/EDNS/UDP/TCP; every response compared with the RFC 1034 §4.3.2 + RFC 4592 reference model. A case (zone + its queries) is non-trivial iff at least one query's reference path is not an exact match of a plain host/apex RRset (CNAME, referral, wildcard, ENT, NODATA, NXDOMAIN, DS-at-cut, ANY, out-of-zone); counters.nontrivial-queries counts such (zone, query) pairs; distinct = hash of (zone, signing mode, queries).",
        assumptions: vec![
            "response octets are read with the harness's own RFC 1035 wire reader; additional section, record order, TTLs and out-of-zone CNAME targets are not judged",
            "after a CNAME chain the RCODE of a non-existent in-zone target may be NOERROR (RFC 1034 §4.3.2 3c) or NXDOMAIN (RFC 2308/6604); the authority section after a chain is not judged",
            "chains longer than the server's documented bound of 8 RRsets, and CNAME loops, only require a duplicate-free prefix of the chain",
            "QTYPE=ANY: RCODE and 'records owned by QNAME ⊆ RRsets at that name' only (RFC 8482)",
            "DNSSEC clause checks presence (covering RRSIG per authoritative RRset; at least one NSEC/NSEC3 on negative and wildcard answers), not sufficiency of the proof (C08/C09)",
            "truncated (TC) responses are counted and not compared",
        ],
        subs: vec![answers, rfc],
    })
}
