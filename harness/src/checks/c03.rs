//! C03 — Size-limited encoding truncates cleanly and never exceeds the limit.
//!
//! Codec clause: model message -> hickory `Message` -> `emit` with `BinEncoder::set_max_size(L)`
//! for limits constructed at the interesting places (record boundaries ± 0..3, inside a name /
//! the fixed fields / the RDATA of a record, inside OPT, inside TSIG, and the customary sizes).
//! Server clause: see `server_limits` (requests through the real front door and `ResponseHandle`).

use hickory_proto::op::Message;
use hickory_proto::serialize::binary::{BinDecodable, BinDecoder, BinEncodable, BinEncoder};
use proptest::prelude::*;
use serde::{Deserialize, Serialize};

use crate::checks::codec_util as cu;
use crate::core::{prop, CaseResult, Check, Rec};
use crate::gen::msg;
use crate::refm::wire_ref::{self as w, MMessage};

#[derive(Clone, Debug, Serialize, Deserialize)]
enum LimitSel {
    /// end of record k (in emission order) plus delta
    Boundary(usize, i8),
    /// inside record k at fraction f/256 of its length
    Inside(usize, u8),
    /// inside the owner name / fixed part / RDATA of record k
    InName(usize),
    InFixed(usize, u8),
    InRdata(usize, u8),
    Fixed(u16),
    /// anywhere between 12 and the full length + 8
    Anywhere(u16),
    /// inside the question section
    InQuestion(u8),
}

fn limit_sel() -> impl Strategy<Value = LimitSel> {
    prop_oneof![
        5 => (any::<usize>(), -3i8..=3).prop_map(|(k, d)| LimitSel::Boundary(k, d)),
        2 => (any::<usize>(), any::<u8>()).prop_map(|(k, f)| LimitSel::Inside(k, f)),
        2 => any::<usize>().prop_map(LimitSel::InName),
        2 => (any::<usize>(), 0u8..10).prop_map(|(k, o)| LimitSel::InFixed(k, o)),
        2 => (any::<usize>(), any::<u8>()).prop_map(|(k, f)| LimitSel::InRdata(k, f)),
        2 => prop::sample::select(vec![12u16, 13, 511, 512, 513, 1232, 4096, 65_535]).prop_map(LimitSel::Fixed),
        2 => any::<u16>().prop_map(LimitSel::Anywhere),
        1 => any::<u8>().prop_map(LimitSel::InQuestion),
    ]
}

#[derive(Clone, Debug, Serialize, Deserialize)]
struct Case {
    m: MMessage,
    limit: LimitSel,
}

fn resolve_limit(sel: &LimitSel, full: &[u8]) -> (usize, &'static str) {
    let sp = w::split(full).ok();
    let n = full.len();
    let recs = sp.as_ref().map(|s| s.records.as_slice()).unwrap_or(&[]);
    let clamp = |x: i64| -> usize { x.clamp(12, 65_535) as usize };
    let kind_of = |r: &w::RawRr| -> &'static str {
        match r.rtype {
            w::T_OPT => "opt",
            w::T_TSIG => "tsig",
            _ => "rr",
        }
    };
    match sel {
        LimitSel::Fixed(v) => (*v as usize, "fixed"),
        LimitSel::Anywhere(v) => (clamp(12 + (*v as i64 % (n as i64 + 8 - 12).max(1))), "anywhere"),
        LimitSel::InQuestion(f) => {
            let qe = recs.first().map(|r| r.start).unwrap_or(n);
            (clamp(12 + (*f as i64 * (qe as i64 - 12).max(0)) / 256), "in-question")
        }
        _ if recs.is_empty() => (clamp(n as i64), "no-records"),
        LimitSel::Boundary(k, d) => {
            let r = &recs[k % recs.len()];
            (clamp(r.rdata_end as i64 + *d as i64), if *d == 0 { "on-boundary" } else if *d < 0 { "just-below-boundary" } else { "just-above-boundary" })
        }
        LimitSel::Inside(k, f) => {
            let r = &recs[k % recs.len()];
            (clamp(r.start as i64 + (*f as i64 * (r.rdata_end - r.start) as i64) / 256), match kind_of(r) {
                "opt" => "inside-opt",
                "tsig" => "inside-tsig",
                _ => "inside-record",
            })
        }
        LimitSel::InName(k) => {
            let r = &recs[k % recs.len()];
            (clamp(r.start as i64 + 1), "inside-name")
        }
        LimitSel::InFixed(k, o) => {
            let r = &recs[k % recs.len()];
            (clamp(r.rdata_start as i64 - 10 + *o as i64), "inside-fixed-fields")
        }
        LimitSel::InRdata(k, f) => {
            let r = &recs[k % recs.len()];
            let l = (r.rdata_end - r.rdata_start) as i64;
            (clamp(r.rdata_start as i64 + (*f as i64 * l) / 256), match kind_of(r) {
                "opt" => "inside-opt",
                "tsig" => "inside-tsig",
                _ => "inside-rdata",
            })
        }
    }
}

fn truncation_body(c: &Case, rec: &mut Rec) -> CaseResult {
    let built = match cu::build_message(&c.m) {
        Ok(b) => b,
        Err(_) => {
            rec.discard("not-assemblable");
            return Ok(());
        }
    };
    let orig = built.msg;
    let full = match orig.to_vec() {
        Ok(b) => b,
        Err(_) => {
            rec.discard("full-encoding-failed");
            return Ok(());
        }
    };
    // what the full encoding decodes to is the reference for "the original sections" (C02 covers that
    // this equals `orig`); if the unlimited encoding itself truncated (over 64K) skip
    let full_msg = match Message::from_vec(&full) {
        Ok(m) => m,
        Err(_) => {
            rec.discard("full-encoding-undecodable");
            return Ok(());
        }
    };
    if full_msg.answers.len() != orig.answers.len() || full_msg.authorities.len() != orig.authorities.len() || full_msg.additionals.len() != orig.additionals.len() {
        rec.discard("over-64k");
        return Ok(());
    }
    let (limit, place) = resolve_limit(&c.limit, &full);
    truncation_oracle(&orig, &full, limit, place, rec)
}

/// the C03 codec oracle for one (message, limit)
pub fn truncation_oracle(orig: &Message, full: &[u8], limit: usize, place: &str, rec: &mut Rec) -> CaseResult {
    let mut buf = Vec::with_capacity(512);
    let res = {
        let mut enc = BinEncoder::new(&mut buf);
        enc.set_max_size(limit as u16);
        orig.emit(&mut enc)
    };
    rec.class(format!("limit={place}"));
    if let Err(_e) = res {
        rec.class("outcome=error");
        return Ok(());
    }
    vensure!(buf.len() <= limit, "encoded-longer-than-limit", "limit {limit}, {} octets produced", buf.len());
    let mut dec = BinDecoder::new(&buf);
    let got = match Message::read(&mut dec) {
        Ok(m) => m,
        Err(e) => vfail!("truncated-encoding-does-not-decode", "limit {limit} of {} octets: {e}", full.len()),
    };
    vensure!(
        dec.is_empty(),
        "trailing-octets-after-truncation",
        "limit {limit} (full {}): {} octets returned, decoding stops at {} leaving {} octets",
        full.len(),
        buf.len(),
        dec.index(),
        dec.len()
    );
    // header counts equal the records present — via the independent splitter
    match w::split(&buf) {
        Ok(sp) => vensure!(sp.end == buf.len(), "trailing-octets-after-truncation", "splitter: records end at {} of {}", sp.end, buf.len()),
        Err(e) => vfail!("header-counts-disagree-with-records", "limit {limit}: {e}"),
    }
    // questions intact
    vensure!(got.queries.len() == orig.queries.len(), "question-dropped", "{} of {} questions", got.queries.len(), orig.queries.len());
    // each section a deep-equal prefix
    let mut dropped = 0usize;
    let mut kept = 0usize;
    let mut cut_section = "none";
    for (name, g, o) in [("answer", &got.answers, &orig.answers), ("authority", &got.authorities, &orig.authorities), ("additional", &got.additionals, &orig.additionals)] {
        vensure!(g.len() <= o.len(), "section-grew", "{name}: {} records, original {}", g.len(), o.len());
        for (i, (x, y)) in g.iter().zip(o.iter()).enumerate() {
            if let Err(e) = cu::record_deep_eq(&format!("{name}[{i}]"), y, x) {
                vfail!("section-not-a-prefix", "limit {limit}: {e}");
            }
        }
        kept += g.len();
        if g.len() < o.len() {
            dropped += o.len() - g.len();
            if cut_section == "none" {
                cut_section = name;
            }
        }
    }
    match (&got.edns, &orig.edns) {
        (None, None) => {}
        (None, Some(_)) => {
            dropped += 1;
            if cut_section == "none" {
                cut_section = "opt";
            }
        }
        (Some(_), None) => vfail!("opt-invented", "truncated encoding has an OPT the original lacks"),
        (Some(a), Some(b)) => {
            kept += 1;
            // rcode_high is committed from the header on emit
            let mut b2 = b.clone();
            b2.set_rcode_high(orig.metadata.response_code.high());
            if let Err(e) = cu::edns_deep_eq(&Some(a.clone()), &Some(b2)) {
                vfail!("opt-changed-by-truncation", "{e}");
            }
        }
    }
    match (&got.signature, &orig.signature) {
        (None, None) => {}
        (None, Some(_)) => {
            dropped += 1;
            if cut_section == "none" {
                cut_section = "tsig";
            }
        }
        (Some(_), None) => vfail!("tsig-invented", "truncated encoding has a TSIG the original lacks"),
        (Some(a), Some(b)) => {
            kept += 1;
            vensure!(a.data == b.data && cu::labels(&a.name) == cu::labels(&b.name), "tsig-changed-by-truncation", "{a:?} vs {b:?}");
        }
    }
    // header: TC' = TC ∨ dropped, everything else unchanged
    let (gm, om) = (&got.metadata, &orig.metadata);
    let exp_tc = om.truncation || dropped > 0;
    vensure!(
        gm.truncation == exp_tc,
        if exp_tc { "tc-not-set-after-drop" } else { "tc-set-without-drop" },
        "limit {limit}: dropped {dropped} records, original TC {}, result TC {}",
        om.truncation,
        gm.truncation
    );
    vensure!(
        gm.id == om.id
            && gm.message_type == om.message_type
            && gm.op_code == om.op_code
            && gm.authoritative == om.authoritative
            && gm.recursion_desired == om.recursion_desired
            && gm.recursion_available == om.recursion_available
            && gm.authentic_data == om.authentic_data
            && gm.checking_disabled == om.checking_disabled
            && gm.response_code.low() == om.response_code.low(),
        "header-changed-by-truncation",
        "{gm:?} vs {om:?}"
    );
    if got.edns.is_some() {
        vensure!(gm.response_code == om.response_code, "header-changed-by-truncation", "rcode {:?} vs {:?}", gm.response_code, om.response_code);
    }
    rec.class(format!("cut-section={cut_section}"));
    rec.class(if dropped == 0 { "outcome=complete" } else { "outcome=truncated" });
    if dropped > 0 && kept > 0 {
        rec.nontrivial();
        if rec.wants_note() {
            rec.note(format!(
                "full {}B ({} an/{} au/{} ad, edns={}, tsig={}), limit {limit} ({place}) -> {}B, kept {kept}, dropped {dropped}, first cut in {cut_section}",
                full.len(),
                orig.answers.len(),
                orig.authorities.len(),
                orig.additionals.len(),
                orig.edns.is_some(),
                orig.signature.is_some(),
                buf.len()
            ));
        }
    }
    Ok(())
}

/// fuzz entry: first two octets = limit, the rest a packet; accepted packets are re-encoded under the limit
pub fn fuzz_one(data: &[u8]) -> CaseResult {
    if data.len() < 14 {
        return Ok(());
    }
    let limit = (u16::from_le_bytes([data[0], data[1]]) as usize).max(12);
    let Ok(orig) = Message::from_vec(&data[2..]) else { return Ok(()) };
    let Ok(full) = orig.to_vec() else { return Ok(()) };
    let Ok(full_msg) = Message::from_vec(&full) else { return Ok(()) };
    // the unlimited encoding must hold everything (otherwise the message is over 64K: out of domain)
    if full_msg.answers.len() != orig.answers.len() || full_msg.authorities.len() != orig.authorities.len() || full_msg.additionals.len() != orig.additionals.len() {
        return Ok(());
    }
    let mut rec = Rec::default();
    // limits relative to the full length are the interesting ones: fold the raw value around it
    let limit = if limit > full.len() + 8 { 12 + limit % (full.len() + 8 - 11).max(1) } else { limit };
    truncation_oracle(&full_msg, &full, limit, "fuzz", &mut rec)
}

pub fn check() -> Option<Check> {
    let fuzz: Box<dyn crate::core::Sub> = Box::new(crate::core::FuzzSub {
        name: "fz_truncate",
        target: "fz_truncate",
        runs_thorough: 4_000_000,
        max_len: 8_192,
        oracle: fuzz_one,
        seeds: Vec::new,
    });
    let trunc = prop(
        "codec_truncation",
        60_000,
        2_000_000,
        |_| {
            (
                prop_oneof![
                    5 => msg::message_with(msg::SizeClass::Small, false),
                    5 => msg::message_with(msg::SizeClass::Medium, false),
                    1 => msg::message_with(msg::SizeClass::ManyNames, false),
                ],
                limit_sel(),
            )
                .prop_map(|(m, limit)| Case { m, limit })
        },
        truncation_body,
    );
    let trunc_large = prop(
        "codec_truncation_large",
        400,
        20_000,
        |_| {
            (prop_oneof![msg::message_large(), msg::message_with(msg::SizeClass::BigRdata, false)], limit_sel()).prop_map(|(m, limit)| Case { m, limit })
        },
        truncation_body,
    );
    let mut subs = vec![trunc, trunc_large, fuzz];
    subs.extend(crate::checks::c03_server::subs());
    Some(Check {
        id: "C03",
        level: "exploration",
        rule: "codec: model messages (as C02) × limits constructed at record boundaries ±0..3, inside the owner name / fixed fields / RDATA of a chosen record, inside OPT / TSIG, inside the question section, the customary sizes {12,13,511,512,513,1232,4096,65535} and anywhere in 12..full+8, × EDNS × TSIG × original TC. Non-trivial = distinct (message, limit) AND ≥1 record dropped AND ≥1 kept. Server: see per_sub / classes (zones with RRsets that overflow × advertised payload × UDP/TCP); non-trivial = the full answer does not fit the applicable limit",
        assumptions: vec![
            "sections are compared at hickory's Message level: `additionals` must be a prefix of the original additionals; OPT and TSIG are separate fields that are either intact or dropped (dropping counts towards TC)",
            "a message whose unlimited encoding already exceeds 65,535 octets is out of domain",
        ],
        subs,
    })
}
