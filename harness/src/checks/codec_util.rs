//! Shared by C01/C02/C03: deep message comparison (hickory's PartialEq ignores TTL and letter
//! case, so it cannot be the oracle), a walker over every Name inside a decoded message, model
//! message -> hickory message assembly, byte-level mutators.

use hickory_proto::op::{Edns, Message, Query};
use hickory_proto::rr::{Name, RData, Record, RecordData};
use hickory_proto::serialize::binary::{BinDecodable, BinDecoder, BinEncodable, BinEncoder, NameEncoding};
use proptest::prelude::*;
use serde::{Deserialize, Serialize};

use crate::gen::to_hickory;
use crate::refm::wire_ref::{self as w, MMessage, MRecord};

pub fn labels(n: &Name) -> Vec<Vec<u8>> {
    n.iter().map(|l| l.to_vec()).collect()
}

fn name_exact(a: &Name, b: &Name) -> bool {
    a.is_fqdn() == b.is_fqdn() && labels(a) == labels(b)
}

/// RDATA octets with names uncompressed and case preserved
pub fn rdata_plain<R: RecordData + BinEncodable>(d: &R) -> Result<Vec<u8>, String> {
    let mut buf = Vec::new();
    let mut enc = BinEncoder::new(&mut buf);
    let mut e = enc.with_name_encoding(NameEncoding::Uncompressed);
    d.emit(&mut e).map_err(|e| e.to_string())?;
    drop(e);
    drop(enc);
    Ok(buf)
}

pub fn record_deep_eq(what: &str, a: &Record, b: &Record) -> Result<(), String> {
    if !name_exact(&a.name, &b.name) {
        return Err(format!("{what}: owner {:?} vs {:?}", labels(&a.name), labels(&b.name)));
    }
    if a.record_type() != b.record_type() {
        return Err(format!("{what}: type {} vs {}", a.record_type(), b.record_type()));
    }
    if u16::from(a.dns_class) != u16::from(b.dns_class) {
        return Err(format!("{what}: class {:?} vs {:?}", a.dns_class, b.dns_class));
    }
    if a.ttl != b.ttl {
        return Err(format!("{what}: ttl {} vs {}", a.ttl, b.ttl));
    }
    if a.data != b.data {
        return Err(format!("{what}: rdata {:?} vs {:?}", a.data, b.data));
    }
    // letter case (and anything a lenient PartialEq might skip) via the uncompressed octets
    if !a.data.is_update() && !b.data.is_update() {
        let (x, y) = (rdata_plain(&a.data)?, rdata_plain(&b.data)?);
        if x != y {
            return Err(format!(
                "{what}: rdata octets differ: {} vs {} ({:?})",
                crate::core::hexser::to_hex(&x),
                crate::core::hexser::to_hex(&y),
                a.data
            ));
        }
    }
    Ok(())
}

fn query_deep_eq(i: usize, a: &Query, b: &Query) -> Result<(), String> {
    if !name_exact(&a.name, &b.name) {
        return Err(format!("question {i}: name {:?} vs {:?}", labels(&a.name), labels(&b.name)));
    }
    if a.query_type != b.query_type || u16::from(a.query_class) != u16::from(b.query_class) {
        return Err(format!("question {i}: type/class {:?}/{:?} vs {:?}/{:?}", a.query_type, a.query_class, b.query_type, b.query_class));
    }
    Ok(())
}

pub fn edns_deep_eq(a: &Option<Edns>, b: &Option<Edns>) -> Result<(), String> {
    match (a, b) {
        (None, None) => Ok(()),
        (Some(x), Some(y)) => {
            if x.max_payload() != y.max_payload() || x.version() != y.version() || x.flags() != y.flags() || x.rcode_high() != y.rcode_high() {
                return Err(format!("edns fixed fields: {x:?} vs {y:?}"));
            }
            // options as a multiset of (code, octets)
            let opts = |e: &Edns| -> Vec<(u16, Vec<u8>)> {
                let mut v: Vec<(u16, Vec<u8>)> = e
                    .options()
                    .as_ref()
                    .iter()
                    .map(|(c, o)| (u16::from(*c), Vec::<u8>::try_from(o).unwrap_or_default()))
                    .collect();
                v.sort();
                v
            };
            if opts(x) != opts(y) {
                return Err(format!("edns options: {:?} vs {:?}", opts(x), opts(y)));
            }
            Ok(())
        }
        _ => Err(format!("edns presence: {} vs {}", a.is_some(), b.is_some())),
    }
}

/// field-by-field equality incl. TTL, class, exact label octets and case; `Record.proof` excluded
pub fn message_deep_eq(a: &Message, b: &Message) -> Result<(), String> {
    if a.metadata != b.metadata {
        return Err(format!("header: {:?} vs {:?}", a.metadata, b.metadata));
    }
    if a.queries.len() != b.queries.len() {
        return Err(format!("question count {} vs {}", a.queries.len(), b.queries.len()));
    }
    for (i, (x, y)) in a.queries.iter().zip(&b.queries).enumerate() {
        query_deep_eq(i, x, y)?;
    }
    for (sec, (x, y)) in [("answer", (&a.answers, &b.answers)), ("authority", (&a.authorities, &b.authorities)), ("additional", (&a.additionals, &b.additionals))] {
        if x.len() != y.len() {
            return Err(format!("{sec} count {} vs {}", x.len(), y.len()));
        }
        for (i, (r, s)) in x.iter().zip(y.iter()).enumerate() {
            record_deep_eq(&format!("{sec}[{i}]"), r, s)?;
        }
    }
    edns_deep_eq(&a.edns, &b.edns)?;
    match (&a.signature, &b.signature) {
        (None, None) => {}
        (Some(x), Some(y)) => {
            if !name_exact(&x.name, &y.name) || x.ttl != y.ttl || u16::from(x.dns_class) != u16::from(y.dns_class) || x.data != y.data {
                return Err(format!("tsig record: {x:?} vs {y:?}"));
            }
            let (p, q) = (rdata_plain(&x.data)?, rdata_plain(&y.data)?);
            if p != q {
                return Err("tsig rdata octets differ".into());
            }
        }
        _ => return Err("tsig presence differs".into()),
    }
    Ok(())
}

// ---------------------------------------------------------------------------------------------
// model -> hickory message (constructors first, per-record decode of the model's own octets as
// the fallback for variants without a constructor path)

pub struct Built {
    pub msg: Message,
    pub by_constructor: usize,
    pub by_decode: usize,
}

fn record_via_decode(r: &MRecord) -> Result<Record, String> {
    let mut e = w::Enc::new();
    w::encode_record(&mut e, &r.owner, r.data.rtype(), r.class, r.ttl, &r.data, w::Compress::None);
    let mut dec = BinDecoder::new(&e.buf);
    Record::read(&mut dec).map_err(|e| format!("{e}"))
}

pub fn build_message(m: &MMessage) -> Result<Built, String> {
    // header, questions, edns, tsig through constructors; records one by one
    let mut shell = m.clone();
    shell.answers.clear();
    shell.authorities.clear();
    shell.additionals.clear();
    let tsig_ok = m.tsig.as_ref().is_none_or(|(_, t)| to_hickory::tsig(t).is_some());
    if !tsig_ok {
        return Err("tsig has no constructor path".into());
    }
    let mut msg = to_hickory::message(&shell).ok_or("edns option has no constructor path")?;
    let (mut c, mut d) = (0, 0);
    let mut conv = |r: &MRecord| -> Result<Record, String> {
        match to_hickory::record(r) {
            Some(x) => {
                c += 1;
                Ok(x)
            }
            None => {
                d += 1;
                record_via_decode(r)
            }
        }
    };
    for r in &m.answers {
        let x = conv(r)?;
        msg.add_answer(x);
    }
    for r in &m.authorities {
        let x = conv(r)?;
        msg.add_authority(x);
    }
    for r in &m.additionals {
        let x = conv(r)?;
        msg.add_additional(x);
    }
    Ok(Built { msg, by_constructor: c, by_decode: d })
}

// ---------------------------------------------------------------------------------------------
// every Name inside a decoded message (C01's length clause)

pub fn names_in_rdata<'a>(d: &'a RData, out: &mut Vec<&'a Name>) {
    use hickory_proto::dnssec::rdata::DNSSECRData;
    match d {
        RData::ANAME(n) => out.push(&n.0),
        RData::CNAME(n) => out.push(&n.0),
        RData::NS(n) => out.push(&n.0),
        RData::PTR(n) => out.push(&n.0),
        RData::MX(m) => out.push(&m.exchange),
        RData::SOA(s) => {
            out.push(&s.mname);
            out.push(&s.rname);
        }
        RData::SRV(s) => out.push(&s.target),
        RData::NAPTR(n) => out.push(&n.replacement),
        RData::SVCB(s) => out.push(&s.target_name),
        RData::HTTPS(s) => out.push(&s.0.target_name),
        RData::DNSSEC(DNSSECRData::NSEC(n)) => out.push(n.next_domain_name()),
        RData::DNSSEC(DNSSECRData::RRSIG(s)) => out.push(&s.input().signer_name),
        RData::DNSSEC(DNSSECRData::SIG(s)) => out.push(&s.input().signer_name),
        _ => {}
    }
}

pub fn check_name_limits(n: &Name) -> Result<(), String> {
    let mut wire = 1usize;
    for l in n.iter() {
        if l.is_empty() || l.len() > 63 {
            return Err(format!("label of {} octets", l.len()));
        }
        wire += l.len() + 1;
    }
    if wire > 255 {
        return Err(format!("name of {wire} wire octets"));
    }
    Ok(())
}

pub fn check_message_names(m: &Message) -> Result<usize, String> {
    let mut names: Vec<&Name> = Vec::new();
    for q in &m.queries {
        names.push(&q.name);
    }
    for r in m.answers.iter().chain(&m.authorities).chain(&m.additionals) {
        names.push(&r.name);
        names_in_rdata(&r.data, &mut names);
    }
    if let Some(s) = &m.signature {
        names.push(&s.name);
    }
    for n in &names {
        check_name_limits(n)?;
    }
    Ok(names.len())
}

// ---------------------------------------------------------------------------------------------
// byte-level mutators applied to valid encodings

#[derive(Clone, Debug, Serialize, Deserialize)]
pub enum Mutation {
    FlipBit(usize, u8),
    SetByte(usize, u8),
    Truncate(usize),
    Extend(#[serde(with = "crate::core::hexser")] Vec<u8>),
    /// overwrite one of the four header counts
    SetCount(u8, u16),
    /// replace two octets at a position by a compression pointer to `target`
    PointerAt(usize, u16),
    /// overwrite the two octets at a position (RDLENGTH / length fields are found by chance + by the
    /// structured variants below)
    SetU16(usize, u16),
    /// set the RDLENGTH of record k (found with the splitter) to a new value
    SetRdlen(usize, u16),
    /// set the first label length octet of record k's owner
    SetOwnerLabelLen(usize, u8),
    InsertBytes(usize, #[serde(with = "crate::core::hexser")] Vec<u8>),
    DeleteBytes(usize, usize),
    /// duplicate record k (raw octets) at the end and bump ARCOUNT — e.g. a second OPT, a record after TSIG
    DuplicateRecordAtEnd(usize),
}

pub fn mutation() -> impl Strategy<Value = Mutation> {
    prop_oneof![
        4 => (any::<usize>(), 0u8..8).prop_map(|(p, b)| Mutation::FlipBit(p, b)),
        3 => (any::<usize>(), prop_oneof![any::<u8>(), Just(0u8), Just(0xc0u8), Just(0xffu8), Just(0x3fu8), Just(0x40u8)]).prop_map(|(p, b)| Mutation::SetByte(p, b)),
        2 => any::<usize>().prop_map(Mutation::Truncate),
        1 => proptest::collection::vec(any::<u8>(), 1..20).prop_map(Mutation::Extend),
        2 => (0u8..4, prop_oneof![Just(0u16), Just(1u16), Just(2u16), Just(65535u16), any::<u16>()]).prop_map(|(c, v)| Mutation::SetCount(c, v)),
        3 => (any::<usize>(), any::<u16>()).prop_map(|(p, t)| Mutation::PointerAt(p, t)),
        1 => (any::<usize>(), any::<u16>()).prop_map(|(p, v)| Mutation::SetU16(p, v)),
        3 => (any::<usize>(), prop_oneof![Just(0u16), 0u16..40, any::<u16>()]).prop_map(|(k, v)| Mutation::SetRdlen(k, v)),
        2 => (any::<usize>(), prop_oneof![Just(63u8), Just(64u8), Just(0xc0u8), any::<u8>()]).prop_map(|(k, v)| Mutation::SetOwnerLabelLen(k, v)),
        1 => (any::<usize>(), proptest::collection::vec(any::<u8>(), 1..8)).prop_map(|(p, v)| Mutation::InsertBytes(p, v)),
        1 => (any::<usize>(), 1usize..8).prop_map(|(p, n)| Mutation::DeleteBytes(p, n)),
        2 => any::<usize>().prop_map(Mutation::DuplicateRecordAtEnd),
    ]
}

pub fn apply_mutation(b: &mut Vec<u8>, m: &Mutation) {
    let n = b.len();
    match m {
        Mutation::FlipBit(p, bit) => {
            if n > 0 {
                b[p % n] ^= 1 << bit;
            }
        }
        Mutation::SetByte(p, v) => {
            if n > 0 {
                b[p % n] = *v;
            }
        }
        Mutation::Truncate(p) => {
            if n > 0 {
                b.truncate(p % n);
            }
        }
        Mutation::Extend(v) => b.extend_from_slice(v),
        Mutation::SetCount(c, v) => {
            if n >= 12 {
                let i = 4 + 2 * (*c as usize % 4);
                b[i..i + 2].copy_from_slice(&v.to_be_bytes());
            }
        }
        Mutation::PointerAt(p, t) => {
            if n >= 14 {
                let i = 12 + p % (n - 13);
                let v = 0xC000 | (t % (n as u16).max(1));
                b[i..i + 2].copy_from_slice(&v.to_be_bytes());
            }
        }
        Mutation::SetU16(p, v) => {
            if n >= 2 {
                let i = p % (n - 1);
                b[i..i + 2].copy_from_slice(&v.to_be_bytes());
            }
        }
        Mutation::SetRdlen(k, v) => {
            if let Ok(s) = w::split(b) {
                if !s.records.is_empty() {
                    let rr = &s.records[k % s.records.len()];
                    let i = rr.rdata_start - 2;
                    b[i..i + 2].copy_from_slice(&v.to_be_bytes());
                }
            }
        }
        Mutation::SetOwnerLabelLen(k, v) => {
            if let Ok(s) = w::split(b) {
                if !s.records.is_empty() {
                    let rr = &s.records[k % s.records.len()];
                    b[rr.start] = *v;
                }
            }
        }
        Mutation::InsertBytes(p, v) => {
            let i = if n == 0 { 0 } else { p % (n + 1) };
            let tail = b.split_off(i);
            b.extend_from_slice(v);
            b.extend(tail);
        }
        Mutation::DeleteBytes(p, k) => {
            if n > 0 {
                let i = p % n;
                let e = (i + k).min(n);
                b.drain(i..e);
            }
        }
        Mutation::DuplicateRecordAtEnd(k) => {
            if let Ok(s) = w::split(b) {
                if !s.records.is_empty() && s.end == b.len() {
                    let rr = &s.records[k % s.records.len()];
                    // only self-contained records (no pointer in the owner) can be moved verbatim
                    if b[rr.start] & 0xC0 == 0 {
                        let raw = b[rr.start..rr.rdata_end].to_vec();
                        b.extend(raw);
                        let ar = u16::from_be_bytes([b[10], b[11]]).wrapping_add(1);
                        b[10..12].copy_from_slice(&ar.to_be_bytes());
                    }
                }
            }
        }
    }
    if b.len() > 65_535 {
        b.truncate(65_535);
    }
}
