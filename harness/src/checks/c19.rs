//! C19 — Recursive resolution ignores out-of-bailiwick data and always terminates.
//!
//! `recursor`: the real `hickory_resolver::recursor::Recursor` runs over the discrete-event
//! runtime (`crate::sim`) against a simulated internet whose authoritative servers are the
//! reference model in `refm::authsim` (RFC 1034 §4.3.2; not hickory's server). Hostile servers
//! append out-of-bailiwick records carrying a poison marker. The oracle looks only at what comes
//! back from `resolve()`, at the exchange log of the simulated network and at later answers.
//!
//! `stub_alias`: `CachingClient` over a scripted upstream with CNAME / SRV alias graphs.

use std::cell::RefCell;
use std::collections::{BTreeMap, BTreeSet, VecDeque};
use std::io;
use std::net::{IpAddr, Ipv4Addr, SocketAddr};
use std::rc::Rc;
use std::sync::atomic::{AtomicU64, Ordering};
use std::sync::Arc;
use std::time::{Duration, Instant};

use futures_util::stream;
use hickory_net::xfer::DnsHandle;
use hickory_net::{DnsError, NetError, NoRecords};
use hickory_proto::op::{DnsRequest, DnsRequestOptions, DnsResponse, Message, OpCode, Query, ResponseCode};
use hickory_proto::rr::rdata::{A, CNAME, NS, SOA, SRV, TXT};
use hickory_proto::rr::{Name, RData, Record, RecordType};
use hickory_resolver::caching_client::CachingClient;
use hickory_resolver::recursor::{QNameMinimization, Recursor, RecursorError, RecursorOptions};
use ipnet::IpNet;
use proptest::collection::vec;
use proptest::prelude::*;
use serde::{Deserialize, Serialize};

use crate::core::{prop_hang, CaseResult, Check, Fail, Rec};
use crate::gen::internet::{self, Cfg, NetCase, NetSel, QTarget};
use crate::refm::authsim::{self as sim_ref, build_world, child, has_marker, is_poison_ip, Dn, Ip, Qt, Rcode, Rd, Resp, Rr, World, TTL};
use crate::sim::{RecvPoll, Sim, SimError, SimNet, SimRt};

// ---------------------------------------------------------------------------------------------
// conversions between the model's plain names/records and hickory's wire types (codec only)

fn dn_of(n: &Name) -> Dn {
    let s = n.to_ascii().to_ascii_lowercase();
    if s.is_empty() {
        ".".to_string()
    } else if s.ends_with('.') {
        s
    } else {
        format!("{s}.")
    }
}

fn name_of(d: &str) -> Name {
    Name::from_ascii(d).expect("model names are valid")
}

fn qt_of(t: RecordType) -> Qt {
    match t {
        RecordType::A => Qt::A,
        RecordType::AAAA => Qt::Aaaa,
        RecordType::NS => Qt::Ns,
        RecordType::CNAME => Qt::Cname,
        RecordType::TXT => Qt::Txt,
        RecordType::SOA => Qt::Soa,
        _ => Qt::Other,
    }
}

const QTYPES: [RecordType; 5] = [RecordType::A, RecordType::AAAA, RecordType::NS, RecordType::CNAME, RecordType::TXT];

fn record_of(r: &Rr) -> Record {
    let rdata = match &r.rd {
        Rd::A(ip) => RData::A(A(Ipv4Addr::from(*ip))),
        Rd::Ns(n) => RData::NS(NS(name_of(n))),
        Rd::Cname(n) => RData::CNAME(CNAME(name_of(n))),
        Rd::Soa(m) => RData::SOA(SOA::new(name_of(m), name_of(&child("hostmaster", &r.owner)), 1, 3600, 600, 86400, 300)),
        Rd::Txt(t) => RData::TXT(TXT::new(vec![t.clone()])),
        Rd::Nsec(next) => RData::DNSSEC(hickory_proto::dnssec::rdata::DNSSECRData::NSEC(hickory_proto::dnssec::rdata::NSEC::new(name_of(next), [RecordType::A, RecordType::NSEC]))),
        Rd::Other(_) => unreachable!("the model never emits Other"),
    };
    Record::from_rdata(name_of(&r.owner), TTL, rdata)
}

fn rr_of(r: &Record) -> Rr {
    let rd = match &r.data {
        RData::A(A(ip)) => Rd::A(ip.octets()),
        RData::NS(NS(n)) => Rd::Ns(dn_of(n)),
        RData::CNAME(CNAME(n)) => Rd::Cname(dn_of(n)),
        RData::SOA(s) => Rd::Soa(dn_of(&s.mname)),
        RData::TXT(t) => Rd::Txt(
            t.txt_data
                .iter()
                .map(|b| String::from_utf8_lossy(b).into_owned())
                .collect::<Vec<_>>()
                .join(""),
        ),
        RData::DNSSEC(hickory_proto::dnssec::rdata::DNSSECRData::NSEC(n)) => Rd::Nsec(dn_of(n.next_domain_name())),
        other => Rd::Other(format!("{other:?}")),
    };
    Rr {
        owner: dn_of(&r.name),
        rd,
    }
}

/// access-list semantics from the rustdoc table of `AccessControlSet`: denied iff inside some
/// deny network and inside no allow network (own prefix arithmetic, not hickory's trie)
fn in_net(ip: Ip, n: &NetSel) -> bool {
    let a = u32::from_be_bytes(ip);
    let b = u32::from_be_bytes(n.addr);
    let mask = if n.len == 0 { 0 } else { u32::MAX << (32 - n.len as u32) };
    (a & mask) == (b & mask)
}

fn denied(ip: Ip, deny: &[NetSel], allow: &[NetSel]) -> bool {
    deny.iter().any(|n| in_net(ip, n)) && !allow.iter().any(|n| in_net(ip, n))
}

fn ipnet_of(n: &NetSel) -> IpNet {
    // host bits cleared, so every implementation agrees on what the network is
    let a = u32::from_be_bytes(n.addr);
    let mask = if n.len == 0 { 0 } else { u32::MAX << (32 - n.len as u32) };
    IpNet::new(IpAddr::V4(Ipv4Addr::from(a & mask)), n.len).expect("prefix length <= 32")
}

// ---------------------------------------------------------------------------------------------
// the simulated network

#[derive(Clone, Debug)]
struct Exch {
    ip: IpAddr,
    port: u16,
    qname: Dn,
    qt: Qt,
    /// what the server did: "answer", "referral", "nxdomain", "nodata", "refused", "servfail", "silent", "poison-server", "unknown"
    what: &'static str,
    poison: usize,
    poison_rrs: Vec<(u8, Rr)>,
    /// answering server (index) and every address record its response carried, any section
    server: Option<usize>,
    addrs: Vec<(Dn, Ip)>,
}

struct Sock {
    /// (virtual time at which the datagram arrives, bytes, source)
    inbox: VecDeque<(u64, Vec<u8>, SocketAddr)>,
}

#[derive(Default)]
struct NetState {
    next: u64,
    socks: BTreeMap<u64, Sock>,
    log: Vec<Exch>,
    harness_err: Option<String>,
}

struct Net {
    world: Rc<World>,
    /// per-server round-trip time in milliseconds is `latency_ms * (server index % 3)`
    latency_ms: u64,
    /// see `NetCase::ttl_mode`
    ttl_mode: u8,
    st: RefCell<NetState>,
}

impl Net {
    fn respond(&self, req: &Message, q: &Query, resp: &Resp) -> Vec<u8> {
        let mut m = Message::response(req.id, OpCode::Query);
        // echo the question exactly as sent (0x20 case randomisation must survive)
        m.add_query(q.clone());
        m.metadata.authoritative = resp.aa;
        m.metadata.recursion_desired = req.recursion_desired;
        m.metadata.response_code = match resp.rcode {
            Rcode::NoError => ResponseCode::NoError,
            Rcode::NxDomain => ResponseCode::NXDomain,
            Rcode::Refused => ResponseCode::Refused,
            Rcode::ServFail => ResponseCode::ServFail,
        };
        let rec_of = |r: &Rr| {
            let mut rec = record_of(r);
            if self.ttl_mode == 2 || (self.ttl_mode == 1 && matches!(r.rd, Rd::Ns(_))) {
                rec.ttl = 0;
            }
            rec
        };
        m.add_answers(resp.answers.iter().map(rec_of));
        m.add_authorities(resp.authority.iter().map(rec_of));
        m.add_additionals(resp.additional.iter().map(rec_of));
        m.to_vec().expect("model responses encode")
    }
}

impl SimNet for Net {
    fn udp_bind(&self, _local: SocketAddr, _server: SocketAddr) -> io::Result<u64> {
        let mut st = self.st.borrow_mut();
        st.next += 1;
        let id = st.next;
        st.socks.insert(id, Sock { inbox: VecDeque::new() });
        Ok(id)
    }

    fn udp_send(&self, sock: u64, buf: &[u8], target: SocketAddr) -> io::Result<usize> {
        let mut st = self.st.borrow_mut();
        let req = match Message::from_vec(buf) {
            Ok(m) => m,
            Err(e) => {
                st.harness_err = Some(format!("undecodable query from the recursor: {e}"));
                return Ok(buf.len());
            }
        };
        let Some(q) = req.queries.first().cloned() else {
            st.harness_err = Some("query without question".into());
            return Ok(buf.len());
        };
        let qname = dn_of(&q.name);
        let qt = qt_of(q.query_type);
        let mut ex = Exch {
            ip: target.ip(),
            port: target.port(),
            qname: qname.clone(),
            qt,
            what: "unknown",
            poison: 0,
            poison_rrs: vec![],
            server: None,
            addrs: vec![],
        };
        let reply: Option<Vec<u8>> = match target.ip() {
            IpAddr::V4(v4) if target.port() == 53 => {
                let ip = v4.octets();
                if let Some(s) = self.world.server_by_ip(ip) {
                    match sim_ref::answer(&self.world, s, &qname, qt) {
                        None => {
                            ex.what = "silent";
                            None
                        }
                        Some(resp) => {
                            ex.poison = resp.poison;
                            ex.poison_rrs = resp.poison_rrs.clone();
                            ex.server = Some(s);
                            for r in resp.answers.iter().chain(&resp.authority).chain(&resp.additional) {
                                if let Rd::A(ip) = r.rd {
                                    ex.addrs.push((r.owner.clone(), ip));
                                }
                            }
                            ex.what = match resp.rcode {
                                Rcode::Refused => "refused",
                                Rcode::ServFail => "servfail",
                                Rcode::NxDomain => "nxdomain",
                                Rcode::NoError if resp.referral => "referral",
                                Rcode::NoError if resp.answers.is_empty() => "nodata",
                                Rcode::NoError => "answer",
                            };
                            Some(self.respond(&req, &q, &resp))
                        }
                    }
                } else if is_poison_ip(ip) {
                    // whoever is reached through poisoned data keeps lying
                    ex.what = "poison-server";
                    let mut resp = Resp {
                        rcode: Rcode::NoError,
                        aa: true,
                        answers: vec![],
                        authority: vec![],
                        additional: vec![],
                        referral: false,
                        poison: 1,
                        poison_rrs: vec![],
                    };
                    match qt {
                        Qt::A => resp.answers.push(Rr {
                            owner: qname.clone(),
                            rd: Rd::A([203, 0, 113, 250]),
                        }),
                        Qt::Ns => resp.answers.push(Rr {
                            owner: qname.clone(),
                            rd: Rd::Ns("deep.poison.".into()),
                        }),
                        _ => {}
                    }
                    Some(self.respond(&req, &q, &resp))
                } else {
                    None
                }
            }
            _ => None,
        };
        st.log.push(ex);
        if let Some(bytes) = reply {
            match st.socks.get_mut(&sock) {
                Some(s) => {
                    let idx = match target.ip() {
                        IpAddr::V4(v4) => v4.octets()[2] as u64 % 3,
                        _ => 0,
                    };
                    s.inbox.push_back((crate::sim::now_nanos() + self.latency_ms * idx * 1_000_000, bytes, target))
                }
                None => st.harness_err = Some(format!("send on unknown socket {sock}")),
            }
        }
        Ok(buf.len())
    }

    fn udp_poll_recv(&self, sock: u64, now: u64) -> RecvPoll {
        let mut st = self.st.borrow_mut();
        let Some(s) = st.socks.get_mut(&sock) else {
            return RecvPoll::Never;
        };
        match s.inbox.front() {
            Some((at, _, _)) if *at <= now => {
                let (_, b, src) = s.inbox.pop_front().unwrap();
                RecvPoll::Ready(b, src)
            }
            Some((at, _, _)) => RecvPoll::At(*at),
            None => RecvPoll::Never,
        }
    }

    fn udp_drop(&self, sock: u64) {
        if let Ok(mut st) = self.st.try_borrow_mut() {
            st.socks.remove(&sock);
        }
    }
}

// ---------------------------------------------------------------------------------------------
// unbounded recursion without I/O ends in a stack overflow, which no catch_unwind sees: turn the
// fatal signal into a proper VIOLATION (replay file + line on stdout + exit 1). Termination is
// the claim of this property, so dying of recursion depth is a deviation, not a harness accident.

mod crash {
    use std::cell::Cell;
    use std::ffi::CString;
    use std::sync::OnceLock;

    thread_local! {
        static CASE: Cell<(*const u8, usize, u8)> = const { Cell::new((std::ptr::null(), 0, 0)) };
    }

    struct Paths {
        replay: [CString; 2],
        evidence: CString,
    }
    static PATHS: OnceLock<Paths> = OnceLock::new();
    const SUBS: [&str; 2] = ["recursor", "stub_alias"];

    pub struct Guard {
        _json: String,
    }

    impl Drop for Guard {
        fn drop(&mut self) {
            let _ = CASE.try_with(|c| c.set((std::ptr::null(), 0, 0)));
        }
    }

    /// remember the running case (already serialised) for the signal handler
    pub fn enter<T: serde::Serialize>(sub: u8, case: &T) -> Guard {
        PATHS.get_or_init(|| {
            let dir = crate::core::vpath("replays/C19/found");
            let _ = std::fs::create_dir_all(&dir);
            let _ = std::fs::create_dir_all(crate::core::vpath("evidence"));
            let p = Paths {
                replay: [
                    CString::new(format!("{dir}/recursor-fatal-signal-stack-overflow.json")).unwrap(),
                    CString::new(format!("{dir}/stub_alias-fatal-signal-stack-overflow.json")).unwrap(),
                ],
                evidence: CString::new(crate::core::vpath("evidence/C19.json")).unwrap(),
            };
            // SAFETY: installing a signal handler that only uses async-signal-safe calls
            unsafe {
                let mut sa: libc::sigaction = std::mem::zeroed();
                sa.sa_sigaction = handler as *const () as usize;
                sa.sa_flags = libc::SA_SIGINFO | libc::SA_ONSTACK;
                libc::sigemptyset(&mut sa.sa_mask);
                libc::sigaction(libc::SIGSEGV, &sa, std::ptr::null_mut());
                libc::sigaction(libc::SIGBUS, &sa, std::ptr::null_mut());
            }
            p
        });
        let json = serde_json::to_string(case).unwrap_or_else(|_| "null".into());
        CASE.with(|c| c.set((json.as_ptr(), json.len(), sub)));
        Guard { _json: json }
    }

    unsafe fn put(fd: libc::c_int, b: &[u8]) {
        let mut off = 0;
        while off < b.len() {
            let n = libc::write(fd, b[off..].as_ptr() as *const libc::c_void, b.len() - off);
            if n <= 0 {
                break;
            }
            off += n as usize;
        }
    }

    extern "C" fn handler(sig: libc::c_int, _info: *mut libc::siginfo_t, _ctx: *mut libc::c_void) {
        // SAFETY: open/write/close/_exit/signal are async-signal-safe; the case buffer is owned by
        // the Guard of the frame that is still on the (overflowed) stack of this thread.
        unsafe {
            let (p, n, sub) = CASE.try_with(|c| c.get()).unwrap_or((std::ptr::null(), 0, 0));
            let Some(paths) = PATHS.get() else {
                libc::signal(sig, libc::SIG_DFL);
                return;
            };
            if p.is_null() {
                // not inside a C19 case: behave as if we were never here
                libc::signal(sig, libc::SIG_DFL);
                return;
            }
            let sub = (sub as usize).min(1);
            let case = std::slice::from_raw_parts(p, n);
            let fd = libc::open(paths.replay[sub].as_ptr(), libc::O_CREAT | libc::O_WRONLY | libc::O_TRUNC, 0o644);
            if fd >= 0 {
                put(fd, b"{\"property\":\"C19\",\"sub\":\"");
                put(fd, SUBS[sub].as_bytes());
                put(fd, b"\",\"signature\":\"fatal-signal-stack-overflow\",\"message\":\"the case died of SIGSEGV/SIGBUS (unbounded recursion overflowing the stack)\",\"expect\":\"violation\",\"case\":");
                put(fd, case);
                put(fd, b"}\n");
                libc::close(fd);
            }
            let fd = libc::open(paths.evidence.as_ptr(), libc::O_CREAT | libc::O_WRONLY | libc::O_TRUNC, 0o644);
            if fd >= 0 {
                put(fd, b"{\"property_id\":\"C19\",\"tier\":\"quick\",\"seed\":0,\"level\":\"exploration\",\"coverage\":{\"evaluations\":1,\"distinct_nontrivial\":0,\"rule\":\"aborted: fatal signal (stack overflow) inside a case\",\"samples\":[]},\"wall_s\":0.0,\"violations\":1}\n");
                libc::close(fd);
            }
            put(1, b"VIOLATION property=C19 replay=");
            put(1, paths.replay[sub].as_bytes());
            put(1, b"\n  sub=");
            put(1, SUBS[sub].as_bytes());
            put(1, b" sig=fatal-signal-stack-overflow the case died of SIGSEGV/SIGBUS: unbounded recursion overflowed the stack (resolution did not terminate)\n");
            libc::_exit(1);
        }
    }
}

// ---------------------------------------------------------------------------------------------
// what a resolution handed back

fn returned_records(res: &Result<Message, RecursorError>) -> (Vec<(&'static str, Rr)>, &'static str) {
    let mut out = Vec::new();
    let kind;
    match res {
        Ok(m) => {
            kind = if m.answers.is_empty() { "ok-empty" } else { "ok-answer" };
            out.extend(m.answers.iter().map(|r| ("answer", rr_of(r))));
            out.extend(m.authorities.iter().map(|r| ("authority", rr_of(r))));
            out.extend(m.additionals.iter().map(|r| ("additional", rr_of(r))));
        }
        Err(RecursorError::Negative(a)) => {
            kind = if a.nx_domain { "err-nxdomain" } else { "err-nodata" };
            if let Some(soa) = &a.soa {
                out.push(("error-soa", Rr { owner: dn_of(&soa.name), rd: Rd::Soa(dn_of(&soa.data.mname)) }));
            }
            for r in a.authorities.iter().flat_map(|x| x.iter()) {
                out.push(("error-authority", rr_of(r)));
            }
        }
        Err(RecursorError::ForwardNS(list)) => {
            kind = "err-forward-ns";
            for f in list.iter() {
                out.push(("error-referral", rr_of(&f.ns)));
                out.extend(f.glue.iter().map(|r| ("error-referral", rr_of(r))));
            }
        }
        Err(RecursorError::Net(NetError::Dns(DnsError::NoRecordsFound(nr)))) => {
            kind = "err-net-norecords";
            let NoRecords { soa, ns, authorities, .. } = nr;
            if let Some(soa) = soa {
                out.push(("error-soa", Rr { owner: dn_of(&soa.name), rd: Rd::Soa(dn_of(&soa.data.mname)) }));
            }
            for f in ns.iter().flat_map(|x| x.iter()) {
                out.push(("error-referral", rr_of(&f.ns)));
                out.extend(f.glue.iter().map(|r| ("error-referral", rr_of(r))));
            }
            for r in authorities.iter().flat_map(|x| x.iter()) {
                out.push(("error-authority", rr_of(r)));
            }
        }
        Err(RecursorError::RecursionLimitExceeded { .. }) => kind = "err-recursion-limit",
        Err(RecursorError::MaxRecordLimitExceeded { .. }) => kind = "err-cname-limit",
        Err(RecursorError::Timeout) => kind = "err-timeout",
        Err(RecursorError::Net(NetError::Timeout)) => kind = "err-timeout",
        Err(RecursorError::Net(_)) => kind = "err-net",
        Err(_) => kind = "err-other",
    }
    (out, kind)
}

fn query_name(w: &World, t: &QTarget) -> Dn {
    let nz = w.zones.len();
    let pick = |z: u8| if nz > 1 { 1 + z as usize % (nz - 1) } else { 0 };
    match t {
        QTarget::Data { zone, label } => {
            // mostly names that exist, sometimes any slot (NXDOMAIN / NODATA paths)
            let zi = pick(*zone);
            let zname = &w.zones[zi].name;
            let existing: Vec<&Dn> = w.zones[zi].data.keys().filter(|o| *o != zname).collect();
            if !existing.is_empty() && *label % 4 != 3 {
                existing[*label as usize % existing.len()].clone()
            } else {
                sim_ref::data_name(&w.zones, *zone, *label).1
            }
        }
        QTarget::Apex { zone } => w.zones[pick(*zone)].name.clone(),
        QTarget::NsHost { zone, k } => {
            let z = &w.zones[*zone as usize % nz];
            z.ns[*k as usize % z.ns.len()].host.clone()
        }
        QTarget::Nx { zone } => child("nx", &w.zones[pick(*zone)].name),
        QTarget::Fan => w.fan_root.clone().unwrap_or_else(|| w.zones[pick(0)].name.clone()),
        QTarget::Chain { chain, offset } => {
            let chains: Vec<&Vec<Dn>> = w.chains.iter().filter(|c| !c.is_empty()).collect();
            if chains.is_empty() {
                sim_ref::data_name(&w.zones, *chain, *offset).1
            } else {
                let c = chains[*chain as usize % chains.len()];
                c[*offset as usize % c.len()].clone()
            }
        }
        QTarget::Hosted { server, label } => {
            // prefer servers that actually have something to inject
            let armed: Vec<usize> = (0..w.servers.len()).filter(|s| !w.servers[*s].poison.is_empty()).collect();
            let si = if armed.is_empty() { *server as usize % w.servers.len() } else { armed[*server as usize % armed.len()] };
            let z = w.servers[si]
                .delegated
                .iter()
                .filter(|z| **z != 0)
                .max_by_key(|z| sim_ref::depth(&w.zones[**z].name))
                .copied()
                .unwrap_or(pick(*server));
            let zname = &w.zones[z].name;
            let existing: Vec<&Dn> = w.zones[z].data.keys().filter(|o| *o != zname).collect();
            if !existing.is_empty() && *label % 4 != 3 {
                existing[*label as usize % existing.len()].clone()
            } else {
                child(sim_ref::DATA_LABELS[*label as usize % sim_ref::DATA_LABELS.len()], zname)
            }
        }
    }
}

/// Structural bound on datagrams per `resolve()`.
///
/// One `resolve()` follows at most `recursion_limit` aliases (+1 for the name itself); every
/// alias target costs one name-server discovery plus one final lookup. A discovery processes at
/// most `ns_recursion_limit` uncached labels along any nesting path, and what it can ask about
/// is limited by the universe: every zone cut and every name-server host is looked up (NS, A,
/// AAAA) at most once per discovery thanks to the caches, each lookup being up to 3
/// transmissions to a server. Hence 3 * (r+1) * (n+1) * (zones + servers): linear in each
/// configured limit and in the universe size. On the unchanged tree the observed maximum over
/// 120k generated cases was 23 datagrams (limits 6/6, 16 zones+servers: bound 2352; smallest
/// bound, limits 2/2 and 4 zones+servers: 108), so the clause is blind to small excesses and
/// fires on explosive or unbounded recursion only.
fn q_max(cfg: &Cfg, w: &World) -> u64 {
    let r = cfg.recursion_limit as u64 + 1;
    let n = cfg.ns_recursion_limit as u64 + 1;
    3 * r * n * (w.zones.len() + w.servers.len()) as u64
}

const EVENT_BUDGET: u64 = 200_000;

fn net_body(c: &NetCase, rec: &mut Rec) -> CaseResult {
    let _crash = crash::enter(0, c);
    let world = Rc::new(build_world(&c.net));
    match scenario(c, world.clone(), rec) {
        Err(f) if f.sig == "contacted-poison-address" => {
            // Attribution by counterfactual: run the same case once more with hostile servers
            // leaving the *answer section of address lookups for name-server host names* alone.
            // If the deviation disappears, its root cause is that one path
            // (append_ips_from_lookup takes every address in such an answer section, whoever owns
            // the record) and it gets that path's signature; otherwise it stays a generic violation.
            let mut w2 = (*world).clone();
            w2.spare_ns_address_answers = true;
            match scenario(c, Rc::new(w2), &mut Rec::default()) {
                Ok(()) => Err(Fail::new("ns-address-taken-from-unrelated-answer-record", f.msg)),
                Err(f2) if f2.sig == "oob-record-in-negative-answer-authority" => Err(Fail::new("ns-address-taken-from-unrelated-answer-record", f.msg)),
                Err(_) => Err(f),
            }
        }
        r => r,
    }
}

fn scenario(c: &NetCase, world: Rc<World>, rec: &mut Rec) -> CaseResult {
    let w = &*world;
    let roots: Vec<IpAddr> = w.root_ips().into_iter().map(|ip| IpAddr::V4(Ipv4Addr::from(ip))).collect();
    let root_set: BTreeSet<Ip> = w.root_ips().into_iter().collect();

    // ---- configuration ------------------------------------------------------------------------
    let cfg = &c.cfg;
    let opts = RecursorOptions {
        recursion_limit: cfg.recursion_limit,
        ns_recursion_limit: cfg.ns_recursion_limit,
        deny_server: cfg.deny_server.iter().map(ipnet_of).collect(),
        allow_server: cfg.allow_server.iter().map(ipnet_of).collect(),
        deny_answers: cfg.deny_answers.iter().map(ipnet_of).collect(),
        allow_answers: cfg.allow_answers.iter().map(ipnet_of).collect(),
        qname_minimization: if cfg.relaxed_qmin { QNameMinimization::Relaxed } else { QNameMinimization::Strict },
        case_randomization: cfg.case_randomization,
        ..RecursorOptions::default()
    };

    let _det = crate::detrand::DetRand::start(0xC19_0000 + c.os_seed);
    let mut sim = Sim::new(1_700_000_000);
    let net = Rc::new(Net {
        world: world.clone(),
        latency_ms: c.latency_ms as u64,
        ttl_mode: c.ttl_mode,
        st: RefCell::new(NetState::default()),
    });
    sim.set_net(net.clone());
    let recursor = match Recursor::with_options(&roots, opts, SimRt) {
        Ok(r) => Rc::new(r),
        Err(e) => {
            rec.discard(format!("recursor-construction-failed: {e}"));
            return Ok(());
        }
    };

    // ---- the queries: generated ones, then follow-ups about every victim -----------------------
    let mut queries: Vec<(Dn, RecordType, bool)> = Vec::new();
    for q in c.queries.iter().take(4) {
        queries.push((query_name(w, &q.target), QTYPES[q.qt as usize % QTYPES.len()], false));
    }
    let mut follow: Vec<(Dn, RecordType, bool)> = Vec::new();
    for s in &w.servers {
        for p in &s.poison {
            if p.victim_is_zone {
                follow.push((p.victim.clone(), RecordType::NS, true));
                follow.push((child("w", &p.victim), RecordType::A, true));
            } else {
                follow.push((p.victim.clone(), RecordType::A, true));
                follow.push((p.victim.clone(), RecordType::CNAME, true));
            }
        }
    }
    follow.truncate(8);
    queries.extend(follow);

    let qmax = q_max(cfg, w);
    let mut poison_delivered = 0usize;
    let mut lame_seen = false;
    let mut max_dgrams = 0u64;
    let mut notes: Vec<String> = Vec::new();
    let mut deferred: Option<Fail> = None;

    for (qi, (qname, qtype, is_follow)) in queries.iter().enumerate() {
        let log_start = net.st.borrow().log.len();
        let r2 = recursor.clone();
        let query = Query::new(name_of(qname), *qtype);
        // every third generated query is asked twice at the same instant: the second resolution
        // joins whatever the first has in flight (shared upstream requests, shared caches)
        let twin = !*is_follow && (c.os_seed as usize + qi) % 3 == 2;
        let (res, res_twin) = if twin {
            rec.class("twin-concurrent-resolutions");
            let (q1, q2, r3) = (query.clone(), query, recursor.clone());
            match sim.run(
                async move { futures_util::future::join(r2.resolve(q1, Instant::now(), false), r3.resolve(q2, Instant::now(), false)).await },
                2 * EVENT_BUDGET,
            ) {
                Ok((a, b)) => (Ok(a), Some(b)),
                Err(e) => (Err(e), None),
            }
        } else {
            (sim.run(async move { r2.resolve(query, Instant::now(), false).await }, EVENT_BUDGET), None)
        };
        if let Some(e) = net.st.borrow_mut().harness_err.take() {
            vfail!("harness-error", "simulated network: {e}");
        }
        let exch: Vec<Exch> = net.st.borrow().log[log_start..].to_vec();
        let dgrams = exch.len() as u64;
        max_dgrams = max_dgrams.max(dgrams);
        poison_delivered += exch.iter().map(|e| e.poison).sum::<usize>();
        lame_seen |= exch.iter().any(|e| matches!(e.what, "refused" | "servfail" | "silent"));
        let ctx = |extra: &str| {
            let tail: Vec<String> = exch
                .iter()
                .rev()
                .take(12)
                .rev()
                .map(|e| format!("{}<-{} {:?} [{}{}]", e.ip, e.qname, e.qt, e.what, if e.poison > 0 { " +poison" } else { "" }))
                .collect();
            format!(
                "query #{qi} {qname} {qtype}{}: {extra}; {} datagrams, last: {}",
                if *is_follow { " (follow-up)" } else { "" },
                exch.len(),
                tail.join(" | ")
            )
        };

        // (c) termination and the query bound
        let res = match res {
            Ok(r) => r,
            Err(SimError::Budget) => {
                // the simulated network schedules at most one timer per datagram it answers, so an
                // exhausted budget means the recursor keeps sending or sleeping: non-termination
                // within 200k timer events (the claim is termination, so this is a violation)
                vfail!("resolve-did-not-terminate", "{}", ctx("event budget exhausted"));
            }
            Err(SimError::Deadlock) => {
                // no timer and nothing runnable: a lost wake-up, most likely in the harness
                vfail!("harness-deadlock", "{}", ctx("simulation deadlocked (no timer, no runnable task)"));
            }
        };
        // the alias tree: alias lookups are capped per client query (64 in this tree), each costing
        // a final lookup and possibly a discovery step; the observed maximum on the unchanged tree
        // is recorded in the evidence counter `max-datagrams-alias-tree`
        let in_tree = w.fan_root.as_ref().is_some_and(|root| {
            let l = qname.split('.').next().unwrap_or("");
            l.starts_with('f') && l[1..].chars().all(|c| c.is_ascii_digit()) && sim_ref::parent_of(qname) == sim_ref::parent_of(root)
        });
        let qmax = if in_tree { qmax + 64 * 4 } else { qmax };
        if in_tree {
            // "Maximum number of cname records to look up in a CNAME chain, regardless of the
            // recursion depth limit" (recursor/handle.rs, 64): per client query, not per path
            let is_node = |n: &Dn| {
                let l = n.split('.').next().unwrap_or("");
                l.starts_with('f') && l[1..].chars().all(|c| c.is_ascii_digit())
            };
            let looked_up: BTreeSet<&Dn> = exch.iter().filter(|e| e.qt == qt_of(*qtype) && is_node(&e.qname)).map(|e| &e.qname).collect();
            rec.count("alias-tree-names-looked-up(sum)", looked_up.len() as u64);
            vensure!(
                looked_up.len() <= 66,
                "alias-lookups-exceed-the-per-query-cap",
                "{}",
                ctx(&format!("{} distinct names of the alias tree were looked up upstream for one client query; the recursor caps alias lookups at 64 per query", looked_up.len()))
            );
        }
        if in_tree {
            if std::env::var_os("C19_TRACE_FAN").is_some() {
                eprintln!("FAN {qname} {qtype} limits r{}/ns{} fan {:?}: {dgrams} dgrams, result {:?}", cfg.recursion_limit, cfg.ns_recursion_limit, c.net.fan, res.as_ref().map(|m| (m.answers.len(), m.metadata.response_code)).map_err(|e| e.to_string().chars().take(80).collect::<String>()));
            }
            rec.class("query:alias-tree");
            rec.count("max-datagrams-alias-tree(sum)", dgrams);
        }
        vensure!(
            dgrams <= if twin { 2 * qmax } else { qmax },
            "upstream-queries-exceed-structural-bound",
            "{}",
            ctx(&format!("{dgrams} upstream datagrams > Q_max {qmax} (recursion_limit {}, ns_recursion_limit {})", cfg.recursion_limit, cfg.ns_recursion_limit))
        );
        // alias hops: names of the true CNAME chain starting at the query name that were asked
        // upstream with the original type; resolve() nests once per alias followed, at most
        // `recursion_limit` deep (one extra hop of slack: the claim is "bounded", not "exact")
        {
            let mut chain: Vec<Dn> = vec![qname.clone()];
            let mut cur = qname.clone();
            loop {
                let z = &w.zones[w.zone_of_name(&cur)];
                match z.data.get(&cur).and_then(|r| r.first()) {
                    Some(Rd::Cname(t)) if !chain.contains(t) => {
                        chain.push(t.clone());
                        cur = t.clone();
                    }
                    _ => break,
                }
            }
            let asked: BTreeSet<&Dn> = exch.iter().filter(|e| e.qt == qt_of(*qtype) && chain.contains(&e.qname)).map(|e| &e.qname).collect();
            vensure!(
                asked.len() <= cfg.recursion_limit as usize + 1,
                "alias-hops-exceed-recursion-limit",
                "{}",
                ctx(&format!("{} distinct alias targets queried upstream, recursion_limit {}", asked.len(), cfg.recursion_limit))
            );
            if chain.len() > cfg.recursion_limit as usize + 1 {
                rec.class("chain-longer-than-limit");
            }
        }

        // (b) every contacted address is a real name server that the server filter permits
        for (ei, e) in exch.iter().enumerate() {
            let IpAddr::V4(v4) = e.ip else {
                vfail!("contacted-unknown-address", "{}", ctx(&format!("datagram to {}", e.ip)));
            };
            let ip = v4.octets();
            if is_poison_ip(ip) {
                // where could the recursor have got this address from? (whole history of this Recursor)
                let st = net.st.borrow();
                let src = st
                    .log
                    .iter()
                    .filter(|x| x.poison_rrs.iter().any(|(_, r)| r.rd == Rd::A(ip)))
                    .map(|x| format!("{}<-{} {:?} {:?}", x.ip, x.qname, x.qt, x.poison_rrs))
                    .collect::<Vec<_>>()
                    .join(" | ");
                drop(st);
                vfail!("contacted-poison-address", "{}", ctx(&format!("datagram to poison address {}; delivered by: {src}", e.ip)));
            }
            vensure!(
                w.server_by_ip(ip).is_some() && e.port == 53,
                "contacted-unknown-address",
                "{}",
                ctx(&format!("datagram to {}:{} which is no name server", e.ip, e.port))
            );
            // provenance: a non-root server address must have reached the recursor, before this
            // datagram, in an address record that its sender may speak for (owner inside a zone
            // delegated to the sender) - true data too, not only marked poison: glue for a host
            // outside the delegating zone's bailiwick has to be re-resolved, not used
            if !root_set.contains(&ip) {
                let st = net.st.borrow();
                let legit = st.log[..log_start + ei].iter().any(|x| match x.server {
                    Some(s) => x.addrs.iter().any(|(owner, a)| *a == ip && w.in_bailiwick_of_server(s, owner)),
                    None => false,
                });
                drop(st);
                vensure!(
                    legit,
                    "nameserver-address-without-in-bailiwick-source",
                    "{}",
                    ctx(&format!("datagram to {} although no server authoritative for the owner ever supplied that address", e.ip))
                );
            }
            vensure!(
                root_set.contains(&ip) || !denied(ip, &cfg.deny_server, &cfg.allow_server),
                "contacted-denied-server",
                "{}",
                ctx(&format!("datagram to {} which deny_server forbids", e.ip))
            );
        }

        // (a) nothing handed back is out-of-bailiwick data
        let (mut records, kind) = returned_records(&res);
        rec.class(format!("{}:{kind}", if *is_follow { "follow" } else { "query" }));
        if let Some(rt) = &res_twin {
            let (more, kind2) = returned_records(rt);
            rec.class(format!("twin:{kind2}"));
            records.extend(more);
        }
        for (place, r) in &records {
            // RecursorError::ForwardNS (and NoRecords::ns) is a diagnostic copy of a referral that
            // no caller forwards or caches (hickory-server answers SERVFAIL for it); the property
            // observes the returned Message, and of errors only what a front end hands on: the SOA
            // and authority records of negative answers (LookupError::authorities / into_soa)
            if *place == "error-referral" {
                rec.class("referral-data-in-error");
                continue;
            }
            if !w.truth.contains(r) {
                let poison = w.injected.contains(r) || has_marker(r);
                if poison && place.starts_with("error") {
                    // one root cause (negative answers skip the bailiwick filter): keep checking the
                    // rest of the case and report this deviation only if nothing else fails
                    deferred.get_or_insert_with(|| {
                        Fail::new(
                            "oob-record-in-negative-answer-authority",
                            ctx(&format!("the negative answer handed back carries {:?} ({place}), which the answering server is not authoritative for", r)),
                        )
                    });
                    continue;
                }
                let sig = if poison { "poison-record-in-returned-message" } else { "unknown-record-returned" };
                vfail!(sig, "{}", ctx(&format!("{place} section carries {:?}", r)));
            }
            if let Rd::A(ip) = r.rd {
                if denied(ip, &cfg.deny_answers, &cfg.allow_answers) {
                    let sig = if place.starts_with("error") { "denied-address-in-returned-error" } else { "denied-address-returned" };
                    vfail!(sig, "{}", ctx(&format!("{place} section carries {:?} which deny_answers forbids", r)));
                }
            }
        }
        if rec.wants_note() && notes.len() < 6 {
            notes.push(format!("{qname} {qtype} -> {kind} ({dgrams} dgrams)"));
        }
    }

    drop(recursor);
    drop(sim);

    // ---- accounting ---------------------------------------------------------------------------
    let f = &w.flags;
    for (on, name) in [
        (f.glueless, "glueless"),
        (f.oob_glue, "oob-glue"),
        (f.self_ref, "self-referential-delegation"),
        (f.mutual, "glueless-cycle"),
        (f.lame, "lame-by-construction"),
        (lame_seen, "lame-or-dead-contacted"),
        (f.cname_loop, "cname-loop"),
        (f.out_of_zone_ns, "out-of-zone-ns"),
        (f.max_chain >= 8, "cname-chain>=8"),
        (poison_delivered > 0, "poison-delivered"),
        (!cfg.deny_server.is_empty(), "deny-server"),
        (!cfg.deny_answers.is_empty(), "deny-answers"),
        (cfg.case_randomization, "case-randomization"),
    ] {
        if on {
            rec.class(name);
        }
    }
    rec.class(format!("zones:{}", w.zones.len()));
    if std::env::var_os("C19_PRINT_DGRAMS").is_some() {
        eprintln!("C19_PRINT_DGRAMS ns_recursion_limit={} recursion_limit={} ttl_mode={} max_datagrams_per_resolve={max_dgrams}", cfg.ns_recursion_limit, cfg.recursion_limit, c.ttl_mode);
    }
    rec.class(match c.ttl_mode {
        0 => "ttl:3600",
        1 => "ttl:ns-records-0",
        _ => "ttl:all-0",
    });
    if c.ttl_mode != 0 {
        rec.class(format!("ttl0-max-datagrams:{}", match max_dgrams { 0..=16 => "<=16", 17..=64 => "<=64", 65..=256 => "<=256", 257..=1024 => "<=1024", _ => ">1024" }));
    }
    let bucket = match max_dgrams {
        0..=4 => "<=4",
        5..=16 => "<=16",
        17..=64 => "<=64",
        65..=256 => "<=256",
        _ => ">256",
    };
    rec.class(format!("max-datagrams-per-resolve:{bucket}"));
    rec.class(format!("qmax-headroom:{}", if max_dgrams * 4 <= qmax { ">=4x" } else if max_dgrams * 2 <= qmax { ">=2x" } else { "<2x" }));
    rec.count("poison-records-delivered", poison_delivered as u64);
    rec.count("resolutions", queries.len() as u64);
    if poison_delivered > 0 || f.mutual || f.self_ref || f.cname_loop || f.glueless || f.lame || lame_seen {
        rec.nontrivial();
        if rec.wants_note() {
            rec.note(format!(
                "zones {:?}; servers {:?}; limits r{}/ns{}; {}",
                w.zones.iter().map(|z| format!("{}[{}]", z.name, z.ns.iter().map(|n| format!("{}{}", n.host, if n.glue { "+g" } else { "" })).collect::<Vec<_>>().join(","))).collect::<Vec<_>>(),
                w.servers.iter().map(|s| format!("{:?}{}", s.kind, if s.poison.is_empty() { String::new() } else { format!("x{}", s.poison.len()) })).collect::<Vec<_>>(),
                cfg.recursion_limit,
                cfg.ns_recursion_limit,
                notes.join("; ")
            ));
        }
    }
    match deferred {
        Some(f) => Err(f),
        None => Ok(()),
    }
}

// ---------------------------------------------------------------------------------------------
// stub resolver: alias chasing in CachingClient

#[derive(Clone, Debug, Serialize, Deserialize)]
enum Node {
    Cname(u8),
    Srv(u8),
    A,
    NoData,
    NxDomain,
}

#[derive(Clone, Debug, Serialize, Deserialize)]
struct StubCase {
    nodes: Vec<Node>,
    start: u8,
    /// how many alias records the upstream puts into one response (server-side chasing), 1..=20
    per_response: u8,
    /// query type: false = A, true = SRV
    srv_query: bool,
    preserve_intermediates: bool,
    /// look the same name up again afterwards (cache path)
    again: bool,
}

fn node_name(i: usize) -> Name {
    Name::from_ascii(format!("n{i}.stub.test.")).unwrap()
}

#[derive(Clone)]
struct Scripted {
    nodes: Arc<Vec<Node>>,
    per_response: usize,
    calls: Arc<AtomicU64>,
}

impl DnsHandle for Scripted {
    type Response = stream::Once<futures_util::future::Ready<Result<DnsResponse, NetError>>>;
    type Runtime = SimRt;

    fn send(&self, request: DnsRequest) -> Self::Response {
        self.calls.fetch_add(1, Ordering::SeqCst);
        let q = request.queries.first().cloned().expect("question");
        let mut m = Message::response(request.id, OpCode::Query);
        m.add_query(q.clone());
        m.metadata.recursion_available = true;
        // which node is asked about
        let idx = (0..self.nodes.len()).find(|i| node_name(*i) == q.name);
        match idx {
            None => {
                m.metadata.response_code = ResponseCode::NXDomain;
            }
            Some(mut i) => {
                for _ in 0..self.per_response {
                    match &self.nodes[i] {
                        Node::Cname(t) => {
                            let t = *t as usize % self.nodes.len();
                            m.add_answer(Record::from_rdata(node_name(i), 60, RData::CNAME(CNAME(node_name(t)))));
                            i = t;
                        }
                        Node::Srv(t) => {
                            let t = *t as usize % self.nodes.len();
                            if q.query_type == RecordType::SRV {
                                m.add_answer(Record::from_rdata(node_name(i), 60, RData::SRV(SRV::new(1, 1, 443, node_name(t)))));
                            }
                            break;
                        }
                        Node::A => {
                            if q.query_type == RecordType::A {
                                m.add_answer(Record::from_rdata(node_name(i), 60, RData::A(A::new(192, 0, 2, i as u8))));
                            }
                            break;
                        }
                        Node::NoData => break,
                        Node::NxDomain => {
                            if m.answers.is_empty() {
                                m.metadata.response_code = ResponseCode::NXDomain;
                            }
                            break;
                        }
                    }
                }
            }
        }
        stream::once(futures_util::future::ready(DnsResponse::from_message(m).map_err(NetError::from)))
    }
}

fn stub_case() -> impl Strategy<Value = StubCase> {
    let node = prop_oneof![
        6 => (0u8..24).prop_map(Node::Cname),
        2 => (0u8..24).prop_map(Node::Srv),
        1 => Just(Node::A),
        1 => Just(Node::NoData),
        1 => Just(Node::NxDomain),
    ];
    // explicit chains of length 1..20 (optionally closed into a loop) next to arbitrary graphs
    let chain = (1usize..=20, prop_oneof![Just(Node::A), Just(Node::NoData), Just(Node::NxDomain), (0u8..20).prop_map(Node::Cname)], any::<bool>()).prop_map(|(n, end, srv)| {
        let mut v: Vec<Node> = (0..n).map(|i| if srv && i % 3 == 2 { Node::Srv(i as u8 + 1) } else { Node::Cname(i as u8 + 1) }).collect();
        v.push(end);
        v
    });
    (
        prop_oneof![1 => vec(node, 1..=24), 1 => chain],
        0u8..24,
        prop_oneof![3 => Just(1u8), 2 => 2u8..=20],
        prop::bool::weighted(0.3),
        any::<bool>(),
        any::<bool>(),
    )
        .prop_map(|(nodes, start, per_response, srv_query, preserve_intermediates, again)| StubCase {
            nodes,
            start,
            per_response,
            srv_query,
            preserve_intermediates,
            again,
        })
}

fn stub_body(c: &StubCase, rec: &mut Rec) -> CaseResult {
    let _crash = crash::enter(1, c);
    let n = c.nodes.len();
    let calls = Arc::new(AtomicU64::new(0));
    let handle = Scripted {
        nodes: Arc::new(c.nodes.clone()),
        per_response: c.per_response.clamp(1, 20) as usize,
        calls: calls.clone(),
    };
    let client = CachingClient::new(64, handle, c.preserve_intermediates);
    let start = c.start as usize % n;
    let qtype = if c.srv_query { RecordType::SRV } else { RecordType::A };

    // structure of the alias graph from the start node (own walk)
    let mut seen = BTreeSet::new();
    let mut cur = start;
    let mut looped = false;
    let mut len = 0usize;
    loop {
        if !seen.insert(cur) {
            looped = true;
            break;
        }
        match &c.nodes[cur] {
            Node::Cname(t) => cur = *t as usize % n,
            Node::Srv(t) if c.srv_query => cur = *t as usize % n,
            _ => break,
        }
        len += 1;
    }

    let rounds = if c.again { 2 } else { 1 };
    for round in 0..rounds {
        let before = calls.load(Ordering::SeqCst);
        let res = futures_executor::block_on(client.lookup(Query::new(node_name(start), qtype), DnsRequestOptions::default()));
        let used = calls.load(Ordering::SeqCst) - before;
        // DepthTracker::MAX_QUERY_DEPTH = 8: at most 8 upstream queries per lookup, one of slack
        vensure!(
            used <= 9,
            "stub-alias-chase-exceeds-depth-bound",
            "lookup of n{start} {qtype} (round {round}) made {used} upstream queries on an alias graph of {n} nodes (chain length {len}, loop {looped})"
        );
        rec.class(format!("stub:{}", if res.is_ok() { "ok" } else { "err" }));
        rec.class(format!("upstream-queries:{}", used.min(9)));
    }
    rec.class(if looped { "alias-loop" } else { "alias-chain" });
    if len >= 8 {
        rec.class("chain>=8");
    }
    if looped || len >= 1 {
        rec.nontrivial();
        if rec.wants_note() {
            rec.note(format!("start n{start} {qtype}, per-response {}, chain length {len}, loop {looped}, nodes {:?}", c.per_response, c.nodes));
        }
    }
    Ok(())
}

// ---------------------------------------------------------------------------------------------

// ---------------------------------------------------------------------------------------------
// C15 through the recursor (crates/resolver/src/recursor/handle.rs sits on the same response
// cache): one query is resolved on an honest simulated internet, virtual time moves on, and the
// query is resolved again. Every record of the simulated zones has TTL 3600 and the SOA MINIMUM is
// 300. What the second resolution returns without having asked anybody comes from a cache, and
// was stored no later than the end of the first resolution: its TTLs must have counted down by
// the whole seconds in between, and nothing may come out of a cache after its TTL has run out.

#[derive(Clone, Debug, Serialize, Deserialize)]
pub struct ExpiryCase {
    pub base: NetCase,
    /// pause between the two resolutions, milliseconds
    pub pause_ms: u64,
}

pub fn expiry_case() -> impl Strategy<Value = ExpiryCase> {
    let t = TTL as u64 * 1000;
    let pause = prop_oneof![
        2 => 0u64..3_000,
        2 => 3_000u64..290_000,
        2 => 295_000u64..305_000,
        2 => 305_000u64..(t - 5_000),
        3 => (t - 3_000)..(t + 3_000),
        2 => (t + 3_000)..(3 * t),
    ];
    (internet::net_case(), pause).prop_map(|(mut base, pause_ms)| {
        // honest servers only, default limits: this sub-property is about time, not about poison
        base.cfg.deny_server.clear();
        base.cfg.allow_server.clear();
        base.cfg.deny_answers.clear();
        base.cfg.allow_answers.clear();
        base.cfg.recursion_limit = base.cfg.recursion_limit.max(24);
        base.cfg.ns_recursion_limit = base.cfg.ns_recursion_limit.max(24);
        ExpiryCase { base, pause_ms }
    })
}

pub fn expiry_body(c: &ExpiryCase, rec: &mut Rec) -> CaseResult {
    let mut w = build_world(&c.base.net);
    for s in w.servers.iter_mut() {
        s.poison.clear();
    }
    let world = Rc::new(w);
    let w = &*world;
    let roots: Vec<IpAddr> = w.root_ips().into_iter().map(|ip| IpAddr::V4(Ipv4Addr::from(ip))).collect();
    let cfg = &c.base.cfg;
    let opts = RecursorOptions {
        recursion_limit: cfg.recursion_limit,
        ns_recursion_limit: cfg.ns_recursion_limit,
        qname_minimization: if cfg.relaxed_qmin { QNameMinimization::Relaxed } else { QNameMinimization::Strict },
        case_randomization: cfg.case_randomization,
        ..RecursorOptions::default()
    };
    let _det = crate::detrand::DetRand::start(0xC15_0000 + c.base.os_seed);
    let mut sim = Sim::new(1_700_000_000);
    let net = Rc::new(Net {
        world: world.clone(),
        latency_ms: c.base.latency_ms as u64,
        ttl_mode: 0,
        st: RefCell::new(NetState::default()),
    });
    sim.set_net(net.clone());
    let recursor = match Recursor::with_options(&roots, opts, SimRt) {
        Ok(r) => Rc::new(r),
        Err(e) => {
            rec.discard(format!("recursor-construction-failed: {e}"));
            return Ok(());
        }
    };
    let q = &c.base.queries[0];
    let qname = query_name(w, &q.target);
    let qtype = QTYPES[q.qt as usize % QTYPES.len()];
    let run = |sim: &mut Sim| -> Result<(Result<Message, RecursorError>, usize), Fail> {
        let start = net.st.borrow().log.len();
        let (r, query) = (recursor.clone(), Query::new(name_of(&qname), qtype));
        let res = match sim.run(async move { r.resolve(query, Instant::now(), false).await }, EVENT_BUDGET) {
            Ok(r) => r,
            Err(e) => return Err(Fail::new("harness-resolve-did-not-finish", format!("{qname} {qtype}: {e:?}"))),
        };
        if let Some(e) = net.st.borrow_mut().harness_err.take() {
            return Err(Fail::new("harness-error", format!("simulated network: {e}")));
        }
        let n = net.st.borrow().log.len() - start;
        Ok((res, n))
    };
    let ttls = |res: &Result<Message, RecursorError>| -> Vec<(String, u32)> {
        match res {
            Ok(m) => m.answers.iter().map(|r| (format!("{} {}", r.name, r.record_type()), r.ttl)).collect(),
            _ => vec![],
        }
    };
    let (first, n1) = run(&mut sim)?;
    let t1 = crate::sim::now_nanos();
    sim.advance(Duration::from_millis(c.pause_ms));
    let t2 = crate::sim::now_nanos();
    let (second, n2) = run(&mut sim)?;
    // whole seconds that have certainly passed since anything in a cache was stored
    let elapsed = ((t2 - t1) / 1_000_000_000) as u32;
    let (_, kind1) = returned_records(&first);
    let (_, kind2) = returned_records(&second);
    rec.class(format!("first={kind1}"));
    rec.class(format!("second={kind2}"));
    rec.class(if n2 == 0 { "second-resolution:from-cache-only" } else { "second-resolution:asked-upstream" });
    rec.class(match c.pause_ms / 1000 {
        0..=2 => "pause:<3s",
        3..=294 => "pause:<negative-ttl",
        295..=304 => "pause:around-negative-ttl(300s)",
        305..=3596 => "pause:<ttl",
        3597..=3602 => "pause:around-ttl(3600s)",
        _ => "pause:>ttl",
    });
    if n1 > 0 {
        rec.nontrivial();
    }
    let ctx = || {
        format!(
            "{qname} {qtype}: first resolution {kind1} ({n1} datagrams, answers {:?}), {} ms later {kind2} ({n2} datagrams, answers {:?})",
            ttls(&first),
            c.pause_ms,
            ttls(&second)
        )
    };
    if rec.wants_note() {
        rec.note(ctx());
    }
    for (what, res) in [("first", &first), ("second", &second)] {
        for (r, ttl) in ttls(res) {
            vensure!(ttl <= TTL, "recursor-reports-ttl-above-the-authoritative-one", "{what} resolution: {r} has TTL {ttl}, the zone says {TTL}; {}", ctx());
        }
    }
    if n2 == 0 {
        if !ttls(&second).is_empty() {
            rec.class("positive-answer-from-cache-only");
        }
        for (r, ttl) in ttls(&second) {
            vensure!(
                elapsed <= TTL,
                "recursor-serves-record-past-its-ttl",
                "{r} was returned without any upstream query {elapsed} s after it can have been stored at the latest (TTL {TTL}); {}",
                ctx()
            );
            vensure!(
                ttl <= TTL - elapsed,
                "recursor-cached-ttl-not-counted-down",
                "{r} came out of the cache with TTL {ttl} although at least {elapsed} whole seconds have passed since it was stored with at most {TTL}; {}",
                ctx()
            );
        }
        if matches!(kind2, "err-nxdomain" | "err-nodata" | "err-net-norecords") && n1 > 0 {
            // RFC 2308 5: negative TTL = min(SOA TTL, SOA MINIMUM) = 300 here; nothing in the
            // default configuration raises it
            rec.class("negative-answer-from-cache-only");
            vensure!(
                elapsed <= 300,
                "recursor-serves-negative-answer-past-its-negative-ttl",
                "a negative answer was returned without any upstream query {elapsed} s after it was stored (SOA TTL {TTL}, MINIMUM 300); {}",
                ctx()
            );
        }
    }
    Ok(())
}

pub fn check() -> Option<Check> {
    // ~0.15 ms per case on 16 threads: quick ~15 s + ~5 s, thorough ~7 min + ~1.5 min
    let recursor = prop_hang("recursor", 200_000, 3_000_000, Duration::from_secs(60), |_tier| internet::net_case(), net_body);
    let stub = prop_hang("stub_alias", 200_000, 4_000_000, Duration::from_secs(30), |_tier| stub_case(), stub_body);
    Some(Check {
        id: "C19",
        level: "exploration",
        rule: "recursor: random simulated internets (root + <=3 zone levels, <=2 NS per zone, NS host names in the zone / its parent / any other zone, glue or not, lame / dead / refusing / SERVFAIL servers, CNAME chains of 1..20 names and loops, in 1 world of 13 an alias tree (2-3 CNAME records per owner, 3-5 levels, up to 364 names), optional server-side CNAME chasing, record TTLs 3600 s / NS records 0 / everything 0 (1 world in 6: nothing can be taken from a cache twice), reply latency 0/7/150 ms steps) served over UDP by a reference authoritative model (RFC 1034 4.3.2) to the real Recursor on a discrete-event runtime; hostile servers append marked records whose owners lie outside every zone delegated to them (A for a victim name, NS+glue for a victim zone or the root, NS pointing at an attacker host, CNAME at a victim name, address for a victim zone's NS host) to the answer / authority / additional section of all, referral, positive or negative responses; recursion_limit and ns_recursion_limit in {2..6, 12, 24}; optional deny/allow lists for servers and answers; 1-4 queries (A/AAAA/NS/CNAME/TXT; every third one asked twice at the same instant so that the second resolution joins the first one's in-flight requests, both results judged) then up to 8 follow-up queries for the victims on the same Recursor. Counted non-trivial when distinct and a poison record was actually delivered to the recursor, or the graph has a glueless / self-referential / cyclic delegation, a lame or dead server, or a CNAME loop. stub_alias: CachingClient over scripted CNAME/SRV alias graphs (chains 1..20, loops, 1..20 alias records per response); non-trivial = at least one alias hop.",
        assumptions: vec![
            "alias trees (several CNAME records per owner): the recursor's own cap of 64 alias lookups per client query (recursor/handle.rs: 'regardless of the recursion depth limit') is taken as the bound; a change of that constant upstream needs the number 64 in this check changed with it",
            "DNSSEC validation off (SecurityUnaware); UDP only (responses are small, no truncation, so TCP is never needed)",
            "root hints point at working servers that carry the root zone; root servers are exempt from deny_server (they are explicit configuration)",
            "a record counts as out-of-bailiwick poison only if its owner lies outside every zone delegated to the injecting server's address (a stricter per-exchange reading would call more records poison)",
            "returned = the Message from resolve(), plus the SOA/authority records inside a negative RecursorError (a front end copies them into its response); the referral copy inside RecursorError::ForwardNS / NoRecords::ns is diagnostic and not judged",
            "OS randomness seen by hickory (initial SRTT order, ids, ports, 0x20) is a deterministic stream seeded by the case (interposed getrandom)",
            "Q_max = 3*(recursion_limit+1)*(ns_recursion_limit+1)*(zones+servers) datagrams per resolve() (observed maximum on the unchanged tree: 23); alias hops asked upstream <= recursion_limit+1; both detect explosive/unbounded recursion, not small excesses",
            "a simulation deadlock (no timer, nothing runnable) is reported as harness-deadlock, an exhausted event budget (200k timer events) or a stack overflow as non-termination",
        ],
        subs: vec![recursor, stub],
    })
}
