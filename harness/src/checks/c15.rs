//! C15 — Cached answers expire on time and TTLs only count down.
//!
//! Histories of `insert(q, result, t)` / `get(q, t)` over three queries with non-decreasing `t`
//! are run against the real `hickory_resolver::ResponseCache` under the interposed virtual clock
//! (moka reads `std::time::Instant`; the clock is set to `t` before every operation so moka's own
//! expiry and the `Instant` handed to the cache agree, as they do for the real callers, which
//! pass `Instant::now()`). The oracle is `refm::cache_ref` (own model, written from the property
//! statement and the `TtlConfig` rustdoc).
//!
//! `ResponseCache::clear` / `clear_query` are `pub(crate)`: they cannot be called on a cache with
//! a caller-chosen `TtlConfig` from outside the crate. The `clear` operation of the quantifier is
//! therefore exercised through the only public route, `CachingClient::{clear_cache,
//! clear_cache_query}` (sub-property `client_clear`, default `TtlConfig`).

use std::sync::Arc;
use std::time::Instant;

use hickory_net::{DnsError, NetError, NoRecords};
use hickory_proto::op::{DnsResponse, Message, OpCode, Query, ResponseCode};
use hickory_proto::rr::rdata::{A, AAAA, CNAME, MX, NS, SOA, TXT};
use hickory_proto::rr::{Name, RData, Record, RecordType};
use hickory_resolver::{ResponseCache, TtlConfig};
use proptest::collection::vec;
use proptest::prelude::*;
use serde::{Deserialize, Serialize};
use serde_json::json;

use crate::clock::{self, VirtualClock};
use crate::core::{prop, CaseResult, Check, Fail, Rec, Tier};
use crate::refm::cache_ref::{self as cref, Bounds, Config, Lifetime};

const NS_PER_S: u64 = 1_000_000_000;

// ---------------------------------------------------------------------------------------------
// case type

#[derive(Clone, Copy, Debug, PartialEq, Eq, Hash, Serialize, Deserialize)]
pub enum TypeK {
    A,
    AAAA,
    TXT,
    MX,
    NS,
    CNAME,
    SOA,
}

impl TypeK {
    fn code(self) -> u16 {
        // RFC 1035 §3.2.2, RFC 3596 §2.1
        match self {
            TypeK::A => 1,
            TypeK::NS => 2,
            TypeK::CNAME => 5,
            TypeK::SOA => 6,
            TypeK::MX => 15,
            TypeK::TXT => 16,
            TypeK::AAAA => 28,
        }
    }
    fn rt(self) -> RecordType {
        match self {
            TypeK::A => RecordType::A,
            TypeK::AAAA => RecordType::AAAA,
            TypeK::TXT => RecordType::TXT,
            TypeK::MX => RecordType::MX,
            TypeK::NS => RecordType::NS,
            TypeK::CNAME => RecordType::CNAME,
            TypeK::SOA => RecordType::SOA,
        }
    }
    fn key(self) -> &'static str {
        match self {
            TypeK::A => "A",
            TypeK::AAAA => "AAAA",
            TypeK::TXT => "TXT",
            TypeK::MX => "MX",
            TypeK::NS => "NS",
            TypeK::CNAME => "CNAME",
            TypeK::SOA => "SOA",
        }
    }
}

/// record type relative to the query the message answers
#[derive(Clone, Copy, Debug, PartialEq, Eq, Serialize, Deserialize)]
enum RType {
    /// the queried type
    Q,
    Cname,
    Other(TypeK),
}

#[derive(Clone, Debug, Serialize, Deserialize)]
struct RecSpec {
    /// 0 answer, 1 authority, 2 additional
    sec: u8,
    ty: RType,
    ttl: u32,
    owner: u8,
    v: u8,
}

#[derive(Clone, Copy, Debug, Serialize, Deserialize)]
enum Transient {
    Timeout,
    Io,
    ServFail,
    Refused,
    Busy,
    NoConnections,
    Msg,
}

#[derive(Clone, Debug, Serialize, Deserialize)]
enum NegMode {
    /// `NoRecords` assembled field by field
    Direct {
        negative_ttl: Option<u32>,
        soa_ttl: Option<u32>,
        auth_ttl: Option<u32>,
        /// (NS ttl, glue ttl)
        ns_ttl: Option<(u32, u32)>,
    },
    /// what the resolver does: NXDOMAIN/NODATA response message -> `DnsError::from_response`;
    /// soa = (SOA record TTL, SOA MINIMUM)
    FromResponse { soa: Option<(u32, u32)>, ns_ttl: Option<u32> },
}

#[derive(Clone, Debug, Serialize, Deserialize)]
enum Res {
    Pos { recs: Vec<RecSpec> },
    Neg {
        nx: bool,
        mode: NegMode,
        /// the query carried inside the error is not the one the entry is stored under: another
        /// type (Direct), or none at all because the upstream reply had no question section
        /// (FromResponse falls back to a root query). The cache key decides the bounds.
        #[serde(default)]
        foreign_query: bool,
    },
    Transient(Transient),
}

#[derive(Clone, Copy, Debug, Serialize, Deserialize)]
enum Off {
    M1s,
    M1ns,
    Zero,
    P1ns,
    P500ms,
    P1s,
}

#[derive(Clone, Copy, Debug, Serialize, Deserialize)]
enum Step {
    Same,
    Ms(u32),
    Secs(u32),
    /// jump to (expiry of the newest entry of query `q` by the model) + off, if that is not in the past
    Near { q: u8, hi: bool, off: Off },
}

#[derive(Clone, Debug, Serialize, Deserialize)]
enum Op {
    Insert { q: u8, res: Res },
    Get { q: u8 },
}

#[derive(Clone, Debug, Serialize, Deserialize)]
struct Hist {
    cfg: Config,
    qa: TypeK,
    qb: TypeK,
    cap: u16,
    ops: Vec<(Step, Op)>,
    /// how the `TtlConfig` comes into being: 0 = deserialised as a whole; 1 = the default bounds
    /// converted (`TtlConfig::from`), then one `with_query_type_ttl_bounds` call per type; 2 = as 1,
    /// but every type is first given other bounds and then the real ones ("Override the minimum
    /// and maximum TTL values for a specific query type": the later call decides)
    #[serde(default)]
    build: u8,
}

// ---------------------------------------------------------------------------------------------
// strategies

fn ttl() -> impl Strategy<Value = u32> {
    prop_oneof![
        6 => 0u32..12,
        2 => 0u32..130,
        1 => 3_595u32..3_605,
        1 => 86_395u32..86_405,
        1 => 100_000u32..200_000,
        // RFC 2181 §8: the largest legal TTL
        1 => Just(0x7fff_ffffu32),
    ]
}

fn bound_min() -> impl Strategy<Value = Option<u64>> {
    prop_oneof![
        5 => Just(None),
        1 => Just(Some(0u64)),
        4 => (1u64..10).prop_map(Some),
        1 => prop::sample::select(vec![30u64, 60, 100, 3_600]).prop_map(Some),
        1 => prop::sample::select(vec![86_400u64, 100_000]).prop_map(Some),
    ]
}

fn bound_max() -> impl Strategy<Value = Option<u64>> {
    prop_oneof![
        5 => Just(None),
        1 => Just(Some(0u64)),
        4 => (1u64..10).prop_map(Some),
        1 => prop::sample::select(vec![30u64, 60, 100, 3_600]).prop_map(Some),
        1 => prop::sample::select(vec![86_400u64, 200_000]).prop_map(Some),
    ]
}

fn fix(min: Option<u64>, max: Option<u64>) -> (Option<u64>, Option<u64>) {
    // the domain is min <= max (after defaults); an inverted pair becomes the min = max class
    let (lo, hi) = (min.unwrap_or(0), max.unwrap_or(cref::DAY));
    if lo > hi {
        (min, min)
    } else {
        (min, max)
    }
}

fn bounds() -> impl Strategy<Value = Bounds> {
    (bound_min(), bound_max(), bound_min(), bound_max(), 0u8..8).prop_map(|(a, b, c, d, eq)| {
        let (mut pmin, mut pmax) = fix(a, b);
        let (mut nmin, mut nmax) = fix(c, d);
        // explicit min = max class
        if eq == 0 && pmin.is_some() {
            pmax = pmin;
        }
        if eq == 1 && nmin.is_some() {
            nmax = nmin;
        }
        if eq == 2 {
            pmin = pmin.or(Some(0));
            nmin = nmin.or(Some(0));
        }
        Bounds { pmin, pmax, nmin, nmax }
    })
}

fn typek() -> impl Strategy<Value = TypeK> {
    prop::sample::select(vec![TypeK::A, TypeK::AAAA, TypeK::TXT, TypeK::MX, TypeK::NS, TypeK::CNAME, TypeK::SOA])
}

fn qtypek() -> impl Strategy<Value = TypeK> {
    prop::sample::select(vec![TypeK::A, TypeK::AAAA, TypeK::TXT, TypeK::MX, TypeK::NS, TypeK::CNAME])
}

fn config() -> impl Strategy<Value = Config> {
    (
        prop_oneof![1 => Just(Bounds::default()), 4 => bounds()],
        vec((typek(), bounds()), 0..=3),
    )
        .prop_map(|(default, per)| {
            let mut by_type: Vec<(u16, Bounds)> = Vec::new();
            for (t, b) in per {
                by_type.retain(|(c, _)| *c != t.code());
                by_type.push((t.code(), b));
            }
            Config { default, by_type }
        })
}

fn recspec() -> impl Strategy<Value = RecSpec> {
    (
        prop_oneof![3 => Just(0u8), 1 => Just(1u8), 1 => Just(2u8)],
        prop_oneof![
            5 => Just(RType::Q),
            2 => Just(RType::Cname),
            4 => typek().prop_map(RType::Other),
        ],
        ttl(),
        0u8..3,
        any::<u8>(),
    )
        .prop_map(|(sec, ty, ttl, owner, v)| RecSpec { sec, ty, ttl, owner, v })
}

fn opt_ttl() -> impl Strategy<Value = Option<u32>> {
    prop_oneof![1 => Just(None), 3 => ttl().prop_map(Some)]
}

fn res() -> impl Strategy<Value = Res> {
    let neg_mode = prop_oneof![
        1 => (opt_ttl(), opt_ttl(), opt_ttl(), prop_oneof![2 => Just(None), 1 => (ttl(), ttl()).prop_map(Some)]).prop_map(
            |(negative_ttl, soa_ttl, auth_ttl, ns_ttl)| NegMode::Direct {
                negative_ttl,
                soa_ttl,
                auth_ttl,
                ns_ttl
            }
        ),
        1 => (prop_oneof![1 => Just(None), 4 => (ttl(), ttl()).prop_map(Some)], opt_ttl())
            .prop_map(|(soa, ns_ttl)| NegMode::FromResponse { soa, ns_ttl }),
    ];
    prop_oneof![
        11 => vec(recspec(), 0..=6).prop_map(|recs| Res::Pos { recs }),
        5 => (any::<bool>(), neg_mode, prop::bool::weighted(0.2)).prop_map(|(nx, mode, foreign_query)| Res::Neg { nx, mode, foreign_query }),
        4 => prop::sample::select(vec![
            Transient::Timeout,
            Transient::Io,
            Transient::ServFail,
            Transient::Refused,
            Transient::Busy,
            Transient::NoConnections,
            Transient::Msg,
        ])
        .prop_map(Res::Transient),
    ]
}

fn step() -> impl Strategy<Value = Step> {
    prop_oneof![
        4 => Just(Step::Same),
        2 => prop::sample::select(vec![1u32, 250, 500, 999]).prop_map(Step::Ms),
        6 => (1u32..6).prop_map(Step::Secs),
        1 => prop::sample::select(vec![30u32, 60, 100, 3_600, 86_400, 90_000]).prop_map(Step::Secs),
        5 => (
            0u8..3,
            any::<bool>(),
            prop::sample::select(vec![Off::M1s, Off::M1ns, Off::Zero, Off::P1ns, Off::P500ms, Off::P1s])
        )
            .prop_map(|(q, hi, off)| Step::Near { q, hi, off }),
    ]
}

fn op() -> impl Strategy<Value = Op> {
    prop_oneof![
        4 => (0u8..3, res()).prop_map(|(q, res)| Op::Insert { q, res }),
        6 => (0u8..3).prop_map(|q| Op::Get { q }),
    ]
}

fn hist(tier: Tier) -> impl Strategy<Value = Hist> {
    let max_ops = match tier {
        Tier::Quick => 30usize,
        Tier::Thorough => 40usize,
    };
    (
        config(),
        qtypek(),
        qtypek(),
        prop_oneof![9 => Just(64u16), 1 => 1u16..4],
        vec((step(), op()), 1..=max_ops),
        prop_oneof![3 => Just(0u8), 1 => Just(1u8), 1 => Just(2u8)],
    )
        .prop_map(|(cfg, qa, qb, cap, ops, build)| Hist { cfg, qa, qb, cap, ops, build })
}

// ---------------------------------------------------------------------------------------------
// building hickory values

fn name(s: &str) -> Name {
    Name::from_ascii(s).expect("fixed test name")
}

fn owner(i: u8) -> Name {
    match i % 3 {
        0 => name("a.example."),
        1 => name("b.example."),
        _ => name("alias.example."),
    }
}

fn rdata(t: TypeK, v: u8) -> RData {
    match t {
        TypeK::A => RData::A(A::new(192, 0, 2, v)),
        TypeK::AAAA => RData::AAAA(AAAA::new(0x2001, 0xdb8, 0, 0, 0, 0, 0, v as u16)),
        TypeK::TXT => RData::TXT(TXT::new(vec![format!("v={v}")])),
        TypeK::MX => RData::MX(MX::new(v as u16, name("mx.example."))),
        TypeK::NS => RData::NS(NS(name(&format!("ns{}.example.", v % 4)))),
        TypeK::CNAME => RData::CNAME(CNAME(name(&format!("t{}.example.", v % 4)))),
        TypeK::SOA => RData::SOA(soa_rdata(v as u32, 3_600)),
    }
}

fn soa_rdata(serial: u32, minimum: u32) -> SOA {
    SOA::new(name("ns.example."), name("admin.example."), serial, 7_200, 600, 86_400, minimum)
}

fn cfg_json(c: &Config) -> serde_json::Value {
    fn b(b: &Bounds) -> serde_json::Value {
        let mut m = serde_json::Map::new();
        if let Some(v) = b.pmin {
            m.insert("positive_min_ttl".into(), json!(v));
        }
        if let Some(v) = b.pmax {
            m.insert("positive_max_ttl".into(), json!(v));
        }
        if let Some(v) = b.nmin {
            m.insert("negative_min_ttl".into(), json!(v));
        }
        if let Some(v) = b.nmax {
            m.insert("negative_max_ttl".into(), json!(v));
        }
        serde_json::Value::Object(m)
    }
    let mut m = serde_json::Map::new();
    m.insert("default".into(), b(&c.default));
    for (code, bb) in &c.by_type {
        let k = [TypeK::A, TypeK::AAAA, TypeK::TXT, TypeK::MX, TypeK::NS, TypeK::CNAME, TypeK::SOA]
            .into_iter()
            .find(|t| t.code() == *code)
            .expect("known type code");
        m.insert(k.key().into(), b(bb));
    }
    serde_json::Value::Object(m)
}

// ---------------------------------------------------------------------------------------------
// model entries

/// one TTL-bearing value of a cached result, in a fixed order, with its record type (0 = the
/// bare `negative_ttl` number)
#[derive(Clone, Debug)]
struct TtlSlot {
    rtype: u16,
    upstream: u32,
}

#[derive(Clone, Debug)]
enum Content {
    Pos(Message),
    Neg(NoRecords),
}

#[derive(Clone, Debug)]
struct MEntry {
    t_ins: u64,
    op_index: usize,
    content: Content,
    slots: Vec<TtlSlot>,
    life: Option<Lifetime>,
    last_reported: Option<(u64, Vec<u32>)>,
}

fn pos_ttls(m: &Message) -> Vec<u32> {
    m.answers.iter().chain(m.authorities.iter()).chain(m.additionals.iter()).map(|r| r.ttl).collect()
}

fn neg_ttls(n: &NoRecords) -> Vec<u32> {
    let mut v = Vec::new();
    if let Some(t) = n.negative_ttl {
        v.push(t);
    }
    if let Some(s) = &n.soa {
        v.push(s.ttl);
    }
    if let Some(a) = &n.authorities {
        v.extend(a.iter().map(|r| r.ttl));
    }
    if let Some(ns) = &n.ns {
        for d in ns.iter() {
            v.push(d.ns.ttl);
            v.extend(d.glue.iter().map(|r| r.ttl));
        }
    }
    v
}

fn neg_slots(n: &NoRecords) -> Vec<TtlSlot> {
    let mut v = Vec::new();
    if let Some(t) = n.negative_ttl {
        v.push(TtlSlot { rtype: 0, upstream: t });
    }
    if let Some(s) = &n.soa {
        v.push(TtlSlot { rtype: 6, upstream: s.ttl });
    }
    if let Some(a) = &n.authorities {
        v.extend(a.iter().map(|r| TtlSlot {
            rtype: u16::from(r.record_type()),
            upstream: r.ttl,
        }));
    }
    if let Some(ns) = &n.ns {
        for d in ns.iter() {
            v.push(TtlSlot {
                rtype: 2,
                upstream: d.ns.ttl,
            });
            v.extend(d.glue.iter().map(|r| TtlSlot {
                rtype: u16::from(r.record_type()),
                upstream: r.ttl,
            }));
        }
    }
    v
}

fn same_records(a: &[Record], b: &[Record]) -> bool {
    a.len() == b.len()
        && a.iter()
            .zip(b)
            .all(|(x, y)| x.name == y.name && x.dns_class == y.dns_class && x.record_type() == y.record_type() && x.data == y.data)
}

fn same_pos(a: &Message, b: &Message) -> bool {
    a.metadata.id == b.metadata.id
        && a.metadata.response_code == b.metadata.response_code
        && same_records(&a.answers, &b.answers)
        && same_records(&a.authorities, &b.authorities)
        && same_records(&a.additionals, &b.additionals)
}

fn same_neg(a: &NoRecords, b: &NoRecords) -> bool {
    let soa_eq = match (&a.soa, &b.soa) {
        (None, None) => true,
        (Some(x), Some(y)) => x.name == y.name && x.data == y.data,
        _ => false,
    };
    let auth_eq = match (&a.authorities, &b.authorities) {
        (None, None) => true,
        (Some(x), Some(y)) => same_records(x, y),
        _ => false,
    };
    let ns_eq = match (&a.ns, &b.ns) {
        (None, None) => true,
        (Some(x), Some(y)) => {
            x.len() == y.len()
                && x.iter()
                    .zip(y.iter())
                    .all(|(p, q)| same_records(std::slice::from_ref(&p.ns), std::slice::from_ref(&q.ns)) && same_records(&p.glue, &q.glue))
        }
        _ => false,
    };
    a.response_code == b.response_code
        && a.negative_ttl.is_some() == b.negative_ttl.is_some()
        && *a.query == *b.query
        && soa_eq
        && auth_eq
        && ns_eq
}

fn harness(msg: impl Into<String>) -> Fail {
    Fail::new("harness", msg)
}

// ---------------------------------------------------------------------------------------------
// the property body

fn off_ns(o: Off) -> i64 {
    match o {
        Off::M1s => -(NS_PER_S as i64),
        Off::M1ns => -1,
        Off::Zero => 0,
        Off::P1ns => 1,
        Off::P500ms => 500_000_000,
        Off::P1s => NS_PER_S as i64,
    }
}

fn build_pos(id: u16, q: &Query, qtype: TypeK, recs: &[RecSpec]) -> Message {
    let mut m = Message::response(id, OpCode::Query);
    m.add_query(q.clone());
    for r in recs {
        let t = match r.ty {
            RType::Q => qtype,
            RType::Cname => TypeK::CNAME,
            RType::Other(t) => t,
        };
        let rr = Record::from_rdata(owner(r.owner), r.ttl, rdata(t, r.v));
        match r.sec {
            0 => m.add_answer(rr),
            1 => m.add_authority(rr),
            _ => m.add_additional(rr),
        };
    }
    m
}

fn build_neg(idx: usize, q: &Query, foreign_query: bool, nx: bool, mode: &NegMode) -> Result<Option<NoRecords>, Fail> {
    let code = if nx { ResponseCode::NXDomain } else { ResponseCode::NoError };
    let zone = name("example.");
    // the query inside the error: the asked one, or one of another type
    let inner = if foreign_query {
        let other = [RecordType::A, RecordType::AAAA, RecordType::MX, RecordType::TXT].into_iter().find(|t| *t != q.query_type).unwrap_or(RecordType::A);
        Query::new(q.name.clone(), other)
    } else {
        q.clone()
    };
    match mode {
        NegMode::Direct {
            negative_ttl,
            soa_ttl,
            auth_ttl,
            ns_ttl,
        } => {
            let mut n = NoRecords::new(inner, code);
            n.negative_ttl = *negative_ttl;
            if let Some(t) = soa_ttl {
                n.soa = Some(Box::new(Record::from_rdata(zone.clone(), *t, soa_rdata(idx as u32, 300))));
            }
            if let Some(t) = auth_ttl {
                n.authorities = Some(Arc::from(vec![Record::from_rdata(zone.clone(), *t, rdata(TypeK::NS, idx as u8))]));
            }
            if let Some((t, g)) = ns_ttl {
                n.ns = Some(Arc::from(vec![hickory_net::ForwardNSData {
                    ns: Record::from_rdata(zone.clone(), *t, rdata(TypeK::NS, 1)),
                    glue: Arc::from(vec![Record::from_rdata(name("ns1.example."), *g, rdata(TypeK::A, idx as u8))]),
                }]));
            }
            Ok(Some(n))
        }
        NegMode::FromResponse { soa, ns_ttl } => {
            let mut m = Message::response(idx as u16, OpCode::Query);
            m.metadata.response_code = code;
            if !foreign_query {
                m.add_query(q.clone());
            }
            if let Some((t, minimum)) = soa {
                m.add_authority(Record::from_rdata(zone.clone(), *t, RData::SOA(soa_rdata(idx as u32, *minimum))));
            }
            if let Some(t) = ns_ttl {
                m.add_authority(Record::from_rdata(zone.clone(), *t, rdata(TypeK::NS, 1)));
            }
            let resp = DnsResponse::from_message(m).map_err(|e| harness(format!("cannot build response: {e}")))?;
            match DnsError::from_response(resp) {
                Err(DnsError::NoRecordsFound(n)) => Ok(Some(n)),
                _ => Ok(None),
            }
        }
    }
}

fn transient(t: Transient) -> NetError {
    match t {
        Transient::Timeout => NetError::Timeout,
        Transient::Io => NetError::Io(Arc::new(std::io::Error::new(std::io::ErrorKind::ConnectionReset, "reset"))),
        Transient::ServFail => NetError::Dns(DnsError::ResponseCode(ResponseCode::ServFail)),
        Transient::Refused => NetError::Dns(DnsError::ResponseCode(ResponseCode::Refused)),
        Transient::Busy => NetError::Busy,
        Transient::NoConnections => NetError::NoConnections,
        Transient::Msg => NetError::Message("upstream failed"),
    }
}

fn render(h: &Hist) -> String {
    let mut s = format!("cfg={} q=[a/{:?}, a/{:?}, b/{:?}] cap={}:", cfg_json(&h.cfg), h.qa, h.qb, h.qa, h.cap);
    for (st, op) in &h.ops {
        let st = match st {
            Step::Same => "+0".to_string(),
            Step::Ms(m) => format!("+{m}ms"),
            Step::Secs(x) => format!("+{x}s"),
            Step::Near { q, hi, off } => format!("@expiry(q{q},{},{off:?})", if *hi { "hi" } else { "lo" }),
        };
        match op {
            Op::Get { q } => s.push_str(&format!(" {st} get(q{q});")),
            Op::Insert { q, res } => {
                let r = match res {
                    Res::Pos { recs } => format!(
                        "pos[{}]",
                        recs.iter().map(|r| format!("{}:{:?}/{}", r.sec, r.ty, r.ttl)).collect::<Vec<_>>().join(",")
                    ),
                    Res::Neg { nx, mode, foreign_query } => format!("neg(nx={nx},{mode:?}{})", if *foreign_query { ",error-carries-another-query" } else { "" }),
                    Res::Transient(t) => format!("{t:?}"),
                };
                s.push_str(&format!(" {st} insert(q{q},{r});"));
            }
        }
    }
    s
}

fn body(h: &Hist, rec: &mut Rec) -> CaseResult {
    if !h.cfg.consistent() {
        rec.discard("bounds-min-above-max");
        return Ok(());
    }
    if h.qa == h.qb {
        rec.class("qa=qb");
    }
    let cfg = &h.cfg;
    // virtual clock first, so that moka's clock origin is virtual time 0 (guard dropped last)
    let _clock = VirtualClock::start(1_700_000_000);
    let ttl_config: TtlConfig = if h.build == 0 {
        serde_json::from_value(cfg_json(cfg)).map_err(|e| harness(format!("TtlConfig from JSON {}: {e}", cfg_json(cfg))))?
    } else {
        // the builder: only the bounds themselves are deserialised (their fields are private)
        let whole = cfg_json(cfg);
        let bounds = |v: &serde_json::Value| -> Result<hickory_resolver::TtlBounds, Fail> {
            serde_json::from_value(v.clone()).map_err(|e| harness(format!("TtlBounds from JSON {v}: {e}")))
        };
        let mut tc = TtlConfig::from(bounds(&whole["default"])?);
        for (code, _) in &cfg.by_type {
            let k = [TypeK::A, TypeK::AAAA, TypeK::TXT, TypeK::MX, TypeK::NS, TypeK::CNAME, TypeK::SOA].into_iter().find(|t| t.code() == *code).expect("known type code");
            if h.build == 2 {
                let decoy = json!({"positive_min_ttl": 7, "positive_max_ttl": 77_777, "negative_min_ttl": 5, "negative_max_ttl": 55_555});
                tc.with_query_type_ttl_bounds(k.rt(), bounds(&decoy)?);
            }
            tc.with_query_type_ttl_bounds(k.rt(), bounds(&whole[k.key()])?);
        }
        tc
    };
    rec.class(match h.build {
        0 => "ttl-config:deserialised",
        1 => "ttl-config:builder",
        _ => "ttl-config:builder-with-overridden-bounds",
    });
    let cache = ResponseCache::new(h.cap as u64, ttl_config);

    let qtypes = [h.qa, h.qb, h.qa];
    let queries = [
        Query::new(name("a.example."), h.qa.rt()),
        Query::new(name("a.example."), h.qb.rt()),
        Query::new(name("b.example."), h.qa.rt()),
    ];
    // with qa == qb the first two queries are one cache key
    let slot_of = |q: u8| -> usize {
        let q = (q % 3) as usize;
        if q == 1 && h.qa == h.qb {
            0
        } else {
            q
        }
    };
    let mut model: [Vec<MEntry>; 3] = [Vec::new(), Vec::new(), Vec::new()];
    let mut now_ns: u64 = 0;
    let big_cap = h.cap >= 8;

    let (mut nt_reinsert_live, mut nt_near_expiry, mut nt_mixed_bounds) = (false, false, false);
    let (mut live_gets, mut live_hits, mut hits, mut gets) = (0u64, 0u64, 0u64, 0u64);
    let (mut inserts_pos, mut inserts_neg, mut inserts_transient) = (0u64, 0u64, 0u64);
    let mut readings_differ = false;
    let mut neg_unclamped_seen = false;
    let mut no_l_entries = 0u64;

    for (i, (st, op)) in h.ops.iter().enumerate() {
        // ---- time ----------------------------------------------------------------------------
        now_ns = match *st {
            Step::Same => now_ns,
            Step::Ms(m) => now_ns + m as u64 * 1_000_000,
            Step::Secs(s) => now_ns + s as u64 * NS_PER_S,
            Step::Near { q, hi, off } => {
                let target = model[slot_of(q)].last().and_then(|e| {
                    let l = e.life?;
                    let l = if hi { l.hi } else { l.lo };
                    (e.t_ins + l * NS_PER_S).checked_add_signed(off_ns(off))
                });
                match target {
                    Some(t) if t >= now_ns => t,
                    _ => now_ns,
                }
            }
        };
        clock::set_virtual_nanos(now_ns);
        let now = Instant::now();

        match op {
            // ---- insert ----------------------------------------------------------------------
            Op::Insert { q, res } => {
                let s = slot_of(*q);
                let (query, qtype) = (&queries[s], qtypes[s]);
                let live_before = model[s]
                    .last()
                    .map(|e| e.life.is_some_and(|l| now_ns - e.t_ins < l.lo * NS_PER_S))
                    .unwrap_or(false);
                match res {
                    Res::Pos { recs } => {
                        let msg = build_pos(i as u16, query, qtype, recs);
                        let typed: Vec<(u16, u32)> = msg.all_sections().map(|r| (u16::from(r.record_type()), r.ttl)).collect();
                        let life = cref::positive_lifetime(cfg, qtype.code(), &typed);
                        if let Some(l) = life {
                            readings_differ |= l.alt != l.hi;
                        } else {
                            no_l_entries += 1;
                        }
                        let qb = cfg.bounds_for(qtype.code());
                        if typed.iter().any(|(t, ttl)| {
                            let rb = cfg.bounds_for(*t);
                            rb != qb && cref::clamp(*ttl as u64, rb.pos()) != cref::clamp(*ttl as u64, qb.pos())
                        }) {
                            nt_mixed_bounds = true;
                        }
                        let slots = typed.iter().map(|(t, ttl)| TtlSlot { rtype: *t, upstream: *ttl }).collect();
                        cache.insert(query.clone(), Ok(msg.clone()), now);
                        model[s].push(MEntry {
                            t_ins: now_ns,
                            op_index: i,
                            content: Content::Pos(msg),
                            slots,
                            life,
                            last_reported: None,
                        });
                        inserts_pos += 1;
                        nt_reinsert_live |= live_before;
                    }
                    Res::Neg { nx, mode, foreign_query } => {
                        if *foreign_query {
                            rec.class("negative:error-carries-another-query-than-the-key");
                        }
                        let Some(n) = build_neg(i, query, *foreign_query, *nx, mode)? else {
                            rec.discard("from-response-not-negative");
                            return Ok(());
                        };
                        if let NegMode::FromResponse { soa, .. } = mode {
                            // RFC 2308 §5: negative TTL = min(SOA TTL, SOA MINIMUM)
                            let exp = soa.map(|(t, m)| cref::rfc2308_negative_ttl(t, m));
                            vensure!(
                                n.negative_ttl == exp,
                                "negative-ttl-not-rfc2308",
                                "SOA (ttl, minimum) = {soa:?}: negative TTL {:?}, RFC 2308 §5 says {exp:?}",
                                n.negative_ttl
                            );
                        }
                        let life = cref::negative_lifetime(cfg, qtype.code(), n.negative_ttl);
                        if life.is_none() {
                            no_l_entries += 1;
                        }
                        let slots = neg_slots(&n);
                        cache.insert(query.clone(), Err(NetError::from(n.clone())), now);
                        model[s].push(MEntry {
                            t_ins: now_ns,
                            op_index: i,
                            content: Content::Neg(n),
                            slots,
                            life,
                            last_reported: None,
                        });
                        inserts_neg += 1;
                        nt_reinsert_live |= live_before;
                    }
                    Res::Transient(t) => {
                        // "transient errors are never cached": the model does not change
                        cache.insert(query.clone(), Err(transient(*t)), now);
                        inserts_transient += 1;
                    }
                }
            }
            // ---- get -------------------------------------------------------------------------
            Op::Get { q } => {
                let s = slot_of(*q);
                let query = &queries[s];
                let qtype = qtypes[s];
                gets += 1;
                let got = cache.get(query, now);
                let newest = model[s].last();
                // "certainly live" leaves 1 ms of slack before the expiry instant: moka stores expiry
                // instants with 4,096 ns granularity (rounded down), so an entry may vanish a few
                // microseconds early, which the statement allows (None is always acceptable)
                let certainly_live = newest
                    .map(|e| e.life.is_some_and(|l| now_ns - e.t_ins + 1_000_000 <= l.lo * NS_PER_S))
                    .unwrap_or(false);
                if let Some(l) = newest.and_then(|e| e.life.map(|l| (e.t_ins, l))) {
                    for edge in [l.1.lo, l.1.hi] {
                        let exp = l.0 + edge * NS_PER_S;
                        if now_ns.abs_diff(exp) <= NS_PER_S {
                            nt_near_expiry = true;
                        }
                    }
                }
                if certainly_live && big_cap {
                    live_gets += 1;
                }
                let Some(result) = got else {
                    // eviction is always allowed
                    continue;
                };
                hits += 1;
                if certainly_live && big_cap {
                    live_hits += 1;
                }
                if let Err(e) = &result {
                    // "transient errors are never cached"
                    if !matches!(e, NetError::Dns(DnsError::NoRecordsFound(_))) {
                        vfail!("transient-error-served-from-cache", "op {i}: get(q{s}) returned the error {e:?}");
                    }
                }
                let Some(entry) = model[s].last_mut() else {
                    vfail!(
                        "get-without-cacheable-insert",
                        "op {i}: get(q{s}) returned {} although nothing cacheable was ever inserted for it",
                        if result.is_ok() { "a message" } else { "an error" }
                    );
                };
                let elapsed = now_ns - entry.t_ins;
                // (a) what came back is the newest cacheable insert, never a transient error
                let reported: Vec<u32> = match (&result, &entry.content) {
                    (Ok(m), Content::Pos(stored)) if same_pos(m, stored) => pos_ttls(m),
                    (Err(NetError::Dns(DnsError::NoRecordsFound(n))), Content::Neg(stored)) if same_neg(n, stored) => neg_ttls(n),
                    (Err(e), _) if !matches!(e, NetError::Dns(DnsError::NoRecordsFound(_))) => {
                        vfail!("transient-error-served-from-cache", "op {i}: get(q{s}) returned the error {e:?}");
                    }
                    _ => {
                        vfail!(
                            "returned-entry-is-not-newest-insert",
                            "op {i}: get(q{s}) at t={:.3}s returned {:?}, newest cacheable insert (op {}) was {:?}",
                            now_ns as f64 / 1e9,
                            result,
                            entry.op_index,
                            entry.content
                        );
                    }
                };
                // (b) lifetime
                if let Some(l) = entry.life {
                    let positive = matches!(entry.content, Content::Pos(_));
                    vensure!(
                        elapsed <= l.hi * NS_PER_S,
                        if positive { "positive-served-past-lifetime" } else { "negative-served-past-lifetime" },
                        "op {i}: get(q{s}) served an entry {:.9}s after its insertion (op {}), L = {}s (cfg {})",
                        elapsed as f64 / 1e9,
                        entry.op_index,
                        l.hi,
                        cfg_json(cfg)
                    );
                }
                // (c) reported TTLs
                vensure!(
                    reported.len() == entry.slots.len(),
                    "harness",
                    "slot count mismatch {} vs {}",
                    reported.len(),
                    entry.slots.len()
                );
                match entry.content {
                    Content::Pos(_) => {
                        for (k, (slot, got)) in entry.slots.iter().zip(&reported).enumerate() {
                            let stored = cref::clamp_record_ttl(cfg, slot.rtype, slot.upstream);
                            let exp = cref::reported(stored, elapsed);
                            vensure!(
                                *got as u64 == exp,
                                "positive-ttl-not-clamped-minus-elapsed",
                                "op {i}: get(q{s}) {:.3}s after insert: record {k} (type {}, upstream TTL {}, bounds {:?}) reports TTL {got}, expected clamp={stored} - elapsed = {exp}",
                                elapsed as f64 / 1e9,
                                slot.rtype,
                                slot.upstream,
                                cfg.bounds_for(slot.rtype).pos()
                            );
                        }
                    }
                    Content::Neg(_) => {
                        // the statement does not say which bounds (if any) apply to the TTL values
                        // inside a negative answer: accept the unclamped value and both clampings
                        let nb = cfg.bounds_for(qtype.code()).neg();
                        for (k, (slot, got)) in entry.slots.iter().zip(&reported).enumerate() {
                            let raw = slot.upstream as u64;
                            let mut cands = vec![raw, cref::clamp(raw, nb)];
                            if slot.rtype != 0 {
                                cands.push(cref::clamp_record_ttl(cfg, slot.rtype, slot.upstream));
                            }
                            let ok = cands.iter().any(|c| cref::reported(*c, elapsed) == *got as u64);
                            vensure!(
                                ok,
                                "negative-ttl-not-stored-minus-elapsed",
                                "op {i}: get(q{s}) {:.3}s after insert: negative-answer TTL value {k} (upstream {raw}) reports {got}; none of stored candidates {cands:?} minus elapsed gives that",
                                elapsed as f64 / 1e9
                            );
                            if slot.rtype == 0 && cref::clamp(raw, nb) != raw && cref::reported(raw, elapsed) == *got as u64 && cref::reported(cref::clamp(raw, nb), elapsed) != *got as u64 {
                                neg_unclamped_seen = true;
                            }
                        }
                    }
                }
                // (d) never increases between refreshes
                if let Some((t_prev, prev)) = &entry.last_reported {
                    for (k, (a, b)) in prev.iter().zip(&reported).enumerate() {
                        vensure!(
                            b <= a,
                            "ttl-increased-between-refreshes",
                            "op {i}: get(q{s}): TTL value {k} was {a} at t={:.3}s and is {b} at t={:.3}s without a re-insert",
                            *t_prev as f64 / 1e9,
                            now_ns as f64 / 1e9
                        );
                    }
                }
                entry.last_reported = Some((now_ns, reported));
            }
        }
    }
    drop(cache);

    rec.count("gets", gets);
    rec.count("hits", hits);
    rec.count("live_gets", live_gets);
    rec.count("live_hits", live_hits);
    rec.count("inserts_positive", inserts_pos);
    rec.count("inserts_negative", inserts_neg);
    rec.count("inserts_transient", inserts_transient);
    rec.count("entries_without_defined_L", no_l_entries);
    if nt_reinsert_live {
        rec.class("reinsert-of-live-key");
    }
    if nt_near_expiry {
        rec.class("get-within-1s-of-expiry");
    }
    if nt_mixed_bounds {
        rec.class("record-type-bounds-differ-from-query-type-bounds");
    }
    if readings_differ {
        rec.class("L-readings-differ(raw-vs-stored-cname-ttl)");
    }
    if neg_unclamped_seen {
        rec.class("observed:negative_ttl-reported-unclamped");
    }
    if !cfg.by_type.is_empty() {
        rec.class("cfg:per-type");
    }
    if cfg.default == Bounds::default() && cfg.by_type.is_empty() {
        rec.class("cfg:all-default");
    }
    let all_bounds: Vec<Bounds> = std::iter::once(cfg.default).chain(cfg.by_type.iter().map(|(_, b)| *b)).collect();
    if all_bounds.iter().any(|b| b.pmin.is_some() && b.pmin == b.pmax || b.nmin.is_some() && b.nmin == b.nmax) {
        rec.class("cfg:min=max");
    }
    if all_bounds.iter().any(|b| b.pmax == Some(0) || b.nmax == Some(0)) {
        rec.class("cfg:max=0");
    }
    if !big_cap {
        rec.class("capacity<4");
    }
    if nt_reinsert_live || nt_near_expiry || nt_mixed_bounds {
        rec.nontrivial();
        if rec.wants_note() {
            rec.note(render(h));
        }
    }
    Ok(())
}

// ---------------------------------------------------------------------------------------------
// sub-property `client_clear`: the `clear` operation, through the only public route
// (`CachingClient::{lookup, clear_cache, clear_cache_query}`; default `TtlConfig`), and the
// client's own TTL handling for aliased answers (CNAME chain + target records in one response,
// `preserve_intermediates` on and off)

#[derive(Clone, Debug, Serialize, Deserialize)]
enum Upstream {
    /// answer records of the queried type at the query name (TTLs), optional authority NS TTL,
    /// optional additional A TTL
    Answer { ttls: Vec<u32>, ns: Option<u32>, glue: Option<u32> },
    /// the query name is an alias: a chain of 1..2 CNAMEs (TTLs `cnames`) in chained order and
    /// the target's records of the queried type (TTLs `ttls`), all in one response
    Alias { cnames: Vec<u32>, ttls: Vec<u32> },
    /// NXDOMAIN / NODATA with SOA (ttl, minimum) or without
    Negative { nx: bool, soa: Option<(u32, u32)> },
    ServFail,
    Timeout,
}

#[derive(Clone, Debug, Serialize, Deserialize)]
enum COp {
    /// what upstream would answer if asked now
    Lookup { q: u8, upstream: Upstream },
    ClearAll,
    ClearQuery { q: u8 },
}

#[derive(Clone, Debug, Serialize, Deserialize)]
struct CHist {
    qa: TypeK,
    qb: TypeK,
    ops: Vec<(Step, COp)>,
    /// CachingClient's `preserve_intermediates`
    #[serde(default)]
    preserve: bool,
}

fn upstream() -> impl Strategy<Value = Upstream> {
    prop_oneof![
        6 => (vec(ttl(), 1..=3), opt_ttl(), opt_ttl()).prop_map(|(ttls, ns, glue)| Upstream::Answer { ttls, ns, glue }),
        3 => (vec(ttl(), 1..=2), vec(ttl(), 1..=2)).prop_map(|(cnames, ttls)| Upstream::Alias { cnames, ttls }),
        3 => (any::<bool>(), prop_oneof![1 => Just(None), 4 => (ttl(), ttl()).prop_map(Some)]).prop_map(|(nx, soa)| Upstream::Negative { nx, soa }),
        1 => Just(Upstream::ServFail),
        1 => Just(Upstream::Timeout),
    ]
}

fn chist(_tier: Tier) -> impl Strategy<Value = CHist> {
    let cop = prop_oneof![
        10 => (0u8..3, upstream()).prop_map(|(q, upstream)| COp::Lookup { q, upstream }),
        1 => Just(COp::ClearAll),
        2 => (0u8..3).prop_map(|q| COp::ClearQuery { q }),
    ];
    let qt = prop::sample::select(vec![TypeK::A, TypeK::AAAA, TypeK::TXT, TypeK::MX]);
    (qt.clone(), qt, vec((step(), cop), 1..=30), any::<bool>()).prop_map(|(qa, qb, ops, preserve)| CHist { qa, qb, ops, preserve })
}

mod mock {
    use std::sync::{Arc, Mutex};

    use futures_util::future::{ready, Ready};
    use futures_util::stream::{once, Once};
    use hickory_net::{DnsHandle, NetError};
    use hickory_proto::op::{DnsRequest, DnsResponse};

    /// scripted upstream: hands out the response armed by the interpreter and counts the calls
    #[derive(Clone, Default)]
    pub struct Scripted {
        pub next: Arc<Mutex<Option<Result<DnsResponse, NetError>>>>,
        pub calls: Arc<Mutex<u64>>,
    }

    impl DnsHandle for Scripted {
        type Response = Once<Ready<Result<DnsResponse, NetError>>>;
        type Runtime = crate::sim::SimRt;

        fn send(&self, _request: DnsRequest) -> Self::Response {
            *self.calls.lock().unwrap() += 1;
            let r = self
                .next
                .lock()
                .unwrap()
                .take()
                .unwrap_or(Err(NetError::Message("script exhausted")));
            once(ready(r))
        }
    }
}

struct CEntry {
    t_fetch: u64,
    op_index: usize,
    /// stored (clamped) TTL per record in section order, or the negative TTL
    positive: Option<Message>,
    stored: Vec<u64>,
    life: Option<Lifetime>,
    cleared: bool,
    /// every record that counts for L sits in the answer section, so that `Lookup::valid_until`
    /// (derived from the answer records) has to respect L as well
    answers_only: bool,
}

fn client_body(h: &CHist, rec: &mut Rec) -> CaseResult {
    use hickory_proto::op::DnsRequestOptions;
    use hickory_resolver::caching_client::CachingClient;

    let cfg = Config::default();
    let _clock = VirtualClock::start(1_700_000_000);
    let up = mock::Scripted::default();
    let client = CachingClient::new(64, up.clone(), h.preserve);
    rec.class(if h.preserve { "client/preserve-intermediates" } else { "client/filter-intermediates" });
    let qtypes = [h.qa, h.qb, h.qa];
    let queries = [
        Query::new(name("a.example."), h.qa.rt()),
        Query::new(name("a.example."), h.qb.rt()),
        Query::new(name("b.example."), h.qa.rt()),
    ];
    let slot_of = |q: u8| -> usize {
        let q = (q % 3) as usize;
        if q == 1 && h.qa == h.qb {
            0
        } else {
            q
        }
    };
    let mut model: [Option<CEntry>; 3] = [None, None, None];
    let mut now_ns = 0u64;
    let (mut hits, mut live_lookups, mut live_hits, mut hit_after_clear, mut clears) = (0u64, 0u64, 0u64, 0u64, 0u64);
    let (mut nt_clear_live, mut nt_near) = (false, false);

    for (i, (st, op)) in h.ops.iter().enumerate() {
        let before = now_ns;
        now_ns = match *st {
            Step::Same => now_ns,
            Step::Ms(m) => now_ns + m as u64 * 1_000_000,
            Step::Secs(s) => now_ns + s as u64 * NS_PER_S,
            Step::Near { q, hi, off } => {
                let target = model[slot_of(q)].as_ref().and_then(|e| {
                    let l = e.life?;
                    let l = if hi { l.hi } else { l.lo };
                    (e.t_fetch + l * NS_PER_S).checked_add_signed(off_ns(off))
                });
                match target {
                    Some(t) if t >= now_ns => t,
                    _ => now_ns,
                }
            }
        };
        // a process cannot observe the same nanosecond before and after a clear; moka's
        // invalidate_all is defined by timestamps, so keep the clock strictly increasing around it
        if now_ns == before && i > 0 {
            now_ns += 1;
        }
        clock::set_virtual_nanos(now_ns);

        match op {
            COp::ClearAll => {
                clears += 1;
                for e in model.iter_mut().flatten() {
                    if e.life.is_some_and(|l| now_ns - e.t_fetch < l.lo * NS_PER_S) && !e.cleared {
                        nt_clear_live = true;
                    }
                    e.cleared = true;
                }
                client.clear_cache();
            }
            COp::ClearQuery { q } => {
                clears += 1;
                let s = slot_of(*q);
                if let Some(e) = model[s].as_mut() {
                    if e.life.is_some_and(|l| now_ns - e.t_fetch < l.lo * NS_PER_S) && !e.cleared {
                        nt_clear_live = true;
                    }
                    e.cleared = true;
                }
                client.clear_cache_query(&queries[s]);
            }
            COp::Lookup { q, upstream } => {
                let s = slot_of(*q);
                let (query, qtype) = (&queries[s], qtypes[s]);
                // arm the upstream
                let armed: Result<DnsResponse, NetError> = match upstream {
                    Upstream::Answer { ttls, ns, glue } => {
                        let mut m = Message::response(i as u16, OpCode::Query);
                        m.add_query(query.clone());
                        for (k, t) in ttls.iter().enumerate() {
                            m.add_answer(Record::from_rdata(query.name.clone(), *t, rdata(qtype, (i * 4 + k) as u8)));
                        }
                        if let Some(t) = ns {
                            m.add_authority(Record::from_rdata(name("example."), *t, rdata(TypeK::NS, 1)));
                        }
                        if let Some(t) = glue {
                            m.add_additional(Record::from_rdata(name("ns1.example."), *t, rdata(TypeK::A, 7)));
                        }
                        Ok(DnsResponse::from_message(m).map_err(|e| harness(format!("{e}")))?)
                    }
                    Upstream::Alias { cnames, ttls } => {
                        let mut m = Message::response(i as u16, OpCode::Query);
                        m.add_query(query.clone());
                        let mut owner = query.name.clone();
                        for (k, t) in cnames.iter().enumerate() {
                            let target = name(&format!("alias{k}.target.example."));
                            m.add_answer(Record::from_rdata(owner, *t, RData::CNAME(CNAME(target.clone()))));
                            owner = target;
                        }
                        for (k, t) in ttls.iter().enumerate() {
                            m.add_answer(Record::from_rdata(owner.clone(), *t, rdata(qtype, (i * 4 + k) as u8)));
                        }
                        Ok(DnsResponse::from_message(m).map_err(|e| harness(format!("{e}")))?)
                    }
                    Upstream::Negative { nx, soa } => {
                        let mut m = Message::response(i as u16, OpCode::Query);
                        m.metadata.response_code = if *nx { ResponseCode::NXDomain } else { ResponseCode::NoError };
                        m.add_query(query.clone());
                        if let Some((t, minimum)) = soa {
                            m.add_authority(Record::from_rdata(name("example."), *t, RData::SOA(soa_rdata(i as u32, *minimum))));
                        }
                        Ok(DnsResponse::from_message(m).map_err(|e| harness(format!("{e}")))?)
                    }
                    Upstream::ServFail => {
                        let mut m = Message::response(i as u16, OpCode::Query);
                        m.metadata.response_code = ResponseCode::ServFail;
                        m.add_query(query.clone());
                        Ok(DnsResponse::from_message(m).map_err(|e| harness(format!("{e}")))?)
                    }
                    Upstream::Timeout => Err(NetError::Timeout),
                };
                *up.next.lock().unwrap() = Some(armed);
                let calls_before = *up.calls.lock().unwrap();
                let result = futures_executor::block_on(client.lookup(query.clone(), DnsRequestOptions::default()));
                let asked = *up.calls.lock().unwrap() > calls_before;
                *up.next.lock().unwrap() = None;
                // `Lookup::valid_until` (what callers use to schedule a refresh) against the model,
                // judged below once the model entry for this lookup is known
                let validity_left_ns = result.as_ref().ok().map(|l| l.valid_until().saturating_duration_since(std::time::Instant::now()).as_nanos() as u64);

                let live = model[s]
                    .as_ref()
                    .is_some_and(|e| !e.cleared && e.life.is_some_and(|l| now_ns - e.t_fetch + 1_000_000 <= l.lo * NS_PER_S));
                if live {
                    live_lookups += 1;
                }
                if let Some(e) = model[s].as_ref() {
                    if let Some(l) = e.life {
                        if now_ns.abs_diff(e.t_fetch + l.hi * NS_PER_S) <= NS_PER_S {
                            nt_near = true;
                        }
                    }
                }
                if !asked {
                    // ---- served from the cache ---------------------------------------------
                    hits += 1;
                    if live {
                        live_hits += 1;
                    }
                    let Some(e) = model[s].as_ref() else {
                        vfail!("client-hit-without-cacheable-fetch", "op {i}: lookup(q{s}) was answered without asking upstream although nothing cacheable was fetched before");
                    };
                    if e.cleared {
                        // the statement makes no claim about clear; counted, not asserted
                        hit_after_clear += 1;
                    }
                    let elapsed = now_ns - e.t_fetch;
                    match (&result, &e.positive) {
                        (Ok(l), Some(stored)) => {
                            vensure!(
                                same_records(l.answers(), &stored.answers)
                                    && same_records(l.authorities(), &stored.authorities)
                                    && same_records(l.additionals(), &stored.additionals),
                                "client-hit-is-not-newest-fetch",
                                "op {i}: lookup(q{s}) served {:?}, newest cacheable fetch (op {}) was {:?}",
                                l.message(),
                                e.op_index,
                                stored
                            );
                            let got = pos_ttls(l.message());
                            for (k, (g, st)) in got.iter().zip(&e.stored).enumerate() {
                                let exp = cref::reported(*st, elapsed);
                                vensure!(
                                    *g as u64 == exp,
                                    "client-positive-ttl-not-clamped-minus-elapsed",
                                    "op {i}: lookup(q{s}) {:.3}s after fetch: record {k} reports TTL {g}, expected {st} - elapsed = {exp}",
                                    elapsed as f64 / 1e9
                                );
                            }
                        }
                        (Err(NetError::Dns(DnsError::NoRecordsFound(n))), None) => {
                            if let (Some(g), Some(st)) = (n.negative_ttl, e.stored.first()) {
                                let exp = cref::reported(*st, elapsed);
                                // unclamped and clamped coincide under the default configuration
                                // unless the negative TTL exceeds one day
                                vensure!(
                                    g as u64 == exp || *st >= cref::DAY,
                                    "client-negative-ttl-not-stored-minus-elapsed",
                                    "op {i}: lookup(q{s}) {:.3}s after fetch: negative TTL {g}, expected {st} - elapsed = {exp}",
                                    elapsed as f64 / 1e9
                                );
                            }
                        }
                        (Err(err), _) if !matches!(err, NetError::Dns(DnsError::NoRecordsFound(_))) => {
                            vfail!("client-transient-error-served-from-cache", "op {i}: lookup(q{s}) returned {err:?} without asking upstream");
                        }
                        _ => {
                            vfail!(
                                "client-hit-is-not-newest-fetch",
                                "op {i}: lookup(q{s}) served {:?} from the cache, newest cacheable fetch was op {}",
                                result.as_ref().map(|l| l.message().clone()),
                                e.op_index
                            );
                        }
                    }
                    if let Some(l) = e.life {
                        vensure!(
                            elapsed <= l.hi * NS_PER_S,
                            if e.positive.is_some() { "client-positive-served-past-lifetime" } else { "client-negative-served-past-lifetime" },
                            "op {i}: lookup(q{s}) served from the cache {:.9}s after the fetch (op {}), L = {}s",
                            elapsed as f64 / 1e9,
                            e.op_index,
                            l.hi
                        );
                    }
                } else {
                    // ---- fetched: update the model -------------------------------------------
                    match upstream {
                        Upstream::Answer { ttls, ns, glue } => {
                            let mut typed: Vec<(u16, u32)> = ttls.iter().map(|t| (qtype.code(), *t)).collect();
                            if let Some(t) = ns {
                                typed.push((2, *t));
                            }
                            if let Some(t) = glue {
                                typed.push((1, *t));
                            }
                            let stored: Vec<u64> = typed.iter().map(|(t, ttl)| cref::clamp_record_ttl(&cfg, *t, *ttl)).collect();
                            let life = cref::positive_lifetime(&cfg, qtype.code(), &typed);
                            let msg = match &result {
                                Ok(l) => l.message().clone(),
                                Err(e) => vfail!("client-positive-answer-became-error", "op {i}: lookup(q{s}) with a direct answer upstream returned {e:?}"),
                            };
                            // the freshly fetched lookup already carries the clamped TTLs
                            let got = pos_ttls(&msg);
                            vensure!(
                                got.len() == stored.len() && got.iter().zip(&stored).all(|(g, s)| *g as u64 == *s),
                                "client-fresh-ttl-not-clamped",
                                "op {i}: fresh lookup(q{s}) reports TTLs {got:?}, expected clamped {stored:?}"
                            );
                            model[s] = Some(CEntry {
                                t_fetch: now_ns,
                                op_index: i,
                                positive: Some(msg),
                                stored,
                                life,
                                cleared: false,
                                answers_only: !(glue.is_some() && qtype.code() == 1) && !(ns.is_some() && qtype.code() == 2),
                            });
                        }
                        Upstream::Alias { cnames, ttls } => {
                            rec.class("upstream/alias-chain-in-one-response");
                            // L: the smallest TTL among the CNAMEs and the records of the queried
                            // type. Which TTL each returned record carries (its own, or the chain's
                            // minimum) is left open; from here on they only count down.
                            let typed: Vec<(u16, u32)> = cnames.iter().map(|t| (5u16, *t)).chain(ttls.iter().map(|t| (qtype.code(), *t))).collect();
                            let life = cref::positive_lifetime(&cfg, qtype.code(), &typed);
                            let msg = match &result {
                                Ok(l) => l.message().clone(),
                                Err(e) => vfail!("client-alias-answer-became-error", "op {i}: lookup(q{s}) with CNAME chain and target records in one upstream response returned {e:?}"),
                            };
                            let got = pos_ttls(&msg);
                            let ceiling = typed.iter().map(|(t, ttl)| cref::clamp_record_ttl(&cfg, *t, *ttl)).max().unwrap_or(0);
                            vensure!(
                                got.iter().all(|g| *g as u64 <= ceiling),
                                "client-alias-ttl-above-every-upstream-ttl",
                                "op {i}: fresh lookup(q{s}) reports TTLs {got:?}, upstream {typed:?}"
                            );
                            model[s] = Some(CEntry {
                                t_fetch: now_ns,
                                op_index: i,
                                stored: got.iter().map(|g| *g as u64).collect(),
                                positive: Some(msg),
                                life,
                                cleared: false,
                                answers_only: true,
                            });
                        }
                        Upstream::Negative { soa, .. } => {
                            let nttl = soa.map(|(t, m)| cref::rfc2308_negative_ttl(t, m));
                            model[s] = Some(CEntry {
                                t_fetch: now_ns,
                                op_index: i,
                                positive: None,
                                stored: nttl.map(|n| vec![n as u64]).unwrap_or_default(),
                                life: cref::negative_lifetime(&cfg, qtype.code(), nttl),
                                cleared: false,
                                answers_only: false,
                            });
                        }
                        // transient: nothing cacheable, the previous entry (if any) stays what it was
                        Upstream::ServFail | Upstream::Timeout => {}
                    }
                }
                if let (Some(left), Some(e)) = (validity_left_ns, model[s].as_ref()) {
                    if let (Some(l), true) = (e.life, e.positive.is_some() && e.answers_only && !e.cleared) {
                        let age = now_ns - e.t_fetch;
                        // TTLs are whole seconds: a Lookup rebuilt from the cache dates its validity
                        // from the remaining TTL, which over-states the rest by less than a second
                        let bound = (l.hi * NS_PER_S).saturating_sub(age) + NS_PER_S - 1;
                        vensure!(
                            left <= bound,
                            "client-lookup-valid-until-beyond-lifetime",
                            "op {i}: lookup(q{s}) {:.3}s after the fetch reports valid_until {:.3}s ahead, L = {}s",
                            age as f64 / 1e9,
                            left as f64 / 1e9,
                            l.hi
                        );
                    }
                }
            }
        }
    }
    drop(client);
    rec.count("hits", hits);
    rec.count("live_lookups", live_lookups);
    rec.count("live_hits", live_hits);
    rec.count("clears", clears);
    rec.count("hit_after_clear(not-asserted)", hit_after_clear);
    if nt_clear_live {
        rec.class("clear-of-live-entry");
    }
    if nt_near {
        rec.class("lookup-within-1s-of-expiry");
    }
    if nt_clear_live || nt_near {
        rec.nontrivial();
        if rec.wants_note() {
            rec.note(format!("{h:?}"));
        }
    }
    Ok(())
}

pub fn check() -> Option<Check> {
    let histories = prop("histories", 200_000, 4_000_000, hist, body);
    let client_clear = prop("client_clear", 50_000, 1_000_000, chist, client_body);
    let recursor_expiry = crate::core::prop_hang(
        "recursor_expiry",
        30_000,
        600_000,
        std::time::Duration::from_secs(60),
        |_t| crate::checks::c19::expiry_case(),
        crate::checks::c19::expiry_body,
    );
    Some(Check {
        id: "C15",
        level: "exploration",
        rule: "histories of <=30 (thorough 40) insert/get operations over 3 queries (2 names x 2 types) with non-decreasing nanosecond times (steps 0, sub-second, 1-5 s, large jumps, and jumps to the model's expiry instant +-{0,1ns,0.5s,1s}); results: positive messages with 0-6 records of the queried type / CNAME / other types spread over answer, authority and additional with independent TTLs (0..11 mostly, 3600+-5, 86400+-5, >1 day, 2^31-1), NoRecordsFound built directly (with/without negative_ttl, SOA, authorities, NS+glue) or through DnsError::from_response (SOA ttl/minimum), transient errors (timeout, io, SERVFAIL, REFUSED, busy, no connections, message); TtlConfig built through its serde form (3 in 5), or from the default bounds plus one with_query_type_ttl_bounds call per type (1 in 5), or with every type first given other bounds and then overridden with the real ones (1 in 5), with default and 0-3 per-type tables, each bound unset / 0 / 1-9 / 30-3600 / >= 1 day, min<=max enforced, explicit min=max class. Non-trivial = distinct history AND (re-insert of a key whose entry is live, OR a get within 1 s of the model's expiry instant, OR a record whose own type's bounds clamp differently from the query type's bounds); client_clear: <=30 lookups/clears through CachingClient (preserve_intermediates on/off) over a scripted upstream answering with direct answers, alias answers (1-2 CNAMEs + target records in one response), negatives, SERVFAIL, timeouts recursor_expiry: the same clauses through the recursor (recursor/handle.rs shares the response cache): one query is resolved on an honest simulated internet (all zone data TTL 3600, SOA MINIMUM 300), virtual time advances by 0 s .. 3 h (clustered around 300 s and 3600 s) and the query is resolved again; whatever the second resolution returns without a single upstream datagram came from a cache and was stored no later than the end of the first resolution: reported TTLs must be <= 3600 minus the whole seconds in between, nothing may be returned after 3600 s, no negative answer after 300 s, and no TTL is ever above the zone's. Non-trivial = the first resolution asked upstream.",
        assumptions: vec![
            "virtual clock (interposed clock_gettime) equals the Instant passed to insert/get, as for the real callers which pass Instant::now()",
            "configurations with min > max (after defaults 0 s / 1 day) are outside the domain: the statement's clamp is undefined there (the implementation panics in clamp)",
            "None from get is always accepted (eviction); hit ratio on certainly-live entries is reported in coverage.counters (histories/live_hits over histories/live_gets)",
            "where the message has no record of the queried type and no CNAME, or a negative answer has no negative TTL, the statement defines no L: only TTL countdown is asserted",
            "L = the smallest stored TTL (each record clamped with the bounds of its own type, as in the statement's 'per-type clamped stored TTL') among the records of the queried type or CNAME, then clamped to the query type's bounds; the reading 'smallest upstream TTL' differs only when CNAME has bounds of its own and is counted as class L-readings-differ, not asserted",
            "TTL values inside a negative answer may be reported from the unclamped or the clamped stored value (statement silent)",
            "ResponseCache::clear is pub(crate); clear is not reachable on a cache with a custom TtlConfig from outside the crate",
        ],
        subs: vec![histories, client_clear, recursor_expiry],
    })
}
