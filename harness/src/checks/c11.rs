//! C11 — Every accepted request gets exactly one matching response from the right zone.
//!
//! Catalogs with nested / sibling / root zones (every zone carries apex, `www` and wildcard TXT
//! "zone=<origin>", so an answer names the zone that served it), optional chained
//! `[SkipHandler, InMemory]` pairs, allow/deny network sets, UDP/TCP — driven through the real
//! server front door `VerifFrontDoor::handle(bytes, src, protocol, BufDnsStreamHandle)`; what the
//! server sends is read from the receiver paired with the handle. Oracle: `refm::frontdoor_ref`.

use std::collections::BTreeSet;
use std::net::{IpAddr, SocketAddr};
use std::sync::Arc;

use futures_util::{FutureExt, StreamExt};
use hickory_net::xfer::Protocol;
use hickory_net::BufDnsStreamHandle;
use hickory_proto::rr::rdata::{NS, SOA, TXT};
use hickory_proto::rr::{LowerName, RData, Record, RecordType};
use hickory_server::server::{RequestInfo, VerifFrontDoor};
use hickory_server::store::in_memory::InMemoryZoneHandler;
use hickory_server::zone_handler::{AuthLookup, AxfrPolicy, Catalog, LookupControlFlow, LookupOptions, ZoneHandler, ZoneType};
use proptest::collection::vec;
use proptest::prelude::*;
use serde::{Deserialize, Serialize};

use crate::core::{catch, panic_fail, prop, CaseResult, Check, Fail, Rec, Tier};
use crate::gen::zones::hname;
use crate::refm::canon;
use crate::refm::frontdoor_ref::{self as fdr, Access, BodyState, Net};
use crate::refm::wire_lite::{self as wl, Name};
use crate::sim::SimRt;

// ---------------------------------------------------------------------------------------------
// configuration universe

const ORIGINS: [&str; 8] = [".", "test.", "a.test.", "b.test.", "x.a.test.", "y.x.a.test.", "other.", "atest."];

const NETS_V4: [&str; 6] = ["10.0.0.0/8", "10.1.0.0/16", "10.1.2.0/24", "10.1.2.3/32", "192.168.0.0/16", "0.0.0.0/0"];
const NETS_V6: [&str; 5] = ["fd00::/8", "fd00:1::/32", "fd00:1:2::/48", "fd00:1:2::1/128", "::/0"];
const SOURCES: [&str; 13] = [
    "10.1.2.3",
    "10.1.2.4",
    "10.1.9.9",
    "10.9.9.9",
    "192.168.1.1",
    "198.51.100.7",
    "fd00:1:2::1",
    "fd00:1:2::2",
    "fd00:1:9::1",
    "fd00:9::1",
    "2001:db8::1",
    "::ffff:10.1.2.3",
    "::ffff:198.51.100.7",
];

#[derive(Clone, Debug, Serialize, Deserialize)]
pub struct ZoneCfg {
    pub origin: String,
    /// served by the chain [SkipHandler, InMemory] instead of [InMemory]
    pub chained: bool,
}

#[derive(Clone, Debug, Serialize, Deserialize)]
pub struct EdnsSpec {
    pub version: u8,
    pub do_bit: bool,
    pub payload: u16,
}

#[derive(Clone, Debug, Serialize, Deserialize)]
pub enum Req {
    Query {
        id: u16,
        name: String,
        qtype: u16,
        qclass: u16,
        rd: bool,
        edns: Option<EdnsSpec>,
        upper: u16,
    },
    /// TXT query with further records in the additional section: `extra_a` an ordinary A record before
    /// the OPT (fine), `opts` OPT records (RFC 6891 §6.1.1: more than one MUST be answered FORMERR)
    QueryExtra { id: u16, name: String, extra_a: bool, opts: u8 },
    /// an otherwise ordinary EDNS TXT query (or UPDATE, `update`) whose OPT record is counted in the
    /// answer (0) or authority (1) section instead of the additional section
    MisplacedOpt { id: u16, name: String, section: u8, update: bool },
    /// an otherwise ordinary request with one class-IN A or AAAA record whose RDLENGTH is not the
    /// size of an address (0, 1, 3, 5, 15, 17) in the answer (0), authority (1) or additional (2)
    /// section; `opcode` 0 QUERY, 2 STATUS, 4 NOTIFY
    BadAddrRdlen { id: u16, name: String, section: u8, aaaa: bool, rdlen: u8, opcode: u8 },
    /// STATUS / NOTIFY / IQUERY / DSO / unassigned opcodes with an ordinary question
    OtherOp {
        id: u16,
        opcode: u8,
        name: String,
        qtype: u16,
        #[serde(default)]
        edns: Option<EdnsSpec>,
    },
    /// RFC 2136 UPDATE: zone section + `adds` A records in the update section
    Update {
        id: u16,
        zone: String,
        adds: u8,
        #[serde(default)]
        edns: Option<EdnsSpec>,
    },
    /// the inner request with QR set
    AsResponse(Box<Req>),
    Short(#[serde(with = "crate::core::hexser")] Vec<u8>),
    /// QDCOUNT 0 or 2 (two well-formed questions follow for 2)
    QdCount { id: u16, n: u8, name: String },
    /// header with the given opcode and counts, followed by arbitrary octets
    Garbage {
        id: u16,
        opcode: u8,
        counts: [u16; 4],
        #[serde(with = "crate::core::hexser")]
        body: Vec<u8>,
    },
    /// octet-level edits of a valid request: (kind, position, value)
    Mutated { base: Box<Req>, muts: Vec<(u8, u16, u8)> },
    Random(#[serde(with = "crate::core::hexser")] Vec<u8>),
}

#[derive(Clone, Debug, Serialize, Deserialize)]
pub struct ReqCase {
    pub src: String,
    pub port: u16,
    pub tcp: bool,
    pub req: Req,
}

#[derive(Clone, Debug, Serialize, Deserialize)]
pub struct Case {
    pub zones: Vec<ZoneCfg>,
    pub deny: Vec<String>,
    pub allow: Vec<String>,
    pub reqs: Vec<ReqCase>,
}

// ---------------------------------------------------------------------------------------------
// generators

fn qname_pool() -> Vec<String> {
    let mut v = Vec::new();
    for o in ORIGINS {
        let o = if o == "." { "" } else { o };
        v.push(if o.is_empty() { ".".to_string() } else { o.to_string() });
        v.push(format!("www.{o}"));
        v.push(format!("q.{o}"));
        v.push(format!("q.r.{o}"));
        // a leading asterisk label is an ordinary label for zone selection (RFC 4592 2.1.3)
        v.push(format!("*.{o}"));
        v.push(format!("*.q.{o}"));
    }
    v.push("*.nozone.invalid.".into());
    v.push("*.xtest.".into());
    v.push("nozone.invalid.".into());
    v.push("xtest.".into());
    v.push("est.".into());
    v.push("ns.test.".into());
    v.push("deep.www.a.test.".into());
    v
}

/// EDNS for the non-QUERY opcodes: mostly absent, sometimes version 0, sometimes a version above 0
fn other_edns() -> impl Strategy<Value = Option<EdnsSpec>> {
    prop_oneof![
        5 => Just(None),
        2 => any::<bool>().prop_map(|do_bit| Some(EdnsSpec { version: 0, do_bit, payload: 1232 })),
        3 => (prop_oneof![Just(1u8), Just(2), Just(255)], any::<bool>()).prop_map(|(version, do_bit)| Some(EdnsSpec { version, do_bit, payload: 1232 })),
    ]
}

fn query() -> impl Strategy<Value = Req> {
    let edns = prop_oneof![
        4 => Just(None),
        4 => (any::<bool>(), prop_oneof![Just(512u16), Just(1232), Just(4096), Just(0)]).prop_map(|(do_bit, payload)| Some(EdnsSpec { version: 0, do_bit, payload })),
        3 => (prop_oneof![Just(1u8), Just(2), Just(255)], any::<bool>()).prop_map(|(version, do_bit)| Some(EdnsSpec { version, do_bit, payload: 1232 })),
    ];
    let qtype = prop_oneof![
        12 => Just(wl::T_TXT),
        2 => Just(wl::T_A),
        1 => Just(wl::T_SOA),
        1 => Just(wl::T_NS),
        1 => Just(wl::T_ANY),
        1 => Just(wl::T_AXFR),
    ];
    let qclass = prop_oneof![12 => Just(1u16), 1 => Just(3u16), 1 => Just(255u16)];
    (
        any::<u16>(),
        prop::sample::select(qname_pool()),
        qtype,
        qclass,
        any::<bool>(),
        edns,
        prop_oneof![3 => Just(0u16), 1 => any::<u16>()],
    )
        .prop_map(|(id, name, qtype, qclass, rd, edns, upper)| Req::Query {
            id,
            name,
            qtype,
            qclass,
            rd,
            edns,
            upper,
        })
}

fn valid_req() -> impl Strategy<Value = Req> {
    prop_oneof![
        12 => query(),
        2 => (any::<u16>(), prop::sample::select(qname_pool()), any::<bool>(), 0u8..3).prop_map(|(id, name, extra_a, opts)| Req::QueryExtra { id, name, extra_a, opts }),
        3 => (any::<u16>(), prop_oneof![Just(1u8), Just(2), Just(3), Just(4), Just(6), 7u8..16], prop::sample::select(qname_pool()), prop_oneof![Just(wl::T_TXT), Just(wl::T_SOA)], other_edns())
            .prop_map(|(id, opcode, name, qtype, edns)| Req::OtherOp { id, opcode, name, qtype, edns }),
        2 => (any::<u16>(), prop::sample::select(ORIGINS.to_vec()), 0u8..3, other_edns()).prop_map(|(id, zone, adds, edns)| Req::Update { id, zone: zone.to_string(), adds, edns }),
    ]
}

fn req() -> impl Strategy<Value = Req> {
    prop_oneof![
        16 => valid_req(),
        2 => valid_req().prop_map(|r| Req::AsResponse(Box::new(r))),
        1 => vec(any::<u8>(), 0..12).prop_map(Req::Short),
        2 => (any::<u16>(), prop_oneof![Just(0u8), Just(2u8)], prop::sample::select(qname_pool())).prop_map(|(id, n, name)| Req::QdCount { id, n, name }),
        1 => (any::<u16>(), prop::sample::select(qname_pool()), 0u8..2, prop::bool::weighted(0.2)).prop_map(|(id, name, section, update)| Req::MisplacedOpt { id, name, section, update }),
        2 => (any::<u16>(), prop::sample::select(qname_pool()), 0u8..3, any::<bool>(), prop::sample::select(vec![0u8, 0, 0, 1, 3, 5, 15, 17]), prop_oneof![6 => Just(0u8), 1 => Just(2u8), 1 => Just(4u8)])
            .prop_map(|(id, name, section, aaaa, rdlen, opcode)| Req::BadAddrRdlen { id, name, section, aaaa, rdlen, opcode }),
        3 => (
            any::<u16>(),
            prop_oneof![4 => Just(0u8), 1 => Just(5u8), 1 => 0u8..16],
            (prop_oneof![3 => Just(1u16), 1 => 0u16..4, 1 => any::<u16>()], 0u16..3, 0u16..3, 0u16..3).prop_map(|(a, b, c, d)| [a, b, c, d]),
            prop_oneof![
                vec(any::<u8>(), 0..40),
                // label-shaped garbage: plausible names, reserved label types, pointers
                vec(prop_oneof![Just(1u8), Just(b'a'), Just(0), Just(0xc0), Just(0x0c), Just(0x40), Just(0x80), Just(63), any::<u8>()], 0..40),
            ]
        )
            .prop_map(|(id, opcode, counts, body)| Req::Garbage { id, opcode, counts, body }),
        6 => (valid_req(), vec((0u8..6, any::<u16>(), any::<u8>()), 1..4)).prop_map(|(base, muts)| Req::Mutated { base: Box::new(base), muts }),
        2 => vec(any::<u8>(), 12..80).prop_map(Req::Random),
    ]
}

fn case_strategy(_tier: Tier) -> impl Strategy<Value = Case> {
    let zones = prop::sample::subsequence(ORIGINS.to_vec(), 1..=5).prop_flat_map(|os| {
        let n = os.len();
        (Just(os), vec(prop::bool::weighted(0.25), n)).prop_map(|(os, ch)| {
            os.into_iter()
                .zip(ch)
                .map(|(o, chained)| ZoneCfg {
                    origin: o.to_string(),
                    chained,
                })
                .collect::<Vec<_>>()
        })
    });
    let nets = || {
        prop_oneof![
            5 => Just(Vec::<String>::new()),
            3 => prop::sample::subsequence([&NETS_V4[..], &NETS_V6[..]].concat(), 1..=4).prop_map(|v| v.into_iter().map(String::from).collect()),
        ]
    };
    let rc = (prop::sample::select(SOURCES.to_vec()), 1u16..=65535, any::<bool>(), req()).prop_map(|(src, port, tcp, req)| ReqCase {
        src: src.to_string(),
        port,
        tcp,
        req,
    });
    (zones, nets(), nets(), vec(rc, 1..=6)).prop_map(|(zones, deny, allow, reqs)| Case { zones, deny, allow, reqs })
}

// ---------------------------------------------------------------------------------------------
// rendering requests to octets

fn upper_name(name: &str, mask: u16) -> Name {
    let mut i = 0u32;
    wl::parse_name_str(name)
        .into_iter()
        .map(|l| {
            l.into_iter()
                .map(|b| {
                    if b.is_ascii_lowercase() {
                        let up = (mask >> (i % 16)) & 1 == 1;
                        i += 1;
                        if up {
                            return b.to_ascii_uppercase();
                        }
                    }
                    b
                })
                .collect()
        })
        .collect()
}

/// (octets, pristine): pristine = produced by a constructor every implementation must accept
fn render(r: &Req) -> (Vec<u8>, bool) {
    match r {
        Req::Query {
            id,
            name,
            qtype,
            qclass,
            rd,
            edns,
            upper,
        } => {
            let mut v = wl::header_bytes(*id, false, 0, u8::from(*rd), 0, [1, 0, 0, u16::from(edns.is_some())]);
            wl::put_question(&mut v, &upper_name(name, *upper), *qtype, *qclass);
            if let Some(e) = edns {
                wl::put_rr(&mut v, &wl::OutRr::opt(e.payload, 0, e.version, e.do_bit, vec![]));
            }
            (v, true)
        }
        Req::QueryExtra { id, name, extra_a, opts } => {
            let mut v = wl::header_bytes(*id, false, 0, 0, 0, [1, 0, 0, u16::from(*extra_a) + *opts as u16]);
            wl::put_question(&mut v, &wl::parse_name_str(name), wl::T_TXT, 1);
            if *extra_a {
                wl::put_rr(
                    &mut v,
                    &wl::OutRr {
                        owner: wl::parse_name_str("extra.invalid."),
                        rtype: wl::T_A,
                        class: 1,
                        ttl: 60,
                        rdata: vec![192, 0, 2, 9],
                    },
                );
            }
            for _ in 0..*opts {
                wl::put_rr(&mut v, &wl::OutRr::opt(1232, 0, 0, false, vec![]));
            }
            // with two OPTs the oracle finds the framing-level defect itself; the rest is valid
            (v, true)
        }
        Req::MisplacedOpt { id, name, section, update } => {
            let counts = if *section % 2 == 0 { [1, 1, 0, 0] } else { [1, 0, 1, 0] };
            let mut v = wl::header_bytes(*id, false, if *update { 5 } else { 0 }, 0, 0, counts);
            wl::put_question(&mut v, &wl::parse_name_str(name), if *update { wl::T_SOA } else { wl::T_TXT }, 1);
            wl::put_rr(&mut v, &wl::OutRr::opt(1232, 0, 0, false, vec![]));
            // the oracle finds the defect itself (an OPT outside the additional section)
            (v, true)
        }
        Req::BadAddrRdlen { id, name, section, aaaa, rdlen, opcode } => {
            let mut counts = [1u16, 0, 0, 0];
            counts[1 + (*section as usize % 3)] = 1;
            let mut v = wl::header_bytes(*id, false, *opcode, 0, 0, counts);
            let qn = wl::parse_name_str(name);
            wl::put_question(&mut v, &qn, wl::T_TXT, 1);
            let rdlen = if (*aaaa && *rdlen == 16) || (!*aaaa && *rdlen == 4) { 0 } else { *rdlen };
            wl::put_rr(
                &mut v,
                &wl::OutRr {
                    owner: qn,
                    rtype: if *aaaa { wl::T_AAAA } else { wl::T_A },
                    class: 1,
                    ttl: 60,
                    rdata: vec![7; rdlen as usize],
                },
            );
            // the oracle finds the defect itself (an address record that is not an address)
            (v, true)
        }
        Req::OtherOp { id, opcode, name, qtype, edns } => {
            let mut v = wl::header_bytes(*id, false, *opcode, 0, 0, [1, 0, 0, edns.is_some() as u16]);
            wl::put_question(&mut v, &wl::parse_name_str(name), *qtype, 1);
            if let Some(e) = edns {
                wl::put_rr(&mut v, &wl::OutRr::opt(e.payload, 0, e.version, e.do_bit, vec![]));
            }
            (v, true)
        }
        Req::Update { id, zone, adds, edns } => {
            // RFC 2136 §2: ZOCOUNT=1 (zone, SOA, IN), PRCOUNT=0, UPCOUNT=adds, ADCOUNT=0 (+1 for an OPT)
            let mut v = wl::header_bytes(*id, false, 5, 0, 0, [1, 0, *adds as u16, edns.is_some() as u16]);
            let z = wl::parse_name_str(zone);
            wl::put_question(&mut v, &z, wl::T_SOA, 1);
            for i in 0..*adds {
                let mut owner = vec![format!("h{i}").into_bytes()];
                owner.extend(z.iter().cloned());
                wl::put_rr(
                    &mut v,
                    &wl::OutRr {
                        owner,
                        rtype: wl::T_A,
                        class: 1,
                        ttl: 300,
                        rdata: vec![192, 0, 2, i],
                    },
                );
            }
            if let Some(e) = edns {
                wl::put_rr(&mut v, &wl::OutRr::opt(e.payload, 0, e.version, e.do_bit, vec![]));
            }
            (v, true)
        }
        Req::AsResponse(inner) => {
            let (mut v, p) = render(inner);
            if v.len() > 2 {
                v[2] |= 0x80;
            }
            (v, p)
        }
        Req::Short(b) => (b.clone(), false),
        Req::QdCount { id, n, name } => {
            let mut v = wl::header_bytes(*id, false, 0, 0, 0, [*n as u16, 0, 0, 0]);
            for _ in 0..*n {
                wl::put_question(&mut v, &wl::parse_name_str(name), wl::T_TXT, 1);
            }
            (v, false)
        }
        Req::Garbage { id, opcode, counts, body } => {
            let mut v = wl::header_bytes(*id, false, *opcode, 0, 0, *counts);
            v.extend_from_slice(body);
            (v, false)
        }
        Req::Mutated { base, muts } => {
            let (mut v, _) = render(base);
            for (kind, pos, val) in muts {
                if v.is_empty() {
                    break;
                }
                let p = *pos as usize % v.len();
                match kind {
                    0 => v[p] ^= 1 << (val % 8),
                    1 => v[p] = *val,
                    2 => v.truncate(p.max(1)),
                    3 => v.extend(std::iter::repeat(*val).take(1 + (*pos as usize % 7))),
                    4 => {
                        // edit one of the four count fields
                        let f = 4 + 2 * (*pos as usize % 4);
                        if v.len() >= 12 {
                            v[f] = 0;
                            v[f + 1] = val % 4;
                        }
                    }
                    _ => {
                        // replace a label length / insert a pointer-looking octet pair after the header
                        if v.len() > 13 {
                            let q = 12 + (*pos as usize % (v.len() - 13));
                            v[q] = 0xc0 | (val & 0x3f);
                        }
                    }
                }
            }
            (v, false)
        }
        Req::Random(b) => (b.clone(), false),
    }
}

fn kind_label(r: &Req) -> &'static str {
    match r {
        Req::Query { edns: Some(e), .. } if e.version > 0 => "req/query-edns-version>0",
        Req::Query { edns: Some(_), .. } => "req/query-edns0",
        Req::Query { .. } => "req/query",
        Req::QueryExtra { opts: 2, .. } => "req/query-two-opt",
        Req::QueryExtra { .. } => "req/query-extra-additional",
        Req::MisplacedOpt { .. } => "req/opt-outside-additional-section",
        Req::BadAddrRdlen { rdlen: 0, section: 2, opcode: 0, .. } => "req/query-with-empty-address-record-in-additional",
        Req::BadAddrRdlen { .. } => "req/address-record-with-wrong-rdlength",
        Req::OtherOp { edns: Some(e), .. } if e.version > 0 => "req/other-opcode-edns-version>0",
        Req::OtherOp { opcode: 2, .. } => "req/status",
        Req::OtherOp { opcode: 4, .. } => "req/notify",
        Req::OtherOp { .. } => "req/unknown-opcode",
        Req::Update { edns: Some(e), .. } if e.version > 0 => "req/update-edns-version>0",
        Req::Update { .. } => "req/update",
        Req::AsResponse(_) => "req/qr=1",
        Req::Short(_) => "req/shorter-than-header",
        Req::QdCount { n: 0, .. } => "req/qdcount-0",
        Req::QdCount { .. } => "req/qdcount-2",
        Req::Garbage { .. } => "req/garbage-body",
        Req::Mutated { .. } => "req/mutated-valid",
        Req::Random(_) => "req/random",
    }
}

// ---------------------------------------------------------------------------------------------
// the system under test

/// first handler of a chain: declines every lookup (`LookupControlFlow::Skip`)
struct SkipHandler {
    origin: LowerName,
}

#[async_trait::async_trait]
impl ZoneHandler for SkipHandler {
    fn zone_type(&self) -> ZoneType {
        ZoneType::Primary
    }
    fn axfr_policy(&self) -> AxfrPolicy {
        AxfrPolicy::Deny
    }
    fn origin(&self) -> &LowerName {
        &self.origin
    }
    async fn lookup(
        &self,
        _name: &LowerName,
        _rtype: RecordType,
        _request_info: Option<&RequestInfo<'_>>,
        _lookup_options: LookupOptions,
    ) -> LookupControlFlow<AuthLookup> {
        LookupControlFlow::Skip
    }
    async fn nsec_records(&self, _name: &LowerName, _lookup_options: LookupOptions) -> LookupControlFlow<AuthLookup> {
        LookupControlFlow::Skip
    }
    async fn nsec3_records(
        &self,
        _info: hickory_server::zone_handler::Nsec3QueryInfo<'_>,
        _lookup_options: LookupOptions,
    ) -> LookupControlFlow<AuthLookup> {
        LookupControlFlow::Skip
    }
    fn nx_proof_kind(&self) -> Option<&hickory_server::dnssec::NxProofKind> {
        None
    }
    fn metrics_label(&self) -> &'static str {
        "skip"
    }
}

fn sub(label: &str, origin: &str) -> String {
    if origin == "." {
        format!("{label}.")
    } else {
        format!("{label}.{origin}")
    }
}

fn build_zone(origin: &str) -> Result<InMemoryZoneHandler<SimRt>, Fail> {
    let o = hname(origin);
    let mut h = InMemoryZoneHandler::<SimRt>::empty(o.clone(), ZoneType::Primary, AxfrPolicy::Deny, None);
    let marker = || RData::TXT(TXT::new(vec![format!("zone={origin}")]));
    let recs = vec![
        Record::from_rdata(
            o.clone(),
            300,
            RData::SOA(SOA::new(hname(&sub("ns", origin)), hname(&sub("hostmaster", origin)), 1, 3600, 600, 86400, 60)),
        ),
        Record::from_rdata(o.clone(), 300, RData::NS(NS(hname(&sub("ns", origin))))),
        Record::from_rdata(o.clone(), 300, marker()),
        Record::from_rdata(hname(&sub("*", origin)), 300, marker()),
        Record::from_rdata(hname(&sub("www", origin)), 300, marker()),
    ];
    for r in recs {
        let shown = format!("{r}");
        if !h.upsert_mut(r, 1) {
            return Err(Fail::new("harness", format!("upsert refused {shown}")));
        }
    }
    Ok(h)
}

/// names whose TXT answer this check can predict: the apex, `www`, and everything whose closest
/// encloser is the apex (answered by `*.<origin>`); names at/below `www`, `ns`, `*` and names with
/// an asterisk label are C10's business
fn predictable(name: &[Vec<u8>], zone: &[Vec<u8>]) -> bool {
    if name.iter().any(|l| l == b"*") {
        return false;
    }
    if name.len() == zone.len() {
        return true;
    }
    let below = &name[name.len() - zone.len() - 1];
    if name.len() == zone.len() + 1 && below == b"www" {
        return true;
    }
    !(below == b"www" || below == b"ns")
}

fn build_catalog(zones: &[ZoneCfg]) -> Result<Catalog, Fail> {
    let mut c = Catalog::new();
    for z in zones {
        let h = build_zone(&z.origin)?;
        let origin = LowerName::from(hname(&z.origin));
        let handlers: Vec<Arc<dyn ZoneHandler>> = if z.chained {
            vec![Arc::new(SkipHandler { origin: origin.clone() }), Arc::new(h)]
        } else {
            vec![Arc::new(h)]
        };
        c.upsert(origin, handlers);
    }
    Ok(c)
}

struct Sent {
    msgs: Vec<Vec<u8>>,
}

fn drive(fd: &VerifFrontDoor<Catalog>, bytes: Vec<u8>, src: SocketAddr, tcp: bool) -> Result<Sent, Fail> {
    let proto = if tcp { Protocol::Tcp } else { Protocol::Udp };
    let (handle, mut rx) = BufDnsStreamHandle::new(src);
    // "No request content makes the handler panic"
    match catch(|| futures_executor::block_on(fd.handle(bytes, src, proto, handle))) {
        Ok(()) => {}
        Err(p) => return Err(panic_fail(&p)),
    }
    let mut msgs = Vec::new();
    while let Some(Some(m)) = rx.next().now_or_never() {
        msgs.push(m.into_parts().0);
    }
    Ok(Sent { msgs })
}

// ---------------------------------------------------------------------------------------------
// the oracle applied to one exchange

fn hex(b: &[u8]) -> String {
    crate::core::hexser::to_hex(b)
}

fn check_exchange(req: &[u8], exp: &fdr::Expected, sent: &Sent, what: &dyn Fn() -> String) -> Result<(), Fail> {
    if exp.responses == 0 {
        vensure!(
            sent.msgs.is_empty(),
            "response-to-a-response-or-runt",
            "{} message(s) sent for a request that must get nothing ({})\n{}",
            sent.msgs.len(),
            exp.gates.join(","),
            what()
        );
        return Ok(());
    }
    vensure!(!sent.msgs.is_empty(), "no-response", "nothing was sent\n{}", what());
    vensure!(sent.msgs.len() == 1, "multiple-responses", "{} messages were sent\n{}", sent.msgs.len(), what());
    let resp = &sent.msgs[0];
    let rh = match wl::parse_header(resp) {
        Ok(h) => h,
        Err(_) => vfail!("response-shorter-than-header", "response {}\n{}", hex(resp), what()),
    };
    vensure!(rh.qr, "response-qr-clear", "response {} has QR clear\n{}", hex(resp), what());
    vensure!(rh.id == exp.id, "response-id-mismatch", "request id {} response id {}\n{}", exp.id, rh.id, what());
    let m = match wl::parse(resp) {
        Ok(m) => m,
        // the server repeats the question octets verbatim; a pointer in them that referred into the
        // request's header reads differently in the response (flags differ). Such questions have no
        // agreed reading (see frontdoor_ref), so only count / ID / QR are judged for them.
        Err(_) if exp.question_pointer => return Ok(()),
        Err(e) => vfail!("response-unparseable", "{e:?}: {}\n{}", hex(resp), what()),
    };
    let rcode = m.rcode();
    if let Some((s, e)) = exp.question {
        let want = &req[s..e];
        let octets_equal = rh.qd == 1 && resp.get(12..12 + want.len()) == Some(want);
        let semantically_equal = || {
            let (Ok((rq, _)), Ok((qq, _))) = (wl::parse_questions(resp, &rh), wl::parse_questions(req, &wl::parse_header(req).unwrap())) else {
                return false;
            };
            rq.len() == 1 && qq.len() == 1 && canon::name_eq(&rq[0].name, &qq[0].name) && rq[0].qtype == qq[0].qtype && rq[0].qclass == qq[0].qclass
        };
        vensure!(
            octets_equal || semantically_equal(),
            "question-not-echoed",
            "rcode {} response {} does not repeat the request's question {}\n{}",
            wl::rcode_name(rcode),
            hex(resp),
            hex(want),
            what()
        );
    }
    if exp.not_refused {
        vensure!(
            rcode != wl::RC_REFUSED,
            "refused-although-a-configured-zone-encloses-the-name",
            "REFUSED for {} which lies in the configured zone {}\n{}",
            exp.qname.as_ref().map(|n| canon::show(n)).unwrap_or_default(),
            exp.zone.as_ref().map(|n| canon::show(n)).unwrap_or_default(),
            what()
        );
    }
    if let Some(set) = &exp.rcodes {
        vensure!(
            set.contains(&rcode),
            format!("rcode-outside-set:{}", if exp.gates.is_empty() { "normal".to_string() } else { exp.gates.join("+") }),
            "rcode {} ; the statement allows {:?} (conditions: {:?}, body {:?})\n{}",
            wl::rcode_name(rcode),
            set.iter().map(|r| wl::rcode_name(*r)).collect::<Vec<_>>(),
            exp.gates,
            exp.body,
            what()
        );
    }
    if let (Some(marker), true) = (&exp.marker, rcode == wl::RC_NOERROR) {
        let qname = exp.qname.clone().unwrap_or_default();
        let mut markers: BTreeSet<String> = BTreeSet::new();
        for rr in &m.answers {
            if rr.rtype == wl::T_TXT {
                vensure!(
                    canon::name_eq(&rr.owner, &qname),
                    "answer-owner-mismatch",
                    "TXT answer owned by {} for a query about {}\n{}",
                    canon::show(&rr.owner),
                    canon::show(&qname),
                    what()
                );
                for s in wl::txt_strings(resp, rr) {
                    markers.insert(String::from_utf8_lossy(&s).into_owned());
                }
            }
        }
        vensure!(
            markers.len() == 1 && markers.contains(marker),
            "answered-from-wrong-zone",
            "expected the answer of the longest-suffix zone ({marker}), got {:?}\n{}",
            markers,
            what()
        );
    }
    Ok(())
}

fn run_case(c: &Case, rec: &mut Rec) -> CaseResult {
    let parse_nets = |v: &[String]| -> Vec<Net> { v.iter().filter_map(|s| Net::parse(s)).collect() };
    let deny = parse_nets(&c.deny);
    let allow = parse_nets(&c.allow);
    let origins: Vec<Name> = c.zones.iter().map(|z| wl::parse_name_str(&z.origin)).collect();
    if origins.is_empty() {
        rec.discard("empty-catalog");
        return Ok(());
    }
    let catalog = build_catalog(&c.zones)?;
    let ipnets = |v: &[String]| -> Vec<ipnet::IpNet> { v.iter().filter_map(|s| s.parse().ok()).collect() };
    let fd = VerifFrontDoor::new(catalog, ipnets(&c.deny), ipnets(&c.allow));

    // catalog / ACL shape
    let nested = origins.iter().any(|a| origins.iter().any(|b| a.len() < b.len() && canon::is_suffix(a, b)));
    let root = origins.iter().any(|o| o.is_empty());
    rec.class(match (nested, origins.len()) {
        (_, 1) => "catalog/single-zone",
        (true, _) => "catalog/nested",
        (false, _) => "catalog/siblings-only",
    });
    if root {
        rec.class("catalog/root-zone");
    }
    if c.zones.iter().any(|z| z.chained) {
        rec.class("catalog/chained-handlers");
    }
    rec.class(match (c.deny.is_empty(), c.allow.is_empty()) {
        (true, true) => "acl/none",
        (false, true) => "acl/deny-only",
        (true, false) => "acl/allow-only",
        (false, false) => "acl/deny+allow",
    });

    // the probe: a fixed query from a source the documented rules allow
    let probe_name = sub("www", &c.zones[0].origin);
    let probe_src: Option<SocketAddr> = SOURCES
        .iter()
        .filter_map(|s| s.parse::<IpAddr>().ok())
        .find(|ip| fdr::access(&deny, &allow, *ip) == Access::Allowed)
        .map(|ip| SocketAddr::new(ip, 40000));
    let probe = |fd: &VerifFrontDoor<Catalog>, after: &str| -> Result<(), Fail> {
        let Some(src) = probe_src else { return Ok(()) };
        let bytes = wl::build_query(0xbeef, &wl::parse_name_str(&probe_name), wl::T_TXT, 1, None);
        let exp = fdr::expect(&bytes, true, Access::Allowed, &origins, &predictable);
        let sent = drive(fd, bytes.clone(), src, false)?;
        let what = || format!("probe {probe_name} TXT from {src} after {after}");
        check_exchange(&bytes, &exp, &sent, &what).map_err(|f| Fail::new(format!("probe-after-hostile:{}", f.sig), f.msg))
    };
    probe(&fd, "start")?;

    let mut nt = 0u64;
    for (i, rc) in c.reqs.iter().enumerate() {
        let ip: IpAddr = rc.src.parse().map_err(|_| Fail::new("harness", "bad source"))?;
        let src = SocketAddr::new(ip, rc.port);
        let (bytes, pristine) = render(&rc.req);
        let acc = fdr::access(&deny, &allow, ip);
        let exp = fdr::expect(&bytes, pristine, acc, &origins, &predictable);
        let sent = drive(&fd, bytes.clone(), src, rc.tcp)?;
        let what = || {
            format!(
                "request #{i} {} from {} over {} [{}]: {}\ncatalog {:?} deny {:?} allow {:?} (source {:?})",
                kind_label(&rc.req),
                src,
                if rc.tcp { "tcp" } else { "udp" },
                exp.gates.join(","),
                hex(&bytes),
                c.zones.iter().map(|z| z.origin.as_str()).collect::<Vec<_>>(),
                c.deny,
                c.allow,
                acc
            )
        };
        check_exchange(&bytes, &exp, &sent, &what)?;

        rec.class(kind_label(&rc.req));
        for g in &exp.gates {
            rec.class(format!("gate/{g}"));
        }
        rec.class(if rc.tcp { "proto/tcp" } else { "proto/udp" });
        rec.class(match (ip, fdr::canonical(ip).0) {
            (IpAddr::V4(_), _) => "src/v4",
            (IpAddr::V6(_), false) => "src/v4-mapped",
            (IpAddr::V6(_), true) => "src/v6",
        });
        let enclosing = exp.qname.as_ref().map(|q| origins.iter().filter(|o| canon::is_suffix(o, q)).count()).unwrap_or(0);
        if enclosing >= 2 {
            rec.class("nesting/several-enclosing-zones");
        }
        if exp.marker.is_some() && exp.gates.is_empty() {
            rec.class("outcome/marker-checked");
        }
        if exp.rcodes.is_none() {
            rec.class("outcome/rcode-unconstrained");
        }
        if !exp.gates.is_empty() || enclosing >= 2 {
            nt += 1;
        }
        rec.count("requests", 1);
        // "…or stop serving later requests": after anything that is not a pristine valid request
        let hostile = !pristine || exp.responses == 0 || exp.body != BodyState::WellFormed;
        if hostile {
            probe(&fd, &format!("request #{i} ({})", kind_label(&rc.req)))?;
            rec.count("probes-after-hostile", 1);
        }
    }
    probe(&fd, "the whole sequence")?;
    rec.count("nontrivial-requests", nt);
    if nt > 0 {
        rec.nontrivial();
        if rec.wants_note() {
            let r: Vec<String> = c
                .reqs
                .iter()
                .map(|rc| {
                    let (b, _) = render(&rc.req);
                    format!("{}@{}:{}", kind_label(&rc.req), rc.src, hex(&b))
                })
                .collect();
            rec.note(format!(
                "zones {:?} deny {:?} allow {:?} requests {}",
                c.zones.iter().map(|z| format!("{}{}", z.origin, if z.chained { "(chained)" } else { "" })).collect::<Vec<_>>(),
                c.deny,
                c.allow,
                r.join(" ; ")
            ));
        }
    }
    Ok(())
}

/// libFuzzer entry (target `fz_frontdoor`): four header octets choose the catalog (bit i of the
/// first octet = ORIGINS[i], a second mask says which of them are chained), one deny and one allow
/// prefix (or none), the source and the transport; the rest is the request, presented to the front
/// door as `Req::Random` and judged by the same oracle as every generated request (`run_case`,
/// including the probe that follows a hostile request).
pub fn fuzz_one(data: &[u8]) -> CaseResult {
    if data.len() < 4 {
        return Ok(());
    }
    let (zmask, chmask, acl, s) = (data[0], data[1], data[2], data[3]);
    let zones: Vec<ZoneCfg> = (0..8)
        .filter(|i| zmask & (1 << i) != 0)
        .map(|i| ZoneCfg { origin: ORIGINS[i].to_string(), chained: chmask & (1 << i) != 0 })
        .collect();
    if zones.is_empty() || zones.len() > 5 {
        return Ok(());
    }
    let nets: Vec<&str> = [&NETS_V4[..], &NETS_V6[..]].concat();
    let pick = |n: u8| -> Vec<String> {
        let n = n as usize;
        if n == 0 || n > nets.len() {
            Vec::new()
        } else {
            vec![nets[n - 1].to_string()]
        }
    };
    let c = Case {
        zones,
        deny: pick(acl & 0x0f),
        allow: pick(acl >> 4),
        reqs: vec![ReqCase {
            src: SOURCES[(s & 0x0f) as usize % SOURCES.len()].to_string(),
            port: 4000 + (s >> 5) as u16,
            tcp: s & 0x10 != 0,
            req: Req::Random(data[4..].to_vec()),
        }],
    };
    let mut rec = Rec::default();
    run_case(&c, &mut rec)
}

fn fuzz_seeds() -> Vec<Vec<u8>> {
    use proptest::strategy::{Strategy, ValueTree};
    let mut runner = proptest::test_runner::TestRunner::new_with_rng(
        proptest::test_runner::Config { failure_persistence: None, ..Default::default() },
        proptest::test_runner::TestRng::from_seed(proptest::test_runner::RngAlgorithm::ChaCha, &[11u8; 32]),
    );
    let strat = req();
    let mut out = Vec::new();
    let heads: [[u8; 4]; 6] = [[0x02, 0, 0, 0x05], [0x3e, 0x04, 0, 0x15], [0xc3, 0x01, 0x01, 0x00], [0x06, 0, 0x20, 0x03], [0x01, 0, 0x71, 0x06], [0x12, 0x10, 0xb0, 0x1b]];
    for i in 0..90 {
        if let Ok(t) = strat.new_tree(&mut runner) {
            let (bytes, _) = render(&t.current());
            if bytes.len() <= 2048 {
                let mut v = heads[i % heads.len()].to_vec();
                v.extend_from_slice(&bytes);
                out.push(v);
            }
        }
    }
    out
}

pub fn check() -> Option<Check> {
    let frontdoor = prop("frontdoor", 300_000, 3_000_000, case_strategy, run_case);
    let fuzz: Box<dyn crate::core::Sub> = Box::new(crate::core::FuzzSub {
        name: "fz_frontdoor",
        target: "fz_frontdoor",
        runs_thorough: 4_000_000,
        max_len: 4_096,
        oracle: fuzz_one,
        seeds: fuzz_seeds,
    });
    Some(Check {
        id: "C11",
        level: "exploration",
        rule: "catalog = 1–5 of the origins {., test., a.test., b.test., x.a.test., y.x.a.test., other., atest.} (each zone: SOA, NS, apex/www/wildcard TXT 'zone=<origin>'; 25 % served by a chained [SkipHandler, InMemory] pair) × deny/allow sets drawn from nested v4/v6 prefixes × 1–6 requests per front door from 13 v4 / v6 / v4-mapped sources over UDP or TCP: valid QUERY (TXT/A/SOA/NS/ANY/AXFR, EDNS absent / v0 / v1,2,255), STATUS/NOTIFY/IQUERY/DSO/unassigned opcodes, UPDATE, QR=1, < 12 octets, QDCOUNT 0/2, an OPT record counted in the answer or authority section, header+garbage, 1–3 octet-level mutations of a valid request, random octets; a fixed probe query follows every hostile request. A case is non-trivial iff at least one of its requests exercises a gate (short, QR, opcode, malformed / possibly malformed body, denied source, EDNS version, no enclosing zone) or has ≥ 2 enclosing zones; counters.nontrivial-requests counts them; distinct = hash of (catalog, ACL, requests).",
        assumptions: vec![
            "requests and responses are read with the harness's own RFC 1035 reader; 'does not parse' is decided at framing level (truncation, counts, label types, pointers, name length, QDCOUNT ≠ 1, > 1 OPT, OPT/TSIG outside the additional section); for mutated/garbage bodies whose framing is fine FORMERR and the normal outcome are both accepted",
            "RCODE is a member of the set of codes whose condition holds (the statement fixes no precedence); the zone's own answer is pinned only for TXT/IN marker queries (apex, www, names whose closest encloser is the apex); other QUERY/UPDATE answers are C10/C12's subject and only counted, ID, QR and question are checked",
            "question echo is required for QUERY and UPDATE whose question section parses; for other opcodes only ID/QR/RCODE",
            "sources have a non-zero port and are neither unspecified nor broadcast (the socket loops drop those before the front door)",
            "fz_frontdoor (thorough tier: libFuzzer campaign; quick tier: its seed corpus through the same oracle): one request of at most 4 KB per front door, catalog / one deny prefix / one allow prefix / source / transport chosen by four leading octets, judged by the oracle of the frontdoor sub-property",
            "access rules as documented in crates/server/src/access.rs; where the text does not say whether 'no entries' is per address family both outcomes are accepted (gate 'maybe-denied')",
        ],
        subs: vec![frontdoor, crate::checks::c17::idle_wrapper_sub("tcp_read_loop_idle_wrapper", 30_000, 1_000_000), fuzz],
    })
}
