//! C02 — Encode/decode round trip preserves every message.
//!
//! (A) model message -> hickory `Message` assembled through public constructors -> `to_vec` ->
//!     `from_vec` must deep-equal the assembled message, and the emitted packet, cut into RRs by
//!     the harness's own splitter, must carry exactly the model's owner/type/class/TTL/RDATA.
//! (B) model message -> the harness's own encoder (no / standard / everywhere compression) ->
//!     `from_vec` -> `to_vec` -> `from_vec`: deep-equal, and RDATA preserved relative to the model.
//! (C) the same with byte-level mutations: whatever the decoder accepts must re-encode to
//!     something that decodes to the same message, with RDATA of non-compressible types
//!     byte-identical.

use std::collections::BTreeSet;

use hickory_proto::op::Message;
use hickory_proto::rr::RecordData;
use proptest::prelude::*;
use serde::{Deserialize, Serialize};

use crate::checks::codec_util::{self as cu, Mutation};
use crate::core::{prop, CaseResult, Check, Fail, Rec};
use crate::gen::msg;
use crate::refm::wire_ref::{self as w, Compress, MMessage, MRData, MRecord};

fn short(e: &str) -> String {
    let mut s: String = e.chars().take(36).map(|c| if c.is_ascii_digit() { '#' } else { c }).collect();
    s = s.replace("##", "#").replace("##", "#");
    s
}

/// the model's records in hickory's emission order: answers, authorities, additionals (OPT and
/// TSIG are compared separately)
fn model_rrs(m: &MMessage) -> Vec<(u8, &MRecord)> {
    m.answers.iter().map(|r| (1u8, r)).chain(m.authorities.iter().map(|r| (2u8, r))).chain(m.additionals.iter().map(|r| (3u8, r))).collect()
}

fn uncompressed_size(m: &MMessage) -> usize {
    w::encode_message(m, Compress::None, false).bytes.len()
}

/// compare a packet emitted by hickory with the model, RR by RR, using only the harness's splitter
fn packet_matches_model(packet: &[u8], m: &MMessage) -> Result<(usize, usize), Fail> {
    let sp = match w::split(packet) {
        Ok(s) => s,
        Err(e) => return Err(Fail::new("emitted-packet-malformed", format!("the harness's splitter cannot cut the emitted packet: {e}"))),
    };
    if sp.end != packet.len() {
        return Err(Fail::new("emitted-packet-trailing-octets", format!("{} octets after the last record", packet.len() - sp.end)));
    }
    // header
    let f = sp.flags;
    let exp_flags = {
        let mut x = 0u16;
        if m.qr {
            x |= 0x8000;
        }
        x |= ((m.opcode & 0xf) as u16) << 11;
        for (b, v) in [(0x0400, m.aa), (0x0200, m.tc), (0x0100, m.rd), (0x0080, m.ra), (0x0020, m.ad), (0x0010, m.cd)] {
            if v {
                x |= b;
            }
        }
        x | (m.rcode & 0xf)
    };
    if sp.id != m.id || f != exp_flags {
        return Err(Fail::new("emitted-header-wrong", format!("id {:#06x} flags {:#06x}, model id {:#06x} flags {:#06x}", sp.id, f, m.id, exp_flags)));
    }
    if sp.questions.len() != m.questions.len() {
        return Err(Fail::new("emitted-question-count", format!("{} vs {}", sp.questions.len(), m.questions.len())));
    }
    for (i, (q, mq)) in sp.questions.iter().zip(&m.questions).enumerate() {
        if q.0 != mq.name || q.1 != mq.qtype || q.2 != mq.qclass {
            return Err(Fail::new("emitted-question-wrong", format!("question {i}: {:?} vs model {:?}", q, mq)));
        }
    }
    let plain: Vec<&w::RawRr> = sp.records.iter().filter(|r| r.rtype != w::T_OPT && r.rtype != w::T_TSIG).collect();
    let mr = model_rrs(m);
    if plain.len() != mr.len() {
        return Err(Fail::new("emitted-record-count", format!("{} records emitted, model has {}", plain.len(), mr.len())));
    }
    let mut pointers = 0usize;
    for (i, (rr, (sec, r))) in plain.iter().zip(mr.iter()).enumerate() {
        if rr.section != *sec {
            return Err(Fail::new("emitted-record-section", format!("record {i} in section {} vs model {}", rr.section, sec)));
        }
        if rr.owner != r.owner {
            return Err(Fail::new(
                "emitted-owner-wrong",
                format!("record {i}: owner {} vs model {}", crate::refm::canon::show(&rr.owner), crate::refm::canon::show(&r.owner)),
            ));
        }
        if rr.rtype != r.data.rtype() || rr.class != r.class || rr.ttl != r.ttl {
            return Err(Fail::new(
                "emitted-fixed-fields-wrong",
                format!("record {i}: type/class/ttl {}/{}/{} vs model {}/{}/{}", rr.rtype, rr.class, rr.ttl, r.data.rtype(), r.class, r.ttl),
            ));
        }
        let exp = w::rdata_bytes(&r.data);
        let raw = &packet[rr.rdata_start..rr.rdata_end];
        if w::compressible(rr.rtype) {
            let got = w::decompress_rdata(packet, rr).map_err(|e| Fail::new("emitted-rdata-malformed", format!("record {i}: {e}")))?;
            if got != exp {
                return Err(Fail::new(
                    "emitted-rdata-wrong",
                    format!("record {i} ({}): {} vs model {}", r.data.variant(), crate::core::hexser::to_hex(&got), crate::core::hexser::to_hex(&exp)),
                ));
            }
            if raw.len() < exp.len() {
                pointers += 1;
            }
        } else if raw != exp.as_slice() {
            return Err(Fail::new(
                "noncompressible-rdata-not-preserved",
                format!("record {i} ({}): {} vs model {}", r.data.variant(), crate::core::hexser::to_hex(raw), crate::core::hexser::to_hex(&exp)),
            ));
        }
        // owner compression
        let owner_wire = w::read_name(packet, rr.start).map(|(_, after)| after - rr.start).unwrap_or(0);
        if owner_wire < crate::refm::canon::wire_len(&r.owner) {
            pointers += 1;
        }
    }
    // OPT: fixed fields from the model (RFC 6891 §6.1.2/6.1.3); options are covered by deep equality
    let opts: Vec<&w::RawRr> = sp.records.iter().filter(|r| r.rtype == w::T_OPT).collect();
    match (&m.edns, opts.as_slice()) {
        (None, []) => {}
        (Some(e), [o]) => {
            let exp_ttl = w::edns_ttl(e, m.rcode);
            if !o.owner.is_empty() || o.class != e.payload.max(512) || o.ttl != exp_ttl || o.section != 3 {
                return Err(Fail::new(
                    "emitted-opt-wrong",
                    format!("OPT owner {:?} class {} ttl {:#010x}; model payload {} ttl {:#010x}", o.owner, o.class, o.ttl, e.payload, exp_ttl),
                ));
            }
            let mut got = Vec::new();
            let mut p = o.rdata_start;
            while p + 4 <= o.rdata_end {
                let c = u16::from_be_bytes([packet[p], packet[p + 1]]);
                let l = u16::from_be_bytes([packet[p + 2], packet[p + 3]]) as usize;
                got.push((c, packet[p + 4..(p + 4 + l).min(o.rdata_end)].to_vec()));
                p += 4 + l;
            }
            let mut exp = e.options.clone();
            // DAU (code 5, RFC 6975) is a set of algorithm numbers: order inside the option is free
            for o in exp.iter_mut().chain(got.iter_mut()) {
                if o.0 == 5 {
                    o.1.sort();
                }
            }
            exp.sort();
            got.sort();
            if got != exp {
                return Err(Fail::new("emitted-opt-options-wrong", format!("options {:?} vs model {:?}", got, exp)));
            }
        }
        (a, b) => return Err(Fail::new("emitted-opt-count", format!("model edns {} but {} OPT records emitted", a.is_some(), b.len()))),
    }
    let tsigs: Vec<&w::RawRr> = sp.records.iter().filter(|r| r.rtype == w::T_TSIG).collect();
    match (&m.tsig, tsigs.as_slice()) {
        (None, []) => {}
        (Some((k, t)), [s]) => {
            let last = sp.records.last().map(|r| r.start) == Some(s.start);
            if !last || s.owner != *k || s.class != 255 || s.ttl != 0 || packet[s.rdata_start..s.rdata_end] != w::rdata_bytes(t)[..] {
                return Err(Fail::new("emitted-tsig-wrong", format!("TSIG record differs from the model (last={last})")));
            }
        }
        (a, b) => return Err(Fail::new("emitted-tsig-count", format!("model tsig {} but {} TSIG records emitted", a.is_some(), b.len()))),
    }
    Ok((plain.len(), pointers))
}

fn classify(m: &MMessage, pointers: usize, packet_len: usize, rec: &mut Rec) {
    let variants: BTreeSet<&'static str> = m.all_records().map(|r| r.data.variant()).collect();
    for v in &variants {
        rec.class(format!("variant={v}"));
    }
    rec.class(match pointers {
        0 => "compressed-names=0",
        1..=64 => "compressed-names=1..64",
        65..=120 => "compressed-names=65..120",
        _ => "compressed-names>120",
    });
    rec.class(match packet_len {
        0..=512 => "size<=512",
        513..=4096 => "size<=4096",
        4097..=0x3fff => "size<=16383",
        _ => "size>16383",
    });
    if m.edns.is_some() {
        rec.class("edns");
    }
    if m.tsig.is_some() {
        rec.class("tsig");
    }
    if m.rcode > 15 {
        rec.class("extended-rcode");
    }
    let nt = m.record_count() >= 2 && (pointers > 0 || m.edns.is_some() || m.tsig.is_some() || m.rcode > 15 || variants.len() >= 2);
    if nt {
        rec.nontrivial();
        if rec.wants_note() {
            rec.note(format!(
                "id={:#06x} op={} rcode={} q={} an={} au={} ad={} edns={} tsig={} variants={:?} packet={}B pointers={}",
                m.id,
                m.opcode,
                m.rcode,
                m.questions.len(),
                m.answers.len(),
                m.authorities.len(),
                m.additionals.len(),
                m.edns.is_some(),
                m.tsig.is_some(),
                variants,
                packet_len,
                pointers
            ));
        }
    }
}

#[derive(Clone, Debug, Serialize, Deserialize)]
struct WireCase {
    m: MMessage,
    mode: u8,
}

fn mode_of(x: u8) -> Compress {
    match x % 3 {
        0 => Compress::None,
        1 => Compress::Standard,
        _ => Compress::Everywhere,
    }
}

#[derive(Clone, Debug, Serialize, Deserialize)]
struct MutCase {
    m: MMessage,
    mode: u8,
    muts: Vec<Mutation>,
}

/// offsets of embedded names inside RDATA of non-compressible, name-bearing types
fn name_offset_in_rdata(packet: &[u8], rr: &w::RawRr) -> Option<usize> {
    let s = rr.rdata_start;
    Some(match rr.rtype {
        w::T_SRV => s + 6,
        w::T_RRSIG | w::T_SIG => s + 18,
        w::T_NSEC | w::T_ANAME => s,
        w::T_SVCB | w::T_HTTPS => s + 2,
        w::T_NAPTR => {
            let mut p = s + 4;
            for _ in 0..3 {
                p += 1 + *packet.get(p)? as usize;
            }
            p
        }
        _ => return None,
    })
}

/// oracle (C) over raw bytes: whatever the decoder accepts must re-encode to something that decodes
/// to the same message, with RDATA of non-compressible types byte-identical
pub fn accepted_bytes_oracle(b0: &[u8], muts: &[Mutation], rec: &mut Rec) -> CaseResult {
            let m1 = match Message::from_vec(b0) {
                Ok(m) => m,
                Err(_) => {
                    rec.class("decoder-rejected");
                    return Ok(());
                }
            };
            rec.class("decoder-accepted");
            // domain guard: a message whose uncompressed form exceeds 65,535 octets may legitimately come
            // back truncated (hickory compresses at most 120 names per message)
            let mut plain = 12usize;
            for q in &m1.queries {
                plain += q.name.len() + 1 + 4;
            }
            for r in m1.answers.iter().chain(&m1.authorities).chain(&m1.additionals) {
                plain += r.name.len() + 1 + 10 + if r.data.is_update() { 0 } else { cu::rdata_plain(&r.data).map(|b| b.len()).unwrap_or(0) };
            }
            if plain > 60_000 {
                rec.discard("over-64k-uncompressed");
                return Ok(());
            }
            let b2 = match m1.to_vec() {
                Ok(b) => b,
                Err(e) => vfail!("decoded-message-does-not-encode", "to_vec(from_vec(b)) failed: {e}"),
            };
            let m2 = match Message::from_vec(&b2) {
                Ok(m) => m,
                Err(e) => vfail!("reencoded-message-does-not-decode", "from_vec(to_vec(from_vec(b))) failed: {e}"),
            };
            if let Err(e) = cu::message_deep_eq(&m1, &m2) {
                vfail!("roundtrip-changed-message", "{e}");
            }
            // RDATA preservation, RR by RR, original packet vs re-encoded packet
            let (Ok(s0), Ok(s2)) = (w::split(b0), w::split(&b2)) else {
                rec.class("splitter-disagrees-with-decoder");
                return Ok(());
            };
            let keep = |r: &&w::RawRr| r.rtype != w::T_OPT && r.rtype != w::T_TSIG;
            let r0: Vec<&w::RawRr> = s0.records.iter().filter(keep).collect();
            let r2: Vec<&w::RawRr> = s2.records.iter().filter(keep).collect();
            vensure!(r0.len() == r2.len(), "reencoded-record-count", "{} records in, {} out", r0.len(), r2.len());
            let mut compared = 0;
            for (i, (a, b)) in r0.iter().zip(r2.iter()).enumerate() {
                vensure!(
                    a.owner == b.owner && a.rtype == b.rtype && a.class == b.class && a.ttl == b.ttl,
                    "reencoded-record-fields-changed",
                    "record {i}: {:?}/{}/{}/{} -> {:?}/{}/{}/{}",
                    a.owner,
                    a.rtype,
                    a.class,
                    a.ttl,
                    b.owner,
                    b.rtype,
                    b.class,
                    b.ttl
                );
                let (x, y) = (&b0[a.rdata_start..a.rdata_end], &b2[b.rdata_start..b.rdata_end]);
                if w::compressible(a.rtype) {
                    if let (Ok(dx), Ok(dy)) = (w::decompress_rdata(b0, a), w::decompress_rdata(&b2, b)) {
                        vensure!(dx == dy, "compressible-rdata-changed", "record {i} type {}: {} -> {}", a.rtype, crate::core::hexser::to_hex(&dx), crate::core::hexser::to_hex(&dy));
                        compared += 1;
                    }
                } else {
                    // a non-compressible type that *arrived* with a pointer in an embedded name is compared
                    // after decompression by deep equality only (documented normalisation)
                    let had_pointer = name_offset_in_rdata(b0, a).is_some_and(|off| off < a.rdata_end && w::name_has_pointer(b0, off, a.rdata_end));
                    if had_pointer {
                        rec.class("noncompressible-rdata-arrived-with-pointer");
                        continue;
                    }
                    vensure!(
                        x == y,
                        "noncompressible-rdata-not-preserved",
                        "record {i} type {}: {} -> {}",
                        a.rtype,
                        crate::core::hexser::to_hex(x),
                        crate::core::hexser::to_hex(y)
                    );
                    compared += 1;
                }
            }
            rec.count("rdata_compared", compared);
            if compared >= 1 {
                rec.nontrivial();
                if rec.wants_note() {
                    rec.note(format!("{} records, mutations {:?}, accepted; {} RDATA compared", r0.len(), muts, compared));
                }
            }
            Ok(())
}

pub fn fuzz_one(data: &[u8]) -> CaseResult {
    let mut rec = Rec::default();
    accepted_bytes_oracle(data, &[], &mut rec)
}

fn fuzz_seeds() -> Vec<Vec<u8>> {
    Vec::new()
}

pub fn check() -> Option<Check> {
    let fuzz: Box<dyn crate::core::Sub> = Box::new(crate::core::FuzzSub {
        name: "fz_roundtrip",
        target: "fz_roundtrip",
        runs_thorough: 6_000_000,
        max_len: 16_384,
        oracle: fuzz_one,
        seeds: fuzz_seeds,
    });
    // ------------------------------------------------------------------------------------ (A)
    let constructed = prop(
        "constructed_roundtrip",
        30_000,
        1_500_000,
        |_| msg::message(),
        |m: &MMessage, rec: &mut Rec| -> CaseResult {
            if uncompressed_size(m) > 65_535 {
                rec.discard("over-64k");
                return Ok(());
            }
            let built = match cu::build_message(m) {
                Ok(b) => b,
                Err(e) => {
                    rec.discard(format!("not-assemblable:{}", short(&e)));
                    return Ok(());
                }
            };
            rec.count("records_by_constructor", built.by_constructor as u64);
            rec.count("records_by_decode_fallback", built.by_decode as u64);
            let bytes = match built.msg.to_vec() {
                Ok(b) => b,
                Err(e) => vfail!("valid-message-does-not-encode", "to_vec failed: {e}"),
            };
            let back = match Message::from_vec(&bytes) {
                Ok(b) => b,
                Err(e) => vfail!("encoded-message-does-not-decode", "from_vec(to_vec(m)) failed: {e}"),
            };
            if let Err(e) = cu::message_deep_eq(&built.msg, &back) {
                vfail!("roundtrip-changed-message", "{e}");
            }
            // the same message from an object that was used before: built (or received) with an
            // extended response code in its OPT data, then given this message's response code and
            // sent again. What is left in the OPT data from the earlier use is not part of the message.
            if m.edns.is_some() && m.tsig.is_none() {
                let mut prior = m.clone();
                let stale = 1 + (crate::core::fixed_hash(&[b"c02-reused", &bytes]) % 255) as u16;
                prior.rcode = (m.rcode & 0x000f) | (stale << 4);
                if prior.rcode != m.rcode {
                    if let Ok(mut reused) = cu::build_message(&prior) {
                        reused.msg.metadata.response_code = built.msg.metadata.response_code;
                        rec.class("message-object-reused-after-an-extended-rcode");
                        let b2 = match reused.msg.to_vec() {
                            Ok(b) => b,
                            Err(e) => vfail!("valid-message-does-not-encode", "re-used object: to_vec failed: {e}"),
                        };
                        let back2 = match Message::from_vec(&b2) {
                            Ok(b) => b,
                            Err(e) => vfail!("encoded-message-does-not-decode", "re-used object: from_vec(to_vec(m)) failed: {e}"),
                        };
                        if let Err(e) = cu::message_deep_eq(&back, &back2) {
                            vfail!("roundtrip-changed-message", "object used before with response code {} and now with {}: decodes differently from a fresh object: {e}", prior.rcode, m.rcode);
                        }
                    }
                }
            }
            let (_, pointers) = packet_matches_model(&bytes, m)?;
            classify(m, pointers, bytes.len(), rec);
            Ok(())
        },
    );

    // large messages: many names (compression-candidate and compressed-name limits), > 0x3FFF offsets
    let constructed_large = prop(
        "constructed_roundtrip_large",
        600,
        30_000,
        |_| prop_oneof![
            2 => msg::message_with(msg::SizeClass::ManyNames, false),
            2 => msg::message_large(),
            3 => msg::message_with(msg::SizeClass::BigRdata, false),
        ],
        |m: &MMessage, rec: &mut Rec| -> CaseResult {
            if uncompressed_size(m) > 65_535 {
                rec.discard("over-64k");
                return Ok(());
            }
            let built = match cu::build_message(m) {
                Ok(b) => b,
                Err(e) => {
                    rec.discard(format!("not-assemblable:{}", short(&e)));
                    return Ok(());
                }
            };
            let bytes = match built.msg.to_vec() {
                Ok(b) => b,
                Err(e) => vfail!("valid-message-does-not-encode", "to_vec failed: {e}"),
            };
            let back = match Message::from_vec(&bytes) {
                Ok(b) => b,
                Err(e) => vfail!("encoded-message-does-not-decode", "from_vec(to_vec(m)) failed: {e}"),
            };
            if let Err(e) = cu::message_deep_eq(&built.msg, &back) {
                vfail!("roundtrip-changed-message", "{e}");
            }
            let (_, pointers) = packet_matches_model(&bytes, m)?;
            classify(m, pointers, bytes.len(), rec);
            Ok(())
        },
    );

    // ------------------------------------------------------------------------------------ (B)
    let wire = prop(
        "wire_roundtrip",
        30_000,
        1_500_000,
        |_| (msg::message(), 0u8..3).prop_map(|(m, mode)| WireCase { m, mode }),
        |c: &WireCase, rec: &mut Rec| -> CaseResult {
            let enc = w::encode_message(&c.m, mode_of(c.mode), false);
            if enc.bytes.len() > 65_535 || uncompressed_size(&c.m) > 65_535 {
                rec.discard("over-64k");
                return Ok(());
            }
            let m1 = match Message::from_vec(&enc.bytes) {
                Ok(m) => m,
                Err(e) => {
                    // a valid (by the RFCs) packet the decoder refuses: not a round-trip statement; counted
                    rec.discard(format!("decoder-rejected:{}", short(&e.to_string())));
                    return Ok(());
                }
            };
            let b2 = match m1.to_vec() {
                Ok(b) => b,
                Err(e) => vfail!("decoded-message-does-not-encode", "to_vec(from_vec(b)) failed: {e}"),
            };
            let m2 = match Message::from_vec(&b2) {
                Ok(m) => m,
                Err(e) => vfail!("reencoded-message-does-not-decode", "from_vec(to_vec(from_vec(b))) failed: {e}"),
            };
            if let Err(e) = cu::message_deep_eq(&m1, &m2) {
                vfail!("roundtrip-changed-message", "{e}");
            }
            let (_, pointers) = packet_matches_model(&b2, &c.m)?;
            rec.class(format!("input-compression={:?}", mode_of(c.mode)));
            classify(&c.m, pointers, b2.len(), rec);
            Ok(())
        },
    );

    // ------------------------------------------------------------------------------------ (C)
    let mutated = prop(
        "mutated_roundtrip",
        60_000,
        3_000_000,
        |_| {
            (msg::message_with(msg::SizeClass::Small, false), 0u8..3, proptest::collection::vec(cu::mutation(), 1..3))
                .prop_map(|(m, mode, muts)| MutCase { m, mode, muts })
        },
        |c: &MutCase, rec: &mut Rec| -> CaseResult {
            let mut b0 = w::encode_message(&c.m, mode_of(c.mode), false).bytes;
            for mu in &c.muts {
                cu::apply_mutation(&mut b0, mu);
            }
            accepted_bytes_oracle(&b0, &c.muts, rec)
        },
    );

    // ------------------------------------------------------------------------------------ single records
    let record_rt = prop(
        "record_roundtrip",
        60_000,
        3_000_000,
        |_| msg::record(),
        |r: &MRecord, rec: &mut Rec| -> CaseResult {
            use hickory_proto::rr::Record;
            use hickory_proto::serialize::binary::{BinDecodable, BinDecoder, BinEncodable};
            let Some(hr) = crate::gen::to_hickory::record(r) else {
                rec.discard("no-constructor-path");
                return Ok(());
            };
            let bytes = match hr.to_bytes() {
                Ok(b) => b,
                Err(e) => vfail!("valid-record-does-not-encode", "{}: {e}", r.data.variant()),
            };
            let mut dec = BinDecoder::new(&bytes);
            let back = match Record::read(&mut dec) {
                Ok(b) => b,
                Err(e) => vfail!("encoded-record-does-not-decode", "{}: {e}", r.data.variant()),
            };
            vensure!(dec.is_empty(), "record-decode-left-octets", "{} octets left", dec.len());
            if let Err(e) = cu::record_deep_eq("record", &hr, &back) {
                vfail!("roundtrip-changed-record", "{e}");
            }
            // against the model's octets
            let mut e = w::Enc::new();
            w::encode_record(&mut e, &r.owner, r.data.rtype(), r.class, r.ttl, &r.data, Compress::None);
            let sp_self = {
                // a lone record may still compress an RDATA name against its own owner
                let mut pkt = vec![0u8; 12];
                pkt[7] = 1;
                pkt.extend_from_slice(&bytes);
                pkt
            };
            let _ = sp_self;
            let exp_rdata = w::rdata_bytes(&r.data);
            if !w::compressible(r.data.rtype()) {
                vensure!(
                    bytes.ends_with(&exp_rdata),
                    "noncompressible-rdata-not-preserved",
                    "{}: emitted {} does not end with the model RDATA {}",
                    r.data.variant(),
                    crate::core::hexser::to_hex(&bytes),
                    crate::core::hexser::to_hex(&exp_rdata)
                );
            }
            rec.class(format!("variant={}", r.data.variant()));
            if !matches!(r.data, MRData::A(_) | MRData::Aaaa(_)) {
                rec.nontrivial();
                if rec.wants_note() {
                    rec.note(format!("{} {} {} {:?}", crate::refm::canon::show(&r.owner), r.class, r.ttl, r.data));
                }
            }
            Ok(())
        },
    );

    Some(Check {
        id: "C02",
        level: "exploration",
        rule: "model messages: every RDATA variant hickory has a codec for (A AAAA NS CNAME PTR ANAME MX SOA SRV TXT HINFO NAPTR CAA CERT CSYNC SSHFP TLSA SMIMEA OPENPGPKEY NULL Unknown SVCB HTTPS DNSKEY CDNSKEY KEY DS CDS NSEC NSEC3 NSEC3PARAM RRSIG SIG), names from a per-message pool with shared suffixes / case variants, 0..2 questions, 0..n records per section (size classes small / medium / 60-140 / 300-700 records), all flags, opcodes, rcodes incl. extended with EDNS, EDNS options, TSIG. Non-trivial = distinct message AND ≥2 records AND (a name was compressed in the encoding OR EDNS/TSIG present OR extended rcode OR ≥2 RDATA variants); for mutated inputs: accepted by the decoder AND ≥1 RDATA slice compared; for single records: any variant other than A/AAAA",
        assumptions: vec![
            "zero-octet RDATA is hickory's documented Update0 representation and is not generated as a valid record",
            "messages whose uncompressed size exceeds 65,535 octets are out of domain (may legitimately truncate)",
            "RDATA of a non-compressible type that arrived containing a compression pointer is compared after decompression (deep equality) only",
            "one EDNS option per option code in the exact-round-trip domain",
            "the header Z bit is not modelled by hickory and is generated as 0",
        ],
        subs: vec![constructed, constructed_large, wire, mutated, record_rt, fuzz],
    })
}
