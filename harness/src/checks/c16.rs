//! C16 — Only the queried server's matching reply completes a query.
//!
//! UDP part: the real `UdpClientStream<SimRt>` on the discrete-event runtime; every transmission
//! (each retry binds a new simulated socket) gets a scripted arrival list of forged / genuine
//! datagrams that are built *from the bytes hickory actually sent on that socket* (ID, question
//! incl. 0x20 case). The oracle is a validity predicate on the outcome, computed with an own wire
//! parser (refm::dnswire, RFC 1035 §4.1): RFC 1035 §7.3 (match by ID, then verify the question
//! section), RFC 5452 §9.1 (a reply is accepted only from the address/port the query went to, with
//! the query's ID and question), draft-vixie-dnsext-dns0x20 (case-exact question when 0x20 is on).
//!
//! Stream part: the real `DnsMultiplexer` over a scripted `DnsClientStream`, polled by hand in
//! virtual time; op histories of sends, deliveries (pending / unknown / duplicate / garbage),
//! time advances, receiver drops, close / error; the oracle is a small routing model keyed by the
//! IDs read off the outbound bytes (RFC 7766 §6.2.1/§7: responses are matched by ID, out of order).

use std::cell::RefCell;
use std::collections::VecDeque;
use std::net::{IpAddr, Ipv4Addr, Ipv6Addr, SocketAddr};
use std::pin::Pin;
use std::rc::Rc;
use std::sync::{Arc, Mutex};
use std::task::{Context, Poll};
use std::time::Duration;

use futures_util::stream::{Stream, StreamExt};
use hickory_net::runtime::RuntimeProvider;
use hickory_net::udp::UdpClientStream;
use hickory_net::xfer::{DnsClientStream, DnsMultiplexer, DnsRequestSender, DnsResponseStream};
use hickory_net::{BufDnsStreamHandle, NetError};
use hickory_proto::op::{DnsRequest, DnsRequestOptions, DnsResponse, Message, Query, SerialMessage};
use hickory_proto::rr::{DNSClass, Name, RecordType};
use proptest::collection::vec;
use proptest::prelude::*;
use serde::{Deserialize, Serialize};

use crate::core::{enumerate, prop, CaseResult, Check, Env, Fail, Rec, Tier};
use crate::refm::dnswire::{self as w, Question};
use crate::sim::{self, RecvPoll, Sim, SimNet, SimRt, SimTime};

const BASE_UNIX: u64 = 1_700_000_000;
const MS: u64 = 1_000_000;

// =============================================================================================
// UDP part
// =============================================================================================

const QNAMES: &[&str] = &[
    "example.com.",
    "wWw.ExAmple.ORG.",
    "a.b.c.d.e.test.",
    "x1.test.",
    "123.45.",
    "MiXeD-case-Label.Zone.",
];

#[derive(Clone, Debug, Serialize, Deserialize, PartialEq, Eq, Hash)]
enum Kind {
    /// the reply the queried server would send
    Genuine,
    /// genuine bytes from another IP, same port
    WrongIp,
    /// genuine bytes from the server's IP, another port
    WrongPort,
    /// right source, ID xor mask (mask != 0)
    WrongId(u16),
    /// right source and ID, question differs: 0 = other name, 1 = other type, 2 = other class
    Foreign(u8),
    /// right source and ID, the asked question(s) plus one that was not asked
    Extra,
    /// right source and ID, letters of the first question name case-flipped (bit i = i-th letter)
    Flip(u16),
    /// right source and ID, the asked question twice: once exactly as sent and once with the
    /// letters of its name case-flipped; `true` = the flipped copy comes first
    ExactAndFlipped(u16, bool),
    /// right source and ID, empty question section
    EmptyQ,
    /// arbitrary octets from the right source
    Garbage(#[serde(with = "crate::core::hexser")] Vec<u8>),
    /// the right ID followed by arbitrary octets, right source
    GarbageId(#[serde(with = "crate::core::hexser")] Vec<u8>),
    /// the genuine reply cut to this many per-mille of its length (right source)
    Trunc(u16),
    /// the genuine reply with QR = 0 (a query, not a reply)
    NotResp,
    /// genuine bytes from the IPv4-mapped IPv6 form of the server address (same host, same port)
    Mapped,
    /// arbitrary octets from a wrong source
    GarbageWrongSrc(#[serde(with = "crate::core::hexser")] Vec<u8>),
}

impl Kind {
    fn label(&self) -> &'static str {
        match self {
            Kind::Genuine => "genuine",
            Kind::WrongIp => "wrong-ip",
            Kind::WrongPort => "wrong-port",
            Kind::WrongId(_) => "wrong-id",
            Kind::Foreign(_) => "foreign-question",
            Kind::Extra => "extra-question",
            Kind::Flip(_) => "flipped-case",
            Kind::ExactAndFlipped(_, false) => "exact-then-flipped-case",
            Kind::ExactAndFlipped(_, true) => "flipped-case-then-exact",
            Kind::EmptyQ => "empty-question",
            Kind::Garbage(_) => "garbage",
            Kind::GarbageId(_) => "garbage-right-id",
            Kind::Trunc(_) => "truncated",
            Kind::NotResp => "not-a-response",
            Kind::Mapped => "v4-mapped-source",
            Kind::GarbageWrongSrc(_) => "garbage-wrong-src",
        }
    }
}

#[derive(Clone, Debug, Serialize, Deserialize)]
struct Dg {
    kind: Kind,
    /// arrival gap after the previous datagram on this socket (first: after the send), ms
    gap_ms: u16,
}

#[derive(Clone, Debug, Serialize, Deserialize)]
struct UdpCase {
    qname: u8,
    /// 0 = A, 1 = AAAA, 2 = TXT
    qtype: u8,
    /// ask two questions (second: same name, other type)
    two_q: bool,
    rand_case: bool,
    v6_server: bool,
    retries: u8,
    timeout_ms: u32,
    floor_ms: u32,
    /// per transmission (bind order) the scripted arrivals
    socks: Vec<Vec<Dg>>,
}

fn qtype_of(i: u8) -> (RecordType, u16) {
    match i % 3 {
        0 => (RecordType::A, w::T_A),
        1 => (RecordType::AAAA, w::T_AAAA),
        _ => (RecordType::TXT, w::T_TXT),
    }
}

fn canonical_ip(ip: IpAddr) -> IpAddr {
    // own rendering of "the same host": an IPv4-mapped IPv6 address denotes the IPv4 host
    // (RFC 4291 §2.5.5.2)
    match ip {
        IpAddr::V6(v6) => {
            let o = v6.octets();
            if o[..10].iter().all(|b| *b == 0) && o[10] == 0xff && o[11] == 0xff {
                IpAddr::V4(Ipv4Addr::new(o[12], o[13], o[14], o[15]))
            } else {
                IpAddr::V6(v6)
            }
        }
        v4 => v4,
    }
}

#[derive(Clone, Debug)]
struct Arrival {
    at: u64,
    src: SocketAddr,
    bytes: Vec<u8>,
    kind: Kind,
}

struct USock {
    sent: Option<(u64, Vec<u8>)>,
    queue: Vec<Arrival>,
    next: usize,
    sends: u32,
}

struct UdpSt {
    server: SocketAddr,
    script: Vec<Vec<Dg>>,
    socks: Vec<USock>,
    /// (socket, index in its queue, time) in read order
    reads: Vec<(usize, usize, u64)>,
    binds: Vec<(u64, SocketAddr)>,
}

struct UdpNet {
    st: RefCell<UdpSt>,
}

fn flip_letters(name: &w::Labels, mask: u16) -> w::Labels {
    let mut out = name.clone();
    let mut i = 0u32;
    for l in out.iter_mut() {
        for b in l.iter_mut() {
            if b.is_ascii_alphabetic() {
                if mask & (1 << (i % 16)) != 0 {
                    *b ^= 0x20;
                }
                i += 1;
            }
        }
    }
    out
}

/// build the datagram of `kind` for socket `sock`, position `idx`, from the bytes hickory sent
fn build_dgram(kind: &Kind, sent: &[u8], server: SocketAddr, sock: usize, idx: usize) -> (SocketAddr, Vec<u8>) {
    let hdr = w::parse_header(sent).expect("hickory sent a short datagram");
    let (qs, _) = w::parse_questions(sent).expect("hickory sent an unparseable question section");
    let flags = w::F_QR | w::F_RD | w::F_RA;
    let marker = [10u8, sock as u8 + 1, idx as u8 + 1, 7];
    let owner = qs.first().map(|q| q.name.clone()).unwrap_or_default();
    let ans = |owner: &w::Labels| vec![w::a_rr(owner, 300, marker)];
    let genuine = w::build(hdr.id, flags, &qs, &ans(&owner), &[], &[]);
    let other_ip: IpAddr = match server.ip() {
        IpAddr::V4(_) => IpAddr::V4(Ipv4Addr::new(10, 0, 0, 2)),
        IpAddr::V6(_) => IpAddr::V6(Ipv6Addr::new(0x2001, 0xdb8, 0, 0, 0, 0, 0, 2)),
    };
    match kind {
        Kind::Genuine => (server, genuine),
        Kind::WrongIp => (SocketAddr::new(other_ip, server.port()), genuine),
        Kind::WrongPort => (SocketAddr::new(server.ip(), server.port().wrapping_add(5300)), genuine),
        Kind::WrongId(mask) => {
            let m = if *mask == 0 { 1 } else { *mask };
            (server, w::build(hdr.id ^ m, flags, &qs, &ans(&owner), &[], &[]))
        }
        Kind::Foreign(v) => {
            let mut q = qs.first().cloned().unwrap_or(Question {
                name: vec![],
                qtype: w::T_A,
                qclass: w::C_IN,
            });
            match v % 3 {
                0 => q.name.insert(0, b"evil".to_vec()),
                1 => q.qtype = if q.qtype == 15 { 2 } else { 15 },
                _ => q.qclass = 3,
            }
            let o = q.name.clone();
            (server, w::build(hdr.id, flags, &[q], &ans(&o), &[], &[]))
        }
        Kind::Extra => {
            let mut all = qs.clone();
            let mut extra = qs.first().cloned().unwrap_or(Question {
                name: vec![],
                qtype: w::T_A,
                qclass: w::C_IN,
            });
            extra.name.insert(0, b"extra".to_vec());
            all.push(extra);
            (server, w::build(hdr.id, flags, &all, &ans(&owner), &[], &[]))
        }
        Kind::Flip(mask) => {
            let mut fq = qs.clone();
            if let Some(q) = fq.first_mut() {
                q.name = flip_letters(&q.name, if *mask == 0 { 1 } else { *mask });
            }
            let o = fq.first().map(|q| q.name.clone()).unwrap_or_default();
            (server, w::build(hdr.id, flags, &fq, &ans(&o), &[], &[]))
        }
        Kind::ExactAndFlipped(mask, flipped_first) => {
            let mut fq = qs.clone();
            if let Some(q) = qs.first() {
                let mut f = q.clone();
                f.name = flip_letters(&q.name, if *mask == 0 { 1 } else { *mask });
                if *flipped_first {
                    fq.insert(0, f);
                } else {
                    fq.push(f);
                }
            }
            (server, w::build(hdr.id, flags, &fq, &ans(&owner), &[], &[]))
        }
        Kind::EmptyQ => (server, w::build(hdr.id, flags, &[], &ans(&owner), &[], &[])),
        Kind::Garbage(b) => (server, b.clone()),
        Kind::GarbageId(b) => {
            let mut v = hdr.id.to_be_bytes().to_vec();
            v.extend_from_slice(b);
            (server, v)
        }
        Kind::Trunc(pm) => {
            let n = ((genuine.len() as u64 * (*pm as u64 % 1000)) / 1000) as usize;
            let n = n.clamp(1, genuine.len() - 1);
            (server, genuine[..n].to_vec())
        }
        Kind::NotResp => (server, w::build(hdr.id, w::F_RD, &qs, &ans(&owner), &[], &[])),
        Kind::Mapped => match server.ip() {
            IpAddr::V4(v4) => (SocketAddr::new(IpAddr::V6(v4.to_ipv6_mapped()), server.port()), genuine),
            IpAddr::V6(_) => (server, genuine),
        },
        Kind::GarbageWrongSrc(b) => (SocketAddr::new(other_ip, server.port()), b.clone()),
    }
}

impl SimNet for UdpNet {
    fn udp_bind(&self, local: SocketAddr, _server: SocketAddr) -> std::io::Result<u64> {
        let mut st = self.st.borrow_mut();
        st.binds.push((sim::now_nanos(), local));
        st.socks.push(USock {
            sent: None,
            queue: vec![],
            next: 0,
            sends: 0,
        });
        Ok(st.socks.len() as u64 - 1)
    }

    fn udp_send(&self, sock: u64, buf: &[u8], _target: SocketAddr) -> std::io::Result<usize> {
        let mut st = self.st.borrow_mut();
        let now = sim::now_nanos();
        let server = st.server;
        let script = st.script.get(sock as usize).cloned().unwrap_or_default();
        let s = &mut st.socks[sock as usize];
        s.sends += 1;
        if s.sent.is_none() {
            s.sent = Some((now, buf.to_vec()));
            let mut at = now;
            for (i, d) in script.iter().enumerate() {
                at += d.gap_ms as u64 * MS;
                let (src, bytes) = build_dgram(&d.kind, buf, server, sock as usize, i);
                s.queue.push(Arrival {
                    at,
                    src,
                    bytes,
                    kind: d.kind.clone(),
                });
            }
        }
        Ok(buf.len())
    }

    fn udp_poll_recv(&self, sock: u64, now: u64) -> RecvPoll {
        let mut st = self.st.borrow_mut();
        let s = &mut st.socks[sock as usize];
        if s.sent.is_none() {
            return RecvPoll::Never;
        }
        match s.queue.get(s.next) {
            None => RecvPoll::Never,
            Some(a) if a.at <= now => {
                let (bytes, src) = (a.bytes.clone(), a.src);
                let idx = s.next;
                s.next += 1;
                st.reads.push((sock as usize, idx, now));
                RecvPoll::Ready(bytes, src)
            }
            Some(a) => RecvPoll::At(a.at),
        }
    }
}

// ---- the oracle's reading of one datagram ---------------------------------------------------

#[derive(Clone, Copy, Debug, PartialEq, Eq)]
enum Verdict {
    /// may complete the query
    Acceptable,
    /// must be passed over without ending the query
    Skippable,
    /// not acceptable; whether it is passed over or ends the query in an error is left open
    MayEnd,
}

/// RFC 5452 §9.1 / RFC 1035 §7.3 acceptance predicate, from raw octets only
fn acceptable(sent: &[u8], rand_case: bool, server: SocketAddr, src: SocketAddr, d: &[u8]) -> Result<(), &'static str> {
    if canonical_ip(src.ip()) != canonical_ip(server.ip()) {
        return Err("source address differs");
    }
    if src.port() != server.port() {
        return Err("source port differs");
    }
    let sh = w::parse_header(sent).ok_or("sent datagram has no header")?;
    let (asked, _) = w::parse_questions(sent).ok_or("sent question section unreadable")?;
    let dh = w::parse_header(d).ok_or("datagram shorter than a header")?;
    if dh.id != sh.id {
        return Err("id differs");
    }
    let (got, _) = w::parse_questions(d).ok_or("question section unreadable")?;
    for q in &got {
        let found = asked.iter().any(|a| {
            a.qtype == q.qtype
                && a.qclass == q.qclass
                && if rand_case {
                    a.name == q.name
                } else {
                    w::name_eq_nocase(&a.name, &q.name)
                }
        });
        if !found {
            return Err("question was not asked (or differs in case with 0x20 on)");
        }
    }
    Ok(())
}

fn verdict(sent: &[u8], rand_case: bool, server: SocketAddr, a: &Arrival) -> Verdict {
    let wrong_src = canonical_ip(a.src.ip()) != canonical_ip(server.ip()) || a.src.port() != server.port();
    if wrong_src {
        return Verdict::Skippable;
    }
    match &a.kind {
        // octets this harness did not build as a well-formed reply: hickory ends the query with a
        // decode error, another correct client might skip them — both satisfy the statement
        Kind::Garbage(_) | Kind::GarbageId(_) | Kind::Trunc(_) | Kind::NotResp | Kind::GarbageWrongSrc(_) => Verdict::MayEnd,
        _ => match acceptable(sent, rand_case, server, a.src, &a.bytes) {
            Ok(()) => Verdict::Acceptable,
            Err(_) => {
                // a reply that matches but for letter case while 0x20 is on: the statement lets the
                // query "end in an error" (hickory: QueryCaseMismatch, so that the pool goes to TCP)
                if rand_case && acceptable(sent, false, server, a.src, &a.bytes).is_ok() {
                    Verdict::MayEnd
                } else {
                    Verdict::Skippable
                }
            }
        },
    }
}

fn render_udp(c: &UdpCase) -> String {
    let socks: Vec<String> = c
        .socks
        .iter()
        .map(|s| {
            s.iter()
                .map(|d| format!("{}+{}ms", d.kind.label(), d.gap_ms))
                .collect::<Vec<_>>()
                .join(",")
        })
        .collect();
    format!(
        "q={} type={} two_q={} 0x20={} v6={} retries={} timeout={}ms floor={}ms arrivals=[{}]",
        QNAMES[c.qname as usize % QNAMES.len()],
        c.qtype % 3,
        c.two_q,
        c.rand_case,
        c.v6_server,
        c.retries,
        c.timeout_ms,
        c.floor_ms,
        socks.join(" | ")
    )
}

fn run_udp(c: &UdpCase, rec: &mut Rec) -> CaseResult {
    let server: SocketAddr = if c.v6_server {
        SocketAddr::new(IpAddr::V6(Ipv6Addr::new(0x2001, 0xdb8, 0, 0, 0, 0, 0, 1)), 53)
    } else {
        SocketAddr::new(IpAddr::V4(Ipv4Addr::new(10, 0, 0, 1)), 53)
    };
    let mut sim = Sim::new(BASE_UNIX);
    let net = Rc::new(UdpNet {
        st: RefCell::new(UdpSt {
            server,
            script: c.socks.clone(),
            socks: vec![],
            reads: vec![],
            binds: vec![],
        }),
    });
    sim.set_net(net.clone());

    let name = Name::from_ascii(QNAMES[c.qname as usize % QNAMES.len()]).expect("fixed name");
    let (rt, _) = qtype_of(c.qtype);
    let mut opts = DnsRequestOptions::default();
    opts.case_randomization = c.rand_case;
    let request = if c.two_q {
        let mut m = Message::query();
        m.add_query(Query::new(name.clone(), rt));
        let (rt2, _) = qtype_of(c.qtype + 1);
        let mut q2 = Query::new(name.clone(), rt2);
        q2.set_query_class(DNSClass::IN);
        m.add_query(q2);
        m.metadata.recursion_desired = true;
        DnsRequest::new(m, opts)
    } else {
        DnsRequest::from_query(Query::new(name.clone(), rt), opts)
    };

    let timeout = Duration::from_millis(c.timeout_ms as u64);
    let mut stream = UdpClientStream::builder(server, SimRt)
        .with_timeout(Some(timeout))
        .with_max_retries(c.retries)
        .with_retry_interval_floor(c.floor_ms as u64)
        .build();
    let fut = async move {
        let mut rs: DnsResponseStream = stream.send_message(request);
        let first = rs.next().await;
        (first, sim::now_nanos())
    };
    let (outcome, t_done) = match sim.run(fut, 20_000) {
        Ok(v) => v,
        Err(e) => vfail!("udp-no-completion", "simulation ended with {e:?}: the query neither completed nor timed out"),
    };
    drop(sim);
    let st = net.st.borrow();

    // ---- observations -------------------------------------------------------------------
    let t_end = c.timeout_ms as u64 * MS;
    vensure!(
        t_done <= t_end,
        "udp-late-completion",
        "completed at {} ns, stream timeout {} ns",
        t_done,
        t_end
    );
    // per socket at most three datagrams are consumed
    for (i, s) in st.socks.iter().enumerate() {
        vensure!(
            s.next <= 3,
            "udp-more-than-three-examined",
            "socket {i} consumed {} datagrams",
            s.next
        );
        vensure!(s.sends <= 1, "udp-resend-on-same-socket", "socket {i} sent {} times", s.sends);
    }
    // all transmissions carry the same question and go out from distinct sockets
    let sent: Vec<&(u64, Vec<u8>)> = st.socks.iter().filter_map(|s| s.sent.as_ref()).collect();

    // ---- classification of what was scheduled ------------------------------------------------
    let mut t_star: Option<u64> = None; // earliest acceptable arrival within the first three
    let mut ambiguous_before: Option<u64> = None; // earliest event that may legitimately end the query
    let mut forged_before_genuine = false;
    for s in st.socks.iter() {
        let Some((_, sent_bytes)) = &s.sent else { continue };
        let mut seen_forged = false;
        for (i, a) in s.queue.iter().enumerate().take(3) {
            match verdict(sent_bytes, c.rand_case, server, a) {
                Verdict::Acceptable => {
                    if seen_forged {
                        forged_before_genuine = true;
                    }
                    t_star = Some(t_star.map_or(a.at, |t| t.min(a.at)));
                    break; // later datagrams on this socket are irrelevant once one is acceptable
                }
                Verdict::MayEnd => {
                    ambiguous_before = Some(ambiguous_before.map_or(a.at, |t| t.min(a.at)));
                    break;
                }
                Verdict::Skippable => {
                    seen_forged = true;
                    if i == 2 {
                        // third non-matching datagram: the transmission gives up (error)
                        ambiguous_before = Some(ambiguous_before.map_or(a.at, |t| t.min(a.at)));
                    }
                }
            }
        }
    }

    // ---- validity of the outcome --------------------------------------------------------------
    let ok_resp: Option<&DnsResponse> = match &outcome {
        Some(Ok(r)) => Some(r),
        _ => None,
    };
    if let Some(r) = ok_resp {
        // which delivered datagram produced r?
        let buf = r.as_buffer();
        let hit = st.reads.iter().find(|(s, i, _)| st.socks[*s].queue[*i].bytes == buf);
        let Some(&(s, i, t_read)) = hit else {
            vfail!(
                "udp-ok-from-nothing",
                "Ok response whose octets match no datagram that was read ({} octets)",
                buf.len()
            );
        };
        let a = &st.socks[s].queue[i];
        let sent_bytes = &st.socks[s].sent.as_ref().unwrap().1;
        if let Err(why) = acceptable(sent_bytes, c.rand_case, server, a.src, &a.bytes) {
            let sig = match &a.kind {
                Kind::WrongIp | Kind::GarbageWrongSrc(_) => "udp-accepted-wrong-source-ip",
                Kind::WrongPort => "udp-accepted-wrong-source-port",
                Kind::WrongId(_) => "udp-accepted-wrong-id",
                Kind::Foreign(_) | Kind::Extra => "udp-accepted-unasked-question",
                Kind::Flip(_) | Kind::ExactAndFlipped(..) => "udp-accepted-case-mismatch",
                _ => "udp-accepted-non-matching",
            };
            vfail!(
                sig,
                "query completed with datagram #{i} of socket {s} ({}, from {}): {why}",
                a.kind.label(),
                a.src
            );
        }
        vensure!(
            i < 3,
            "udp-accepted-after-three",
            "query completed with datagram #{i} (0-based) of socket {s}: more than three examined"
        );
        vensure!(a.at <= t_read, "harness-read-before-arrival", "internal: read before arrival");
        // the id on the wire is what the response carries
        let sh = w::parse_header(sent_bytes).unwrap();
        vensure!(r.id == sh.id, "udp-ok-id-differs", "response id {} vs wire id {}", r.id, sh.id);
    }

    // ---- "other datagrams are skipped": a reachable acceptable reply must complete the query ----
    if let Some(ts) = t_star {
        let clean = ambiguous_before.is_none_or(|ta| ta > ts) && ts < t_end;
        if clean {
            match &outcome {
                Some(Ok(_)) => {}
                other => {
                    let what = match other {
                        None => "timeout (stream ended)".to_string(),
                        Some(Err(e)) => format!("error: {e}"),
                        Some(Ok(_)) => unreachable!(),
                    };
                    vfail!(
                        "udp-genuine-reply-not-accepted",
                        "an acceptable reply arrived at {} ns within the first three datagrams of its socket, only skippable datagrams before it, timeout at {} ns — outcome was {what}",
                        ts,
                        t_end
                    );
                }
            }
            rec.class("outcome:ok-required");
        } else {
            rec.class("outcome:open");
        }
    } else {
        // no acceptable datagram among the first three of any socket: must not be Ok (already
        // implied by the validity check above; stated for the histogram)
        vensure!(
            ok_resp.is_none(),
            "udp-accepted-non-matching",
            "Ok although no acceptable datagram was within the first three of any socket"
        );
        rec.class("outcome:error-required");
    }

    // ---- accounting -----------------------------------------------------------------------------
    match &outcome {
        Some(Ok(_)) => rec.class("result:ok"),
        Some(Err(NetError::QueryCaseMismatch)) => rec.class("result:err-case-mismatch"),
        Some(Err(NetError::Timeout)) | None => rec.class("result:timeout"),
        Some(Err(_)) => rec.class("result:err-other"),
    }
    rec.class(format!("transmissions:{}", sent.len()));
    rec.class(if c.rand_case { "0x20:on" } else { "0x20:off" });
    for s in &c.socks {
        for d in s {
            rec.class(format!("kind:{}", d.kind.label()));
        }
    }
    let total: usize = c.socks.iter().map(|s| s.len()).sum();
    rec.class(match total {
        0 => "datagrams:0",
        1..=4 => "datagrams:1-4",
        _ => "datagrams:5+",
    });
    if forged_before_genuine {
        rec.nontrivial();
        if rec.wants_note() {
            rec.note(render_udp(c));
        }
    }
    Ok(())
}

fn kind_strategy() -> impl Strategy<Value = Kind> {
    let bytes = |n: std::ops::Range<usize>| vec(any::<u8>(), n);
    prop_oneof![
        5 => Just(Kind::Genuine),
        3 => Just(Kind::WrongIp),
        3 => Just(Kind::WrongPort),
        3 => (1u16..=u16::MAX).prop_map(Kind::WrongId),
        2 => (0u8..3).prop_map(Kind::Foreign),
        2 => Just(Kind::Extra),
        3 => (1u16..=u16::MAX).prop_map(Kind::Flip),
        2 => ((1u16..=u16::MAX), any::<bool>()).prop_map(|(m, f)| Kind::ExactAndFlipped(m, f)),
        2 => Just(Kind::EmptyQ),
        1 => bytes(0..40).prop_map(Kind::Garbage),
        1 => bytes(0..40).prop_map(Kind::GarbageId),
        1 => (0u16..1000).prop_map(Kind::Trunc),
        1 => Just(Kind::NotResp),
        1 => Just(Kind::Mapped),
        2 => bytes(0..40).prop_map(Kind::GarbageWrongSrc),
    ]
}

fn dg_strategy() -> impl Strategy<Value = Dg> {
    let gap = prop_oneof![4 => Just(0u16), 3 => 1u16..40, 2 => 40u16..400, 1 => 400u16..1500];
    (kind_strategy(), gap).prop_map(|(kind, gap_ms)| Dg { kind, gap_ms })
}

fn skippable_dg() -> impl Strategy<Value = Dg> {
    let kind = prop_oneof![
        Just(Kind::WrongIp),
        Just(Kind::WrongPort),
        (1u16..=u16::MAX).prop_map(Kind::WrongId),
        (0u8..3).prop_map(Kind::Foreign),
        Just(Kind::Extra),
        vec(any::<u8>(), 0..40).prop_map(Kind::GarbageWrongSrc),
    ];
    let gap = prop_oneof![2 => Just(0u16), 3 => 1u16..40, 3 => 40u16..700];
    (kind, gap).prop_map(|(kind, gap_ms)| Dg { kind, gap_ms })
}

fn udp_case(tier: Tier) -> impl Strategy<Value = UdpCase> {
    let maxd = match tier {
        Tier::Quick => 7usize,
        Tier::Thorough => 10,
    };
    // general schedules, plus schedules whose early transmissions see at most two skippable
    // datagrams so that the retransmissions (new sockets) are reached
    let socks = prop_oneof![
        3 => vec(vec(dg_strategy(), 0..maxd), 1..=3),
        2 => (vec(vec(skippable_dg(), 0..3), 1..=2), vec(dg_strategy(), 0..maxd)).prop_map(|(mut early, last)| {
            early.push(last);
            early
        }),
    ];
    (
        (0u8..QNAMES.len() as u8, 0u8..3, prop::bool::weighted(0.15), any::<bool>(), prop::bool::weighted(0.2)),
        (0u8..=3, prop_oneof![Just(300u32), Just(700), Just(1000), Just(2000), Just(5000)], prop_oneof![Just(100u32), Just(333), Just(500)]),
        socks,
    )
        .prop_map(|((qname, qtype, two_q, rand_case, v6_server), (retries, timeout_ms, floor_ms), socks)| UdpCase {
            qname,
            qtype,
            two_q,
            rand_case,
            v6_server,
            retries,
            timeout_ms,
            floor_ms,
            socks,
        })
}

/// the nine kinds named by the statement, for the exhaustive small-scope sweep
fn enum_kinds() -> Vec<Kind> {
    vec![
        Kind::Genuine,
        Kind::WrongIp,
        Kind::WrongPort,
        Kind::WrongId(0x0101),
        Kind::Foreign(0),
        Kind::Flip(0x5555),
        Kind::EmptyQ,
        Kind::Garbage(vec![0xde, 0xad, 0xbe, 0xef, 1, 2, 3, 4, 5, 6, 7, 8, 9]),
        Kind::Trunc(600),
    ]
}

fn udp_enum_cases(env: &Env) -> (Box<dyn Iterator<Item = UdpCase> + Send>, bool) {
    // every sequence (hence every order) of up to four datagrams over the nine kinds, with 0x20
    // on/off and two arrival spacings, one transmission
    let kinds = enum_kinds();
    let k = kinds.len();
    let scale = env.scale;
    let mut seqs: Vec<Vec<usize>> = vec![vec![]];
    let mut frontier: Vec<Vec<usize>> = vec![vec![]];
    for _ in 0..4 {
        let mut next = Vec::new();
        for s in &frontier {
            for i in 0..k {
                let mut t = s.clone();
                t.push(i);
                next.push(t);
            }
        }
        seqs.extend(next.iter().cloned());
        frontier = next;
    }
    let total = seqs.len();
    let keep = ((total as f64) * scale.min(1.0)).ceil() as usize;
    let exhaustive = keep >= total;
    let it = seqs.into_iter().take(keep).flat_map(move |s| {
        let kinds = kinds.clone();
        [(false, 0u16), (true, 0), (false, 7), (true, 7)].into_iter().map(move |(rand_case, gap)| UdpCase {
            qname: 1,
            qtype: 0,
            two_q: false,
            rand_case,
            v6_server: false,
            retries: 0,
            timeout_ms: 1000,
            floor_ms: 333,
            socks: vec![s
                .iter()
                .map(|&i| Dg {
                    kind: kinds[i].clone(),
                    gap_ms: gap,
                })
                .collect()],
        })
    });
    (Box::new(it), exhaustive)
}

// =============================================================================================
// Stream part: DnsMultiplexer over a scripted DnsClientStream
// =============================================================================================

#[derive(Clone, Debug, Serialize, Deserialize)]
enum Op {
    /// send a new request
    Send,
    /// queue a response for request `target` (mod #requests so far), `dup` copies
    Deliver { target: u8, dup: u8 },
    /// queue a well-formed response whose ID belongs to no active request
    DeliverUnknown { seed: u16 },
    /// queue a response for request `target` cut short (header promises more than is there)
    DeliverCut { target: u8, keep: u8 },
    /// queue fewer than 12 arbitrary octets
    Garbage(#[serde(with = "crate::core::hexser")] Vec<u8>),
    /// advance virtual time
    Advance { ms: u16 },
    /// drop the response stream of request `target`
    DropReceiver { target: u8 },
    /// the transport ends cleanly
    Close,
    /// the transport fails
    Error,
    /// poll the multiplexer
    Poll,
    /// poll the response stream of request `target` until it is pending or finished
    Drain { target: u8 },
}

#[derive(Clone, Debug, Serialize, Deserialize)]
struct MuxCase {
    timeout_ms: u16,
    ops: Vec<Op>,
}

enum In {
    Msg(Vec<u8>),
    Err,
    Close,
}

struct ScriptStream {
    inbox: Arc<Mutex<VecDeque<In>>>,
    addr: SocketAddr,
    polls_after_end: Arc<Mutex<u32>>,
    ended: bool,
}

impl Stream for ScriptStream {
    type Item = Result<SerialMessage, NetError>;
    fn poll_next(mut self: Pin<&mut Self>, _cx: &mut Context<'_>) -> Poll<Option<Self::Item>> {
        if self.ended {
            *self.polls_after_end.lock().unwrap() += 1;
            return Poll::Ready(None);
        }
        let item = self.inbox.lock().unwrap().pop_front();
        match item {
            None => Poll::Pending,
            Some(In::Msg(b)) => Poll::Ready(Some(Ok(SerialMessage::new(b, self.addr)))),
            Some(In::Err) => {
                self.ended = true;
                Poll::Ready(Some(Err(NetError::from(std::io::Error::new(
                    std::io::ErrorKind::ConnectionReset,
                    "simulated reset",
                )))))
            }
            Some(In::Close) => {
                self.ended = true;
                Poll::Ready(None)
            }
        }
    }
}

impl DnsClientStream for ScriptStream {
    type Time = SimTime;
    fn name_server_addr(&self) -> SocketAddr {
        self.addr
    }
}

#[derive(Clone, Copy, Debug, PartialEq, Eq)]
enum End {
    Timeout,
    Closed,
}

#[derive(Clone, Debug)]
enum Got {
    Ok(Vec<u8>),
    #[allow(dead_code)]
    Err(String, bool), // message, is-timeout
}

struct Req {
    id: u16,
    question: Question,
    deadline: u64,
    rx: Option<DnsResponseStream>,
    cancelled: bool,
    removed: bool,
    end: Option<End>,
    /// (octets, must-be-delivered) in processing order
    exp: Vec<(Vec<u8>, bool)>,
    undrained: usize,
    /// the response channel was full when the transport ended: the error itself may be lost
    full_at_close: bool,
    got: Vec<Got>,
    finished: bool,
}

enum MIn {
    Msg { bytes: Vec<u8>, te: u64, wellformed: bool },
    End,
}

fn subseq_ok(exp: &[(Vec<u8>, bool)], got: &[&Vec<u8>]) -> Result<(), String> {
    // can `got` be obtained from `exp` by deleting only optional entries? (DP over suffixes)
    let n = exp.len();
    let m = got.len();
    // f[i][p] = exp[i..] can produce got[p..]
    let mut f = vec![vec![false; m + 1]; n + 1];
    f[n][m] = true;
    for i in (0..n).rev() {
        for p in (0..=m).rev() {
            let mut ok = false;
            if p < m && exp[i].0 == *got[p] && f[i + 1][p + 1] {
                ok = true;
            }
            if !exp[i].1 && f[i + 1][p] {
                ok = true;
            }
            f[i][p] = ok;
        }
    }
    if f[0][0] {
        return Ok(());
    }
    // explain: first got item that is not in exp at all, else a missing mandatory one
    for g in got {
        if !exp.iter().any(|e| e.0 == **g) {
            return Err("unexpected".into());
        }
    }
    Err("missing-or-reordered".into())
}

fn render_mux(c: &MuxCase) -> String {
    let ops: Vec<String> = c
        .ops
        .iter()
        .map(|o| match o {
            Op::Send => "send".into(),
            Op::Deliver { target, dup } => format!("deliver(r{target}x{dup})"),
            Op::DeliverUnknown { .. } => "deliver-unknown".into(),
            Op::DeliverCut { target, .. } => format!("deliver-cut(r{target})"),
            Op::Garbage(b) => format!("garbage({})", b.len()),
            Op::Advance { ms } => format!("+{ms}ms"),
            Op::DropReceiver { target } => format!("drop(r{target})"),
            Op::Close => "close".into(),
            Op::Error => "error".into(),
            Op::Poll => "poll".into(),
            Op::Drain { target } => format!("drain(r{target})"),
        })
        .collect();
    format!("timeout={}ms ops=[{}]", c.timeout_ms, ops.join(" "))
}

fn run_mux(c: &MuxCase, rec: &mut Rec) -> CaseResult {
    let mut sim = Sim::new(BASE_UNIX);
    let addr = SocketAddr::new(IpAddr::V4(Ipv4Addr::new(10, 0, 0, 1)), 53);
    let inbox = Arc::new(Mutex::new(VecDeque::new()));
    let polls_after_end = Arc::new(Mutex::new(0u32));
    let stream = ScriptStream {
        inbox: inbox.clone(),
        addr,
        polls_after_end: polls_after_end.clone(),
        ended: false,
    };
    let (handle, mut outbound) = BufDnsStreamHandle::new(addr);
    let timeout = Duration::from_millis(c.timeout_ms as u64);
    let mut mux = DnsMultiplexer::new(stream, handle).with_timeout(timeout);

    let waker = futures_util::task::noop_waker();
    let mut cx = Context::from_waker(&waker);

    let mut reqs: Vec<Req> = Vec::new();
    let mut minbox: VecDeque<MIn> = VecDeque::new();
    let mut closed = false; // the model has processed close/error
    let mut mux_done = false; // the multiplexer returned Ready(None)
    let mut deliveries = 0u32;
    let mut nontrivial = false;
    let mut max_inflight = 0usize;

    let active = |reqs: &Vec<Req>| reqs.iter().filter(|r| !r.removed).count();

    fn drain(r: &mut Req, cx: &mut Context<'_>) {
        let Some(rx) = r.rx.as_mut() else { return };
        if r.finished {
            return;
        }
        for _ in 0..64 {
            match rx.poll_next_unpin(cx) {
                Poll::Pending => break,
                Poll::Ready(None) => {
                    r.finished = true;
                    break;
                }
                Poll::Ready(Some(Ok(resp))) => r.got.push(Got::Ok(resp.as_buffer().to_vec())),
                Poll::Ready(Some(Err(e))) => {
                    let is_to = matches!(e, NetError::Timeout);
                    r.got.push(Got::Err(e.to_string(), is_to));
                }
            }
        }
        r.undrained = 0;
    }

    // In production the multiplexer is driven by DnsExchangeBackground, which polls it right after
    // every send_message (the per-request timeout future is lazy: its clock starts at that first
    // poll). The interpreter keeps that contract: every Send is followed by a Poll.
    let mut ops: Vec<Op> = Vec::with_capacity(c.ops.len() * 2 + 1);
    for o in &c.ops {
        ops.push(o.clone());
        if matches!(o, Op::Send) {
            ops.push(Op::Poll);
        }
    }
    // always finish with a poll and a drain of everything
    ops.push(Op::Poll);

    for op in &ops {
        match op {
            Op::Send => {
                if closed || mux_done {
                    rec.class("op:send-after-close(skipped)");
                    continue;
                }
                if active(&reqs) >= 8 {
                    rec.class("op:send-at-cap(skipped)");
                    continue;
                }
                let i = reqs.len();
                let name = Name::from_ascii(format!("r{i}.mux.test.")).unwrap();
                let request = DnsRequest::from_query(Query::new(name, RecordType::A), DnsRequestOptions::default());
                let rx = mux.send_message(request);
                // read the outbound octets
                let mut out = Vec::new();
                while let Poll::Ready(Some(m)) = outbound.poll_next_unpin(&mut cx) {
                    out.push(m);
                }
                vensure!(
                    out.len() == 1,
                    "mux-outbound-count",
                    "send_message put {} messages on the wire",
                    out.len()
                );
                let bytes = out.pop().unwrap().into_parts().0;
                let hdr = w::parse_header(&bytes).ok_or_else(|| Fail::new("mux-outbound-short", "outbound message has no header"))?;
                let (qs, _) = w::parse_questions(&bytes).ok_or_else(|| Fail::new("mux-outbound-bad", "outbound question unreadable"))?;
                vensure!(
                    qs.len() == 1 && w::show_name(&qs[0].name).eq_ignore_ascii_case(&format!("r{i}.mux.test.")),
                    "mux-outbound-question",
                    "request {i} went out with question {:?}",
                    qs.first().map(|q| w::show_name(&q.name))
                );
                // in-flight ids pairwise distinct
                if let Some(o) = reqs.iter().position(|r| !r.removed && r.id == hdr.id) {
                    vfail!(
                        "mux-duplicate-inflight-id",
                        "request {i} was given id {} which request {o} still holds",
                        hdr.id
                    );
                }
                reqs.push(Req {
                    id: hdr.id,
                    question: qs[0].clone(),
                    deadline: sim::now_nanos() + c.timeout_ms as u64 * MS,
                    rx: Some(rx),
                    cancelled: false,
                    removed: false,
                    end: None,
                    exp: vec![],
                    undrained: 0,
                    full_at_close: false,
                    got: vec![],
                    finished: false,
                });
                max_inflight = max_inflight.max(active(&reqs));
                rec.class("op:send");
            }
            Op::Deliver { target, dup } => {
                if reqs.is_empty() {
                    continue;
                }
                let t = *target as usize % reqs.len();
                let r = &reqs[t];
                deliveries += 1;
                let marker = [10, (deliveries >> 8) as u8, deliveries as u8, 9];
                let bytes = w::build(
                    r.id,
                    w::F_QR | w::F_RD | w::F_RA,
                    &[r.question.clone()],
                    &[w::a_rr(&r.question.name, 60, marker)],
                    &[],
                    &[],
                );
                let n = (*dup).clamp(1, 3);
                for _ in 0..n {
                    inbox.lock().unwrap().push_back(In::Msg(bytes.clone()));
                    minbox.push_back(MIn::Msg {
                        bytes: bytes.clone(),
                        te: sim::now_nanos(),
                        wellformed: true,
                    });
                }
                // non-triviality: >= 2 in flight and (duplicate or not the oldest active request)
                let act: Vec<usize> = reqs.iter().enumerate().filter(|(_, r)| !r.removed).map(|(i, _)| i).collect();
                if act.len() >= 2 && !reqs[t].removed && (n > 1 || act.first() != Some(&t)) {
                    nontrivial = true;
                }
                rec.class(if r.removed {
                    "op:deliver-to-completed"
                } else if n > 1 {
                    "op:deliver-duplicate"
                } else {
                    "op:deliver-pending"
                });
            }
            Op::DeliverUnknown { seed } => {
                let mut id = *seed;
                while reqs.iter().any(|r| !r.removed && r.id == id) {
                    id = id.wrapping_add(1);
                }
                let q = Question {
                    name: vec![b"unknown".to_vec(), b"test".to_vec()],
                    qtype: w::T_A,
                    qclass: w::C_IN,
                };
                let bytes = w::build(id, w::F_QR | w::F_RD | w::F_RA, &[q.clone()], &[w::a_rr(&q.name, 60, [10, 9, 9, 9])], &[], &[]);
                inbox.lock().unwrap().push_back(In::Msg(bytes.clone()));
                minbox.push_back(MIn::Msg {
                    bytes,
                    te: sim::now_nanos(),
                    wellformed: true,
                });
                rec.class("op:deliver-unknown-id");
            }
            Op::DeliverCut { target, keep } => {
                if reqs.is_empty() {
                    continue;
                }
                let t = *target as usize % reqs.len();
                let r = &reqs[t];
                let full = w::build(
                    r.id,
                    w::F_QR | w::F_RD | w::F_RA,
                    &[r.question.clone()],
                    &[w::a_rr(&r.question.name, 60, [10, 8, 8, 8])],
                    &[],
                    &[],
                );
                // keep the header (counts say 1 question + 1 answer) and cut inside the body
                let n = 12 + (*keep as usize % (full.len() - 13));
                let bytes = full[..n].to_vec();
                inbox.lock().unwrap().push_back(In::Msg(bytes.clone()));
                minbox.push_back(MIn::Msg {
                    bytes,
                    te: sim::now_nanos(),
                    wellformed: false,
                });
                rec.class("op:deliver-cut-short");
            }
            Op::Garbage(b) => {
                let mut bytes = b.clone();
                bytes.truncate(11); // shorter than a header: no decoder can accept it
                inbox.lock().unwrap().push_back(In::Msg(bytes.clone()));
                minbox.push_back(MIn::Msg {
                    bytes,
                    te: sim::now_nanos(),
                    wellformed: false,
                });
                rec.class("op:garbage");
            }
            Op::Advance { ms } => {
                sim.advance(Duration::from_millis(*ms as u64));
                rec.class("op:advance");
            }
            Op::DropReceiver { target } => {
                if reqs.is_empty() {
                    continue;
                }
                let t = *target as usize % reqs.len();
                if reqs[t].rx.is_some() {
                    reqs[t].rx = None;
                    reqs[t].cancelled = true;
                    rec.class("op:drop-receiver");
                }
            }
            Op::Close | Op::Error => {
                inbox.lock().unwrap().push_back(if matches!(op, Op::Close) { In::Close } else { In::Err });
                minbox.push_back(MIn::End);
                rec.class(if matches!(op, Op::Close) { "op:close" } else { "op:error" });
            }
            Op::Poll => {
                let now = sim::now_nanos();
                // ---- implementation
                if !mux_done {
                    match Pin::new(&mut mux).poll_next(&mut cx) {
                        Poll::Pending => {}
                        Poll::Ready(None) => mux_done = true,
                        Poll::Ready(Some(Ok(()))) => {}
                        Poll::Ready(Some(Err(_))) => mux_done = true,
                    }
                }
                // ---- model
                if !closed {
                    // requests whose requester went away or whose time is up leave the table
                    let mut timed_out_now: Vec<usize> = vec![];
                    for (i, r) in reqs.iter_mut().enumerate() {
                        if r.removed {
                            continue;
                        }
                        if r.cancelled {
                            r.removed = true;
                        } else if now >= r.deadline {
                            r.removed = true;
                            r.end = Some(End::Timeout);
                            timed_out_now.push(i);
                        }
                    }
                    while let Some(m) = minbox.pop_front() {
                        match m {
                            MIn::Msg { bytes, te, wellformed } => {
                                if !wellformed {
                                    continue; // reaches nobody
                                }
                                let id = u16::from_be_bytes([bytes[0], bytes[1]]);
                                if let Some(r) = reqs.iter_mut().find(|r| !r.removed && r.id == id) {
                                    // channel capacity (8 buffered responses per request) is an
                                    // implementation limit, not part of the statement
                                    let must = r.undrained < 8;
                                    r.exp.push((bytes, must));
                                    r.undrained += 1;
                                } else if let Some(&i) = timed_out_now.iter().find(|&&i| reqs[i].id == id && te < reqs[i].deadline) {
                                    // queued before the deadline, looked at after it: either way
                                    reqs[i].exp.push((bytes, false));
                                }
                            }
                            MIn::End => {
                                for r in reqs.iter_mut().filter(|r| !r.removed) {
                                    r.removed = true;
                                    r.end = Some(End::Closed);
                                    r.full_at_close = r.undrained >= 8;
                                }
                                closed = true;
                                minbox.clear();
                                break;
                            }
                        }
                    }
                }
                rec.class("op:poll");
            }
            Op::Drain { target } => {
                if reqs.is_empty() {
                    continue;
                }
                let t = *target as usize % reqs.len();
                drain(&mut reqs[t], &mut cx);
                rec.class("op:drain");
            }
        }
    }
    for r in reqs.iter_mut() {
        drain(r, &mut cx);
    }
    if closed {
        vensure!(
            mux_done,
            "mux-not-finished-after-close",
            "the transport ended but the multiplexer did not report completion"
        );
    }

    // ---- compare ------------------------------------------------------------------------------
    for (i, r) in reqs.iter().enumerate() {
        if r.rx.is_none() {
            continue; // receiver dropped: nothing observable
        }
        // 1. only messages carrying this request's id
        let mut oks: Vec<&Vec<u8>> = vec![];
        let mut err_at: Option<usize> = None;
        for (k, g) in r.got.iter().enumerate() {
            match g {
                Got::Ok(b) => {
                    let id = u16::from_be_bytes([b[0], b[1]]);
                    vensure!(
                        id == r.id,
                        "mux-response-to-wrong-request",
                        "request {i} (id {}) received a message with id {id}",
                        r.id
                    );
                    vensure!(
                        err_at.is_none(),
                        "mux-delivery-after-end",
                        "request {i} received a message after its terminal error"
                    );
                    oks.push(b);
                }
                Got::Err(..) => {
                    vensure!(err_at.is_none(), "mux-two-errors", "request {i} received two errors");
                    err_at = Some(k);
                }
            }
        }
        // 2. exactly the deliveries addressed to it while it was pending, in order
        if let Err(why) = subseq_ok(&r.exp, &oks) {
            let sig = if why == "unexpected" {
                "mux-unexpected-delivery"
            } else {
                "mux-missing-or-reordered-delivery"
            };
            vfail!(
                sig,
                "request {i} (id {}): expected {} deliveries ({} mandatory), got {} ({why}); end={:?}",
                r.id,
                r.exp.len(),
                r.exp.iter().filter(|e| e.1).count(),
                oks.len(),
                r.end
            );
        }
        // 3. how it ended
        match r.end {
            None => {
                vensure!(
                    !r.finished && err_at.is_none(),
                    "mux-pending-request-ended",
                    "request {i} is still pending (no timeout, transport open) but its stream ended: {:?}",
                    r.got.last()
                );
            }
            Some(End::Closed) => {
                vensure!(
                    err_at.is_some() || (r.full_at_close && r.finished),
                    "mux-closed-without-error",
                    "the transport ended while request {i} was pending, but it received no error (finished={})",
                    r.finished
                );
            }
            Some(End::Timeout) => {
                // DnsResponseStream renders NetError::Timeout as end-of-stream; `first_answer`
                // turns that back into Err(Timeout)
                let timeout_like = match err_at {
                    None => r.finished,
                    Some(k) => matches!(&r.got[k], Got::Err(_, true)),
                };
                vensure!(
                    timeout_like,
                    "mux-timeout-not-reported",
                    "request {i} passed its deadline; stream finished={} err={:?}",
                    r.finished,
                    err_at.map(|k| &r.got[k])
                );
            }
        }
    }

    rec.class(format!("max-inflight:{}", max_inflight.min(8)));
    if closed {
        rec.class("history:closed");
    }
    if reqs.iter().any(|r| r.end == Some(End::Timeout)) {
        rec.class("history:timeout");
    }
    if reqs.iter().any(|r| r.exp.iter().any(|e| !e.1)) {
        rec.class("history:optional-delivery");
    }
    if nontrivial {
        rec.nontrivial();
        if rec.wants_note() {
            rec.note(render_mux(c));
        }
    }
    drop(mux);
    drop(sim);
    Ok(())
}

fn op_strategy() -> impl Strategy<Value = Op> {
    prop_oneof![
        8 => Just(Op::Send),
        10 => (any::<u8>(), prop_oneof![6 => Just(1u8), 2 => Just(2u8), 1 => Just(3u8)]).prop_map(|(target, dup)| Op::Deliver { target, dup }),
        2 => any::<u16>().prop_map(|seed| Op::DeliverUnknown { seed }),
        1 => (any::<u8>(), any::<u8>()).prop_map(|(target, keep)| Op::DeliverCut { target, keep }),
        1 => vec(any::<u8>(), 0..12).prop_map(Op::Garbage),
        3 => prop_oneof![Just(1u16), 1u16..200, 200u16..1200].prop_map(|ms| Op::Advance { ms }),
        2 => any::<u8>().prop_map(|target| Op::DropReceiver { target }),
        8 => Just(Op::Poll),
        4 => any::<u8>().prop_map(|target| Op::Drain { target }),
    ]
}

fn mux_case(tier: Tier) -> impl Strategy<Value = MuxCase> {
    let n = match tier {
        Tier::Quick => 40usize,
        Tier::Thorough => 70,
    };
    // the transport ends at most once, at a drawn position (often late), possibly followed by
    // more ops (which must then reach nobody)
    let end = prop_oneof![
        4 => Just(None),
        3 => (any::<prop::sample::Index>(), any::<prop::sample::Index>(), any::<bool>()).prop_map(Some),
    ];
    (prop_oneof![Just(100u16), Just(500), Just(1000)], vec(op_strategy(), 1..n), end).prop_map(|(timeout_ms, mut ops, end)| {
        if let Some((a, b, clean)) = end {
            // biased towards the end of the history
            let pos = a.index(ops.len() + 1).max(b.index(ops.len() + 1));
            ops.insert(pos, if clean { Op::Close } else { Op::Error });
        }
        MuxCase { timeout_ms, ops }
    })
}

// silence "unused" for the trait import used only through method syntax
#[allow(dead_code)]
fn _assert_rt<P: RuntimeProvider>() {}

pub fn check() -> Option<Check> {
    let udp_enum = enumerate("udp_orders_le4", udp_enum_cases, |c: &UdpCase, rec: &mut Rec| {
        let _det = crate::detrand::DetRand::start(crate::core::det_seed(c));
        run_udp(c, rec)
    });
    let udp = prop("udp_schedules", 300_000, 6_000_000, udp_case, |c: &UdpCase, rec: &mut Rec| {
        let _det = crate::detrand::DetRand::start(crate::core::det_seed(c));
        run_udp(c, rec)
    });
    let mux = prop("stream_multiplexer", 300_000, 6_000_000, mux_case, |c: &MuxCase, rec: &mut Rec| {
        let _det = crate::detrand::DetRand::start(crate::core::det_seed(c));
        run_mux(c, rec)
    });
    Some(Check {
        id: "C16",
        level: "exploration",
        rule: "UDP: real UdpClientStream on the simulated runtime; per transmission a scripted arrival list over {genuine, wrong IP, wrong port, wrong ID, foreign/extra question, flipped case, the asked question twice (exact and case-flipped, either order), empty question, garbage, truncated, not-a-response, v4-mapped source} built from the octets hickory sent; every sequence of <= 4 datagrams over the nine named kinds enumerated (x 0x20 on/off x two spacings), longer and multi-transmission schedules sampled; non-trivial = distinct schedule in which at least one forged datagram precedes an acceptable one on its socket. Stream: real DnsMultiplexer over a scripted DnsClientStream, op histories (send, deliver pending/unknown/duplicate/cut, garbage, advance, drop receiver, close/error, poll, drain) against an ID-routing model; non-trivial = >= 2 requests in flight with out-of-order or duplicated delivery.",
        assumptions: vec![
            "source-address comparison treats an IPv4-mapped IPv6 source as the IPv4 host (documented upstream, issue 2081)",
            "an empty question section is a subset of the asked questions (statement: 'names only questions that were asked')",
            "a malformed datagram from the queried address, a non-response, or a case mismatch under 0x20 may either be skipped or end the query in an error; both satisfy the statement",
            "a response queued before a request's deadline but first looked at after it may or may not be delivered; more than 8 undrained responses per request may be dropped (channel capacity)",
            "the harness owns the delivery schedule (single thread): delivery orders are explored, not thread interleavings",
        ],
        subs: vec![udp_enum, udp, mux],
    })
}
